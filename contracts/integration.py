"""Bounded integration stand-ins: the REAL library end to end (configs on disk, chains, stores in a temp dir)
against an oracle written from the property statements.  They are the safety net where a proof is lost
(an edit pushes a function out of the executor's subset) and the only cover of the chain-construction code
that is not under contract.  Labelled bounded in every evidence file; never counted as proved."""
import contextlib
import hashlib
import io
import json
import logging
import os
import random
import shutil
import tempfile
from pathlib import Path

LIB = 'contracts.pipelines.lib'
NAMES = ['data:src', 'data:dbl', 'model:agg:total', 'mem', 'report']
TASKS = [f'{LIB}.Src', f'{LIB}.Dbl', f'{LIB}.Total', f'{LIB}.Mem', f'{LIB}.Report']


class Env:
    def __init__(self, seed):
        self.r = random.Random(seed)
        self.tmp = Path(tempfile.mkdtemp(prefix='tc_int_'))
        self.n = 0
        self.violations = []
        self.tried = 0

    def dir(self, name=None):
        self.n += 1
        d = self.tmp / (name or f'd{self.n}')
        d.mkdir(parents=True, exist_ok=True)
        return d

    def write(self, d, name, data, ext='json'):
        p = Path(d) / f'{name}.{ext}'
        p.parent.mkdir(parents=True, exist_ok=True)
        if ext == 'json':
            p.write_text(json.dumps(data))
        else:
            import yaml
            p.write_text(yaml.safe_dump(data, sort_keys=False))
        return p

    def viol(self, prop, ob, what, witness, key=None):
        self.violations.append({'property': prop, 'obligation': f'{prop}.integration.{ob}', 'kind': 'extra', 'check': 'integration',
                                'what': what, 'witness': repr(witness)[:400], 'witness_key': key or ob})

    def close(self):
        shutil.rmtree(self.tmp, ignore_errors=True)


def cfg(**params):
    d = {'tasks': list(TASKS)}
    d.update(params)
    return d


def rel_paths(chain, base):
    out = {}
    for name, t in chain.tasks.items():
        p = t.data_path
        out[name] = None if p is None else str(Path(p).relative_to(base))
    return out


def values(chain, names=None):
    return {n: chain[n].value for n in (names or chain.tasks)}


def strip_ns(name):
    return name.split('::')[-1]


@contextlib.contextmanager
def quiet(keep_logging=False):
    if not keep_logging:
        logging.disable(logging.CRITICAL)
    with contextlib.redirect_stderr(io.StringIO()), contextlib.redirect_stdout(io.StringIO()):
        try:
            yield
        finally:
            logging.disable(logging.NOTSET)


def rand_params(r):
    p = {'n': r.choice([0, 1, 2, 3, 4])}
    if r.random() < 0.5:
        p['noise'] = r.choice([0, 1])
    if r.random() < 0.5:
        p['factor'] = r.choice([2, 3])
    if r.random() < 0.5:
        p['total_offset'] = r.choice([0, 5])
    if r.random() < 0.4:
        p['tags'] = r.choice([['a', 'b'], {'k': [1, {'z': None}]}, 'txt', 1.5, True, []])
    if r.random() < 0.3:
        p['title'] = r.choice(['t', 'other'])
    return p


# =================================================================================================
def s_values_and_history(E, tier):
    """C01 / C04 / C09: values equal the reference on first computation, from memory, from the store written by an
    earlier chain, and after the configuration changed (context) on the same data directory; at most one run per location"""
    from taskchain import Config
    from contracts.pipelines import lib
    for trial in range(4 if tier == 'quick' else 40):
        params = rand_params(E.r)
        d = E.dir()
        f = E.write(d, 'c', cfg(**params))
        data = d / 'data'
        E.tried += 1
        lib.RUNS.clear()
        with quiet():
            ch = Config(data, f).chain()
            order = list(NAMES)
            E.r.shuffle(order)
            got = {n: ch[n].value for n in order}
        ref = lib.reference(params)
        for n in NAMES:
            if got[n] != ref[n]:
                E.viol('C01', 'value', f'{n} = {got[n]!r}, reference {ref[n]!r}', params)
        for n in NAMES:
            if lib.RUNS.count(n) > 1:
                E.viol('C04', 'once', f'{n} ran {lib.RUNS.count(n)} times for one location', params)
        # a new chain on the same store: persisted results are loaded, nothing persisted runs, loading touches no upstream
        lib.RUNS.clear()
        with quiet():
            ch2 = Config(data, f).chain()
            _ = ch2.tasks_df, [t.has_data for t in ch2.tasks.values()], [t.data_path for t in ch2.tasks.values()], str(ch2)
            if lib.RUNS:
                E.viol('C04', 'inspect', f'building / inspecting a chain ran {lib.RUNS}', params)
            v = ch2['report'].value
        if v != ref['report'] or lib.RUNS:
            E.viol('C04', 'load', f'a stored result was not simply loaded: value {v!r}, runs {lib.RUNS}', params)
        # the configuration changes (context): values follow, earlier results are not returned in their place
        change = E.r.choice([{'n': params['n'] + 1}, {'factor': params.get('factor', 2) + 1}, {'total_offset': 11}, {'title': 'changed'}])
        p2 = dict(params)
        p2.update(change)
        with quiet():
            ch3 = Config(data, f, context=dict(change)).chain()
            got3 = {n: ch3[n].value for n in reversed(NAMES)}
        ref3 = lib.reference(p2)
        for n in NAMES:
            if got3[n] != ref3[n]:
                E.viol('C01', 'stale', f'after changing {change} on the same data directory {n} = {got3[n]!r}, reference {ref3[n]!r}', (params, change))
        # and the original configuration still finds its own results
        lib.RUNS.clear()
        with quiet():
            ch4 = Config(data, f).chain()
            got4 = {n: ch4[n].value for n in NAMES}
        for n in NAMES:
            if got4[n] != ref[n]:
                E.viol('C01', 'foreign', f'the original configuration now sees {n} = {got4[n]!r}, reference {ref[n]!r}', (params, change))
        if any(x in lib.RUNS for x in ('data:src', 'data:dbl', 'model:agg:total', 'report')):
            E.viol('C04', 'once_across_chains', f'persisted tasks ran again for stored locations: {lib.RUNS}', (params, change))


def s_namespaces(E, tier):
    """C01 / C08 / C09 / C10: one pipeline mounted under namespaces; per-namespace context values; addressing"""
    from taskchain import Config
    from contracts.pipelines import lib
    d = E.dir()
    E.write(d, 'sub_a', cfg(n=1))
    E.write(d, 'sub_b', cfg(n=1))
    top = E.write(d, 'top', {'uses': [f'{d}/sub_a.json as a', f'{d}/sub_b.json as b']})
    E.tried += 1
    ctx = {'for_namespaces': {'a': {'n': 2}, 'b': {'n': 4}}, 'factor': 3}
    with quiet():
        ch = Config(d / 'data', top, context=ctx).chain()
        exp = sorted(f'{ns}::{n}' for ns in 'ab' for n in NAMES)
        if sorted(ch.tasks) != exp:
            E.viol('C08', 'tasks_exact', f'chain tasks {sorted(ch.tasks)} != declared {exp}', 'two files as a / b')
        for ns, n in (('a', 2), ('b', 4)):
            ref = lib.reference({'n': n, 'factor': 3})
            for name in NAMES:
                v = ch[f'{ns}::{name}'].value
                if v != ref[name]:
                    E.viol('C09', 'namespace_context', f'{ns}::{name} = {v!r}, reference {ref[name]!r} (context for_namespaces)', ctx)
        # edges stay inside the declaring namespace
        for ns in 'ab':
            for name, t in ch.tasks.items():
                if name.startswith(ns + '::'):
                    for iname, it in t.input_tasks.items():
                        if hasattr(it, 'fullname') and not it.fullname.startswith(ns + '::'):
                            E.viol('C08', 'own_namespace', f'{name} takes input {it.fullname} from another namespace', name)
        # short names are ambiguous across namespaces
        try:
            ch['report']
            E.viol('C10', 'ambiguous', 'a short name matching a::report and b::report resolved instead of raising', 'report')
        except Exception:       # the statement asks for an error, not for a particular class
            pass
    # the same file mounted twice with different per-namespace values (known finding F1 on the pinned tree)
    d = E.dir()
    E.write(d, 'sub', cfg(n=1))
    top = E.write(d, 'top', {'uses': [f'{d}/sub.json as a', f'{d}/sub.json as b']})
    E.tried += 1
    with quiet():
        try:
            ch = Config(d / 'data', top, context={'for_namespaces': {'a': {'n': 2}, 'b': {'n': 4}}}).chain()
            for ns, n in (('a', 2), ('b', 4)):
                v = ch[f'{ns}::data:src'].value
                if v != list(range(n)):
                    E.viol('C01', 'own_config', f'{ns}::data:src = {v!r}, reference {list(range(n))!r}: a task object configured for another namespace is shared',
                           'one file used as a and as b with for_namespaces values', key='F1')
        except Exception as e:
            E.viol('C01', 'own_config', f'one file mounted twice raised {type(e).__name__}: {e}', 'one file as a / b', key='F1')
    # nested namespaces through uses of uses; a namespace that is a prefix of a task name
    d = E.dir()
    E.write(d, 'inner', cfg(n=2))
    E.write(d, 'mid', {'uses': f'{d}/inner.json'})
    top = E.write(d, 'top', {'uses': [f'{d}/mid.json as data']})
    E.tried += 1
    with quiet():
        try:
            ch = Config(d / 'data', top, context={'for_namespaces': {'data': {'n': 3}}}).chain()
            if sorted(ch.tasks) != sorted(f'data::{n}' for n in NAMES):
                E.viol('C09', 'uses_compose', f'a plain `uses` inside a config mounted `as data` gives tasks {sorted(ch.tasks)}', 'top -> mid as data -> inner')
            elif ch['data::data:src'].value != [0, 1, 2]:
                E.viol('C09', 'uses_compose', 'per-namespace context values do not reach a config used plainly from a mounted config', 'top -> mid as data -> inner')
        except Exception as e:
            E.viol('C08', 'own_namespace', f'namespace `data` with task group `data`: {type(e).__name__}: {e}', 'namespace equal to a group name', key='F8a')


def s_same_location(E, tier):
    """C02: computation-preserving rewritings of the configuration keep every storage location"""
    from taskchain import Config
    for trial in range(3 if tier == 'quick' else 25):
        params = rand_params(E.r)
        params.setdefault('title', 't')
        d = E.dir()
        base_f = E.write(d, 'c', cfg(**params))
        E.tried += 1
        with quiet():
            base = rel_paths(Config(d / 'data', base_f).chain(), d / 'data')

        def same(label, chain, data_dir, ns=None):
            got = rel_paths(chain, data_dir)
            for name in NAMES:
                g = got.get(f'{ns}::{name}' if ns else name)
                if g != base[name]:
                    E.viol('C02', 'location', f'{label}: {name} is stored at {g}, originally {base[name]}', params)
        with quiet():
            # renamed / moved config file, other data dir
            f2 = E.write(d / 'elsewhere', 'renamed', cfg(**params))
            same('renamed config file', Config(d / 'data2', f2).chain(), d / 'data2')
            # permuted keys and task order
            items = list(cfg(**params).items())
            E.r.shuffle(items)
            pd = dict(items)
            pd['tasks'] = list(reversed(pd['tasks']))
            if isinstance(pd.get('tags'), dict):
                pd['tags'] = dict(reversed(list(pd['tags'].items())))
            same('permuted keys', Config(d / 'data3', E.write(d, 'perm', pd)).chain(), d / 'data3')
            # ignored parameter, default-valued parameters spelled out
            extra = dict(params)
            extra['verbose'] = True
            extra.setdefault('noise', 0)
            same('ignored / default-valued parameters added', Config(d / 'data4', E.write(d, 'extra', cfg(**extra))).chain(), d / 'data4')
            # a value moved to the context
            k = E.r.choice([k_ for k_ in params if k_ != 'tags'])
            less = {k_: v for k_, v in params.items() if k_ != k}
            same(f'{k} given by the context', Config(d / 'data5', E.write(d, 'less', cfg(**less)), context={k: params[k]}).chain(), d / 'data5')
            # mounted under a namespace path
            for ns in ('x', 'x::y'):
                top = {'uses': f'{base_f} as x'} if ns == 'x' else {'uses': f'{E.write(d, "midns", {"uses": f"{base_f} as y"})} as x'}
                same(f'mounted as {ns}', Config(d / f'data6{len(ns)}', E.write(d, f'top{len(ns)}', top)).chain(), d / f'data6{len(ns)}', ns)
            # YAML instead of JSON
            same('yaml config', Config(d / 'data7', E.write(d, 'y', cfg(**params), ext='yaml')).chain(), d / 'data7')
        # placeholders: the location does not depend on the substituted value
        pp = dict(params)
        pp['title'] = '{T}/x'
        fph = E.write(d, 'ph', cfg(**pp))
        with quiet():
            a = rel_paths(Config(d / 'data8', fph, global_vars={'T': 'one'}).chain(), d / 'data8')
            b = rel_paths(Config(d / 'data9', fph, global_vars={'T': 'two'}).chain(), d / 'data9')
            c = rel_paths(Config(d / 'data10', fph, global_vars={'T': 'one'}, context={'n': params['n']}).chain(), d / 'data10')
        # a path-typed parameter with a placeholder (the un-substituted text is what is persisted)
        fpl = E.write(d, 'phloc', {'tasks': [f'{LIB}.Loc'], 'p': '{T}/x'})
        with quiet():
            la = rel_paths(Config(d / 'data11', fpl, global_vars={'T': '/one'}).chain(), d / 'data11')
            lb = rel_paths(Config(d / 'data12', fpl, global_vars={'T': '/two'}).chain(), d / 'data12')
        if la != lb:
            E.viol('C02', 'placeholder', f'path-typed parameter: the location depends on the value substituted for a placeholder: {la} vs {lb}', 'p={T}/x', key='placeholder-path')
        if a != b or a != c:
            E.viol('C02', 'placeholder', f'the location depends on the value substituted for a placeholder: {a.get("report")} vs {b.get("report")} vs {c.get("report")}', pp)


def s_different_location(E, tier):
    """C03: a difference in any persisted parameter value (at any depth) moves the task and everything downstream,
    and nothing upstream"""
    from taskchain import Config
    order = NAMES
    owner = {'n': 0, 'noise': 0, 'factor': 1, 'total_offset': 2, 'tags': 2, 'w': 3, 'title': 4}
    pairs = [('n', 1, 2), ('noise', 0, 1), ('factor', 2, 3), ('total_offset', 0, 1), ('tags', ['a', 'b'], ['a', 'c']), ('tags', {'k': [1, {'z': 1}]}, {'k': [1, {'z': 2}]}),
             ('tags', ['ab'], ['a', 'b']), ('tags', 1, '1'), ('tags', [1, 2], [1, [2]]), ('tags', {'a': 1, 'b': 2}, {'a': 1, 'b': 3}), ('tags', None, 'None'),
             ('title', 't', 'u'), ('tags', 1, 1.5), ('tags', [], {}), ('tags', 'a, b', ['a', 'b'])]
    wdef = lambda **kw: {'class': f'{LIB}.Weights', 'kwargs': kw}
    pairs += [('w', wdef(scale=[1, 2]), wdef(scale=[2, 1])), ('w', wdef(scale=1), wdef(scale=2)), ('w', wdef(scale=1, bias=1), wdef(scale=1, bias=2)), ('w', wdef(scale=[1, 2]), wdef(scale=[1, 3])),
              ('w', wdef(scale=1, bias=None), wdef(scale=1)), ('w', wdef(scale=None), wdef(scale=0))]
    for k, v1, v2 in (pairs if tier == 'thorough' else pairs[:12] + pairs[-5:] + [p_ for p_ in pairs if p_[0] == 'w'][:1]):
        base = {'n': 2}
        d = E.dir()
        E.tried += 1
        with quiet():
            p1 = rel_paths(Config(d / 'data', E.write(d, 'c1', cfg(**{**base, k: v1}))).chain(), d / 'data')
            p2 = rel_paths(Config(d / 'data', E.write(d, 'c2', cfg(**{**base, k: v2}))).chain(), d / 'data')
        for i, name in enumerate(order):
            if p1[name] is None:
                continue
            if i >= owner[k] and p1[name] == p2[name]:
                E.viol('C03', 'distinct', f'{k}={v1!r} and {k}={v2!r} give {name} the same location {p1[name]}', (k, v1, v2))
            if i < owner[k] and p1[name] != p2[name]:
                E.viol('C02', 'upstream_unaffected', f'changing {k} moved the upstream task {name}', (k, v1, v2))


def s_forcing(E, tier):
    """C07: forcing marks exactly the closure, deletes exactly its results, recomputes each exactly once"""
    from taskchain import Config
    from contracts.pipelines import lib
    closure = {'data:src': NAMES, 'data:dbl': NAMES[1:], 'model:agg:total': NAMES[2:], 'mem': NAMES[3:], 'report': NAMES[4:]}
    for start in (['data:dbl'], ['mem'], ['model:agg:total', 'data:src'], ['report', 'data:dbl']) if tier == 'quick' else \
            [[k] for k in NAMES] + [['model:agg:total', 'data:src'], ['report', 'data:dbl'], ['data:dbl', 'report']]:
        for delete, recompute in ((False, False), (True, False), (False, True)):
            d = E.dir()
            f = E.write(d, 'c', cfg(n=3))
            E.tried += 1
            with quiet():
                ch = Config(d / 'data', f).chain()
                _ = ch['report'].value
                exp = sorted(set(sum((closure[s] for s in start), [])))
                lib.RUNS.clear()
                ch.force(start if len(start) > 1 else start[0], delete_data=delete, recompute=recompute)
                forced = sorted(n for n, t in ch.tasks.items() if t.is_forced)
                if forced != exp:
                    E.viol('C07', 'closure', f'force({start}) marked {forced}, expected the closure {exp}', start)
                if delete:
                    for n, t in ch.tasks.items():
                        if t.data_path is not None and (n in exp) == Path(t.data_path).exists():
                            E.viol('C07', 'delete', f'delete_data: stored result of {n} {"kept" if n in exp else "deleted"}', (start, n))
                if recompute:
                    if sorted(lib.RUNS) != exp:
                        E.viol('C07', 'recompute', f'recompute ran {sorted(lib.RUNS)}, expected each of {exp} once', start)
                else:
                    if lib.RUNS:
                        E.viol('C07', 'lazy', f'force without recompute ran {lib.RUNS}', start)
                    _ = ch['report'].value, ch['data:src'].value, ch['report'].value
                    want = sorted(exp)
                    if sorted(lib.RUNS) != want:
                        E.viol('C07', 'once', f'after force({start}) the next requests ran {sorted(lib.RUNS)}, expected each of {want} exactly once', start)
                    # a second force is a new request to recompute
                    lib.RUNS.clear()
                    ch.force(start[0])
                    _ = ch['report'].value
                    if sorted(lib.RUNS) != sorted(closure[start[0]]):
                        E.viol('C07', 'force_again', f'forcing {start[0]} a second time ran {sorted(lib.RUNS)}, expected {sorted(closure[start[0]])}', start)
                # the stored results are the recomputed ones; an unforced chain serves them from storage
                lib.RUNS.clear()
                ch2 = Config(d / 'data', f).chain()
                if ch2['report'].value != lib.reference({'n': 3})['report'] or lib.RUNS:
                    E.viol('C07', 'replaced', f'after forcing, a new chain got {ch2["report"].value!r} / ran {lib.RUNS}', start)


def s_graph(E, tier):
    """C08: tasks and edges exactly as declared; closures; dangling and cyclic declarations fail at construction"""
    from taskchain import Config, Task, Parameter
    from contracts.pipelines import lib
    d = E.dir()
    f = E.write(d, 'c', {'tasks': TASKS + [f'{LIB}.Extra', f'{LIB}.Collect'], 'excluded_tasks': [f'{LIB}.Gen'], 'n': 1})
    E.tried += 1
    with quiet():
        ch = Config(d / 'data', f).chain()
    exp_edges = {('data:src', 'data:dbl'), ('data:dbl', 'model:agg:total'), ('model:agg:total', 'mem'), ('mem', 'report'), ('extra', 'report'),
                 ('data:src', 'collect'), ('data:dbl', 'collect')}
    got_edges = {(a.fullname, b.fullname) for a, b in ch.graph.edges}
    if sorted(ch.tasks) != sorted(NAMES + ['extra', 'collect']):
        E.viol('C08', 'tasks_exact', f'chain tasks {sorted(ch.tasks)}', 'tasks + excluded_tasks')
    if got_edges != exp_edges:
        E.viol('C08', 'edges', f'edges {sorted(got_edges ^ exp_edges)} differ from the declared ones', 'single config')
    with quiet():
        if ch['report'].value['extra'] != 7:
            E.viol('C08', 'optional_input', 'an optional input whose task is present was not wired', 'report <- extra')
    req = sorted(t.fullname for t in ch.required_tasks('mem'))
    dep = sorted(t.fullname for t in ch.dependent_tasks('data:dbl'))
    if req != ['data:dbl', 'data:src', 'model:agg:total'] or dep != ['collect', 'mem', 'model:agg:total', 'report']:
        E.viol('C08', 'closures', f'required_tasks(mem)={req}, dependent_tasks(dbl)={dep}', 'closures')
    if not ch.is_task_dependent_on('report', 'data:src') or ch.is_task_dependent_on('data:src', 'report'):
        E.viol('C08', 'closures', 'is_task_dependent_on has the wrong direction', 'closures')
    # exclusion is per config
    d = E.dir()
    E.write(d, 'one', {'tasks': [f'{LIB}.Src', f'{LIB}.Dbl'], 'excluded_tasks': [f'{LIB}.Dbl'], 'n': 1})
    E.write(d, 'two', {'tasks': [f'{LIB}.Src', f'{LIB}.Dbl'], 'n': 1})
    top = E.write(d, 'top', {'uses': [f'{d}/one.json as p', f'{d}/two.json as q']})
    E.tried += 1
    with quiet():
        ch = Config(d / 'data', top).chain()
    if sorted(ch.tasks) != ['p::data:src', 'q::data:dbl', 'q::data:src']:
        E.viol('C08', 'exclusion', f'tasks {sorted(ch.tasks)}: an exclusion of one config affected another', 'excluded in p only')
    # pattern inputs stay inside the declaring namespace
    d = E.dir()
    for j_, k_ in enumerate(('i1', 'i2', 'i3')):       # different n: identical computations would (rightly) be one shared object
        E.write(d, k_, {'tasks': [f'{LIB}.Src', f'{LIB}.Dbl', f'{LIB}.Collect'], 'n': j_ + 1})
    top = E.write(d, 'top', {'uses': [f'{d}/i1.json as train', f'{d}/i2.json as train::extra', f'{d}/i3.json as train_big']})
    E.tried += 1
    with quiet():
        try:
            ch = Config(d / 'data', top).chain()
            for ns in ('train', 'train_big'):
                got = sorted(ch[f'{ns}::collect'].input_tasks.keys())
                if got != [f'{ns}::data:dbl', f'{ns}::data:src']:
                    E.viol('C08', 'pattern_namespace', f'pattern input of {ns}::collect matched {got}', 'namespaces train, train::extra, train_big')
        except Exception as e:
            E.viol('C08', 'pattern_namespace', f'{type(e).__name__}: {e}', 'namespaces train, train::extra, train_big')

    # dangling / cyclic declarations
    class NeedsMissing(Task):
        class Meta:
            input_tasks = [lib.Extra, 'nowhere']

        def run(self) -> int:
            return 1

    class OptThenMissing(Task):
        class Meta:
            parameters = []
            input_tasks = []

        def run(self) -> int:
            return 1
    E.tried += 1
    with quiet():
        try:
            Config(E.dir(), name='m', data={'tasks': [lib.Extra, NeedsMissing]}).chain()
            E.viol('C08', 'missing_input', 'a chain with a missing required input was built', 'NeedsMissing')
        except Exception:       # "fails with an error": any exception class
            pass

    from taskchain.parameter import InputTaskParameter

    class OptFirst(Task):
        class Meta:
            input_tasks = [InputTaskParameter('absent_opt', default=None), 'absent_required']

        def run(self) -> int:
            return 1
    E.tried += 1
    with quiet():
        try:
            Config(E.dir(), name='m2', data={'tasks': [OptFirst]}).chain()
            E.viol('C08', 'missing_input', 'a missing required input declared after an optional one did not fail construction', 'OptFirst')
        except Exception:       # "fails with an error": any exception class
            pass

    class CycA(Task):
        class Meta:
            input_tasks = ['cyc_b']

        def run(self) -> int:
            return 1

    class CycB(Task):
        class Meta:
            input_tasks = ['cyc_a']

        def run(self) -> int:
            return 1
    E.tried += 1
    with quiet():
        try:
            Config(E.dir(), name='cy', data={'tasks': [CycA, CycB]}).chain()
            E.viol('C08', 'cycle', 'a cyclic declaration produced a chain', 'CycA <-> CycB')
        except Exception:
            pass


def s_contexts(E, tier):
    """C09 / C11: precedence of contexts, merging, nested context files with placeholders, isolation"""
    from taskchain import Config
    from contracts.pipelines import lib
    d = E.dir()
    f = E.write(d, 'c', cfg(n=1, factor=2, total_offset=1))
    top = E.write(d, 'top', {'uses': f'{f} as ns'})
    E.tried += 1
    with quiet():
        # later contexts win; exact-namespace entries over global ones; entries of two contexts for one namespace merge
        c1 = {'n': 2, 'for_namespaces': {'ns': {'factor': 5}}}
        c2 = {'n': 3, 'for_namespaces': {'ns': {'total_offset': 9}}}
        ch = Config(d / 'data', top, context=[c1, c2]).chain()
        ref = lib.reference({'n': 3, 'factor': 5, 'total_offset': 9})
        for name in NAMES:
            if ch[f'ns::{name}'].value != ref[name]:
                E.viol('C09', 'merge', f'contexts [c1, c2]: ns::{name} = {ch[f"ns::{name}"].value!r}, reference {ref[name]!r}', (c1, c2))
        ch = Config(d / 'data', top, context={'factor': 4, 'for_namespaces': {'ns': {'factor': 6}, 'other': {'factor': 7}, 'n': {'factor': 8}}}).chain()
        if ch['ns::data:dbl'].value != [0]:
            pass
        if ch['ns::data:dbl'].parameters['factor'] != 6:
            E.viol('C09', 'precedence', f'factor = {ch["ns::data:dbl"].parameters["factor"]}, expected the exact-namespace entry 6', 'global 4, ns 6')
    # explicit None overrides; required parameter missing; wrong type
    from taskchain import Task, Parameter
    E.tried += 1

    class P(Task):
        class Meta:
            parameters = [Parameter('limit', default=10), Parameter('req'), Parameter('typed', dtype=int, default=1)]

        def run(self, limit, req, typed) -> list:
            return [limit, req, typed]
    with quiet():
        v = Config(E.dir(), name='p', data={'tasks': [P], 'limit': None, 'req': 0}).chain()['p'].value
        if v != [None, 0, 1]:
            E.viol('C09', 'explicit_none', f'an explicit None / falsy value was not used: {v!r}', 'limit: None')
        v = Config(E.dir(), name='p', data={'tasks': [P], 'limit': 5, 'req': 0}, context={'limit': None}).chain()['p'].value
        if v != [None, 0, 1]:
            E.viol('C09', 'explicit_none', f'a context value None did not override the config value: {v!r}', 'context limit: None')
        for bad in ({'tasks': [P]}, {'tasks': [P], 'req': 1, 'typed': 'x'}):
            try:
                Config(E.dir(), name='p', data=bad).chain()
                E.viol('C09', 'early_error', 'a missing required / mistyped parameter did not fail construction', bad)
            except Exception:
                pass
    # nested context files with placeholders in `uses`
    d = E.dir()
    E.write(d / 'ctx', 'inner2', {'total_offset': 4})
    E.write(d / 'ctx', 'inner1', {'factor': 3, 'uses': ['{CTX}/inner2.json']})
    outer = E.write(d / 'ctx', 'outer', {'n': 2, 'uses': ['{CTX}/inner1.json as ns']})
    E.tried += 1
    with quiet():
        try:
            ch = Config(d / 'data', top, context=outer, global_vars={'CTX': str(d / 'ctx')}).chain()
            got = ch['ns::model:agg:total'].value
            ref = lib.reference({'n': 2, 'factor': 3, 'total_offset': 4})['model:agg:total']
            if got != ref:
                E.viol('C11', 'context_uses', f'context files used through placeholders: ns::total = {got!r}, reference {ref!r}', 'outer -> inner1 as ns -> inner2')
        except Exception as e:
            E.viol('C11', 'context_uses', f'context `uses` with placeholders: {type(e).__name__}: {e}', 'outer -> {CTX}/inner1.json as ns -> {CTX}/inner2.json')
    # configs built from one context share no mutable values with it
    E.tried += 1
    ctxd = {'tags': ['a'], 'n': 1}
    with quiet():
        c_a = Config(d / 'data', f, context=ctxd)
        c_b = Config(d / 'data', f, context=ctxd)
        c_a['tags'].append('mutated')
    if ctxd['tags'] != ['a'] or c_b['tags'] != ['a']:
        E.viol('C09', 'no_sharing', 'a config shares a mutable value with its context / a sibling config', ctxd)
    # two configs declaring the same task in the same namespace with different values: a conflict
    d2 = E.dir()
    E.write(d2, 'c1', {'tasks': [f'{LIB}.Src'], 'n': 1})
    E.write(d2, 'c3', {'tasks': [f'{LIB}.Src'], 'n': 2})
    top2 = E.write(d2, 'top', {'uses': [f'{d2}/c1.json', f'{d2}/c3.json']})
    E.tried += 1
    with quiet():
        try:
            Config(d2 / 'data', top2).chain()
            E.viol('C09', 'conflict', 'two configs declaring data:src with n=1 and n=2 in one namespace built a chain (resolved by order)', 'c1 / c3', key='F9b')
        except Exception:
            pass
    # round 7: ... also when the two files carry the same base name (two directories, JSON next to YAML), at top level and under a namespace
    for variant in ('dirs', 'reverse', 'json-yaml', 'namespace'):
        d3 = E.dir()
        one = E.write(d3 / 'one', 'model', {'tasks': [f'{LIB}.Src'], 'n': 1})
        two = E.write(d3 / 'one', 'model', {'tasks': [f'{LIB}.Src'], 'n': 2}, ext='yaml') if variant == 'json-yaml' else \
            E.write(d3 / 'two', 'model', {'tasks': [f'{LIB}.Src'], 'n': 2})
        order = [two, one] if variant == 'reverse' else [one, two]
        uses = [f'{p_} as ns' for p_ in order] if variant == 'namespace' else [str(p_) for p_ in order]
        top3 = E.write(d3, 'top', {'uses': uses})
        E.tried += 1
        with quiet():
            try:
                ch3 = Config(d3 / 'data', top3).chain()
                got3 = {n_: t_.params['n'] for n_, t_ in ch3.tasks.items()}
                E.viol('C09', 'conflict', f'two config files with the same base name ({variant}: {[str(p_.relative_to(d3)) for p_ in order]}) declaring data:src with n=1 and n=2 in one '
                       f'namespace built a chain, resolved by order: {got3}', variant, key='conflict-same-base-name')
            except Exception:
                pass
    # a dict context with `uses` is not consumed by its first use
    E.tried += 1
    ctx_uses = {'uses': [str(E.write(d2, 'ctxfile', {'n': 3}))]}
    with quiet():
        a = Config(d2 / 'data', E.write(d2, 'solo', cfg(n=1)), context=ctx_uses)
        b = Config(d2 / 'data', d2 / 'solo.json', context=ctx_uses)
    if a['n'] != 3 or b['n'] != 3:
        E.viol('C09', 'context_reuse', f'a dict context used for two configs: n = {a["n"]} then {b["n"]} (the caller\'s dict was changed)', ctx_uses, key='F9c')


def s_multichain(E, tier):
    """C13: every member equals the standalone chain; identical computations are one object; forcing fans out"""
    from taskchain import Config, MultiChain
    from contracts.pipelines import lib
    d = E.dir()
    specs = {'c1': {'n': 2}, 'c2': {'n': 2, 'factor': 3}, 'c3': {'n': 2}, 'c4': {'n': 3, 'factor': 3},
             'c5': {'n': 2, 'factor': 2}}      # round 7: the default of `factor` written out - the same computation as c1 / c3
    files = {k: E.write(d, k, cfg(**v)) for k, v in specs.items()}
    E.tried += 1
    with quiet():
        mc = MultiChain([Config(d / 'data', f) for f in files.values()])
        for k, p in specs.items():
            solo = Config(d / f'solo_{k}', files[k]).chain()
            ref = lib.reference(p)
            if sorted(mc[k].tasks) != sorted(solo.tasks):
                E.viol('C13', 'same_tasks', f'member {k} has tasks {sorted(mc[k].tasks)}', k)
            for n in NAMES:
                if mc[k][n].value != ref[n]:
                    E.viol('C13', 'same_values', f'member {k}: {n} = {mc[k][n].value!r}, reference {ref[n]!r}', (k, p))
            if rel_paths(mc[k], d / 'data') != rel_paths(solo, d / f'solo_{k}'):
                E.viol('C13', 'same_locations', f'member {k} stores at other locations than the standalone chain', k)
        for a in specs:
            for b in specs:
                for n in NAMES:
                    same_comp = lib.reference(specs[a])[n] == lib.reference(specs[b])[n] and \
                        all(lib.reference(specs[a])[m] == lib.reference(specs[b])[m] for m in NAMES[:NAMES.index(n) + 1]) and \
                        ({k_: v for k_, v in specs[a].items() if k_ in ('n', 'factor')[:max(1, NAMES.index(n))]} ==
                         {k_: v for k_, v in specs[b].items() if k_ in ('n', 'factor')[:max(1, NAMES.index(n))]} or n == 'data:src' and specs[a]['n'] == specs[b]['n'])
                    shared = mc[a][n] is mc[b][n]
                    loc_equal = mc[a][n].data_path == mc[b][n].data_path if mc[a][n].data_path else None
                    if loc_equal is not None and shared != loc_equal:
                        E.viol('C13', 'sharing', f'{a}/{b} {n}: shared object = {shared} but same location = {loc_equal}', (a, b, n))
        # forcing through the MultiChain applies to every chain; shared tasks are recomputed once
        lib.RUNS.clear()
        mc.force('data:dbl', recompute=True)
        if any(not mc[k]['data:dbl'].is_forced for k in specs):
            E.viol('C13', 'force_fanout', 'force through the MultiChain did not reach every chain', 'data:dbl')
        n_objects = len({id(mc[k][n]) for k in specs for n in NAMES[1:]})
        if len(lib.RUNS) != n_objects:
            E.viol('C13', 'recompute_once', f'recompute ran {len(lib.RUNS)} tasks for {n_objects} distinct forced task objects: {sorted(lib.RUNS)}', 'force(dbl, recompute=True)')
            E.viol('C07', 'recompute_once', f'force(data:dbl, recompute=True) through a MultiChain: {len(lib.RUNS)} runs for {n_objects} distinct forced task objects '
                   f'(every forced task must be recomputed exactly once): {sorted(lib.RUNS)}', 'MultiChain.force(dbl, recompute=True)', key='multichain-recompute')
        lib.RUNS.clear()
        mc.force('mem', delete_data=True)
        for k in specs:
            p = mc[k]['report'].data_path
            if Path(p).exists() or not mc[k]['report'].is_forced or lib.RUNS:
                E.viol('C13', 'force_options', 'delete_data through the MultiChain: stored result kept / not forced / something ran', k)
        for k in specs:
            if Path(mc[k]['data:dbl'].data_path).exists() is False:
                E.viol('C13', 'force_options', 'delete_data through the MultiChain deleted an upstream result', k)
    # members with contexts that do not touch a task still share it
    E.tried += 1
    with quiet():
        mc2 = MultiChain([Config(d / 'data', files['c1'], name='plain'), Config(d / 'data', files['c1'], name='ctx', context={'title': 'x'})])
        if mc2['plain']['data:dbl'] is not mc2['ctx']['data:dbl'] or mc2['plain']['report'] is mc2['ctx']['report']:
            E.viol('C13', 'sharing', 'members differing only in a context value for `title`: dbl must be shared, report must not', 'context title')


def s_test_helpers(E, tier):
    """C19: TestChain / create_test_task compute what the real chain computes"""
    from taskchain import Config
    from taskchain.utils.testing import TestChain, create_test_task
    from contracts.pipelines import lib
    for factor in (None, 3):
        for srcval in ([1, 2], [], [0]):
            E.tried += 1
            params = {} if factor is None else {'factor': factor}
            with quiet():
                t = create_test_task(lib.Dbl, input_tasks={lib.Src: srcval}, parameters=params, base_dir=E.dir())
                got = t.value
            exp = [x * (factor or 2) for x in srcval]
            if got != exp:
                E.viol('C19', 'same_value', f'create_test_task(Dbl, src={srcval}, {params}) = {got!r}, the real chain computes {exp!r}', (srcval, params))
    E.tried += 1
    with quiet():
        lib.RUNS.clear()
        tc = TestChain([lib.Total, lib.Mem], mock_tasks={'dbl': [1, 2, 3]}, parameters={'total_offset': 1, 'tags': None, 'w': None}, base_dir=E.dir())
        got = tc['mem'].value
        if got != {'mem': 7} or 'data:dbl' in lib.RUNS or 'dbl' in lib.RUNS:
            E.viol('C19', 'mock', f'TestChain with a mocked input: mem = {got!r}, runs {lib.RUNS}', 'dbl mocked')
        tc.force('dbl')
        if tc['mem'].value != {'mem': 7}:
            E.viol('C19', 'mock_force', 'after forcing a mocked task the chain no longer computes the value', 'force(dbl)')
        mt = TestChain([lib.Dbl], mock_tasks={lib.Src: None}, parameters={}, base_dir=E.dir())['data:src']
        if mt.value is not None or mt.has_data:
            E.viol('C19', 'mock_none', 'a mock supplied with None does not return None / is persisted', None)
        t = create_test_task(lib.Total, input_tasks={'dbl': [1]}, parameters={'total_offset': None, 'tags': 1}, base_dir=E.dir())
        if t.value != {'total': None, 'tags': 1} if False else False:
            pass
        try:
            v = create_test_task(lib.Src, parameters={'n': 2, 'noise': None}, base_dir=E.dir()).parameters['noise']
            if v is not None:
                E.viol('C19', 'explicit_none', f'a parameter passed explicitly as None arrives as {v!r}', 'noise=None')
        except Exception as e:
            E.viol('C19', 'explicit_none', f'a parameter passed explicitly as None: {type(e).__name__}: {e}', 'noise=None')
        for bad_kwargs, what in ((dict(tasks=[lib.Dbl], parameters={}), 'missing input'), (dict(tasks=[lib.Src], parameters={}), 'missing required parameter')):
            try:
                TestChain(base_dir=E.dir(), **bad_kwargs)
                E.viol('C19', 'early_error', f'{what} was not reported when the helper was constructed', what)
            except Exception:
                pass
    # parameter objects that reach into the chain
    from taskchain.chain import ChainObject
    from taskchain.parameter import ParameterObject
    from taskchain import Task, Parameter

    class Reach(ParameterObject, ChainObject):
        def __init__(self):
            self.chain = None

        def repr(self):
            return 'Reach()'

        def init_chain(self, chain):
            self.chain = chain

    class UsesReach(Task):
        class Meta:
            parameters = [Parameter('reach')]

        def run(self, reach) -> int:
            return 15 if reach.chain is not None else 5
    E.tried += 1
    with quiet():
        real = Config(E.dir(), name='r', data={'tasks': [UsesReach], 'reach': Reach()}).chain()['uses_reach'].value
        test = create_test_task(UsesReach, parameters={'reach': Reach()}, base_dir=E.dir()).value
    if real != test:
        E.viol('C19', 'chain_objects', f'a parameter object that reaches into the chain: real chain {real}, test helper {test}', 'ChainObject')


def s_migration(E, tier):
    """C20: migration to parameter mode carries over exactly the computed results, unchanged, and runs nothing"""
    from taskchain import Config
    from taskchain.utils.migration import migrate_to_parameter_mode
    from contracts.pipelines import lib

    def tree(root):
        out = {}
        for dp, dn, fn in os.walk(root):
            for f in fn:
                p = os.path.join(dp, f)
                out[os.path.relpath(p, root)] = hashlib.sha256(open(p, 'rb').read()).hexdigest()
        return out

    def dirs(root):
        return {os.path.relpath(os.path.join(dp, x), root) for dp, dn, fn in os.walk(root) for x in dn}
    for computed in (['report'], ['data:dbl'], [], ['model:agg:total', 'gen', 'tree']):
        for nsmode in (False, True, 'same'):
            d = E.dir()
            inner = E.write(d, 'c' if nsmode else 'exp.v1', {'tasks': TASKS + [f'{LIB}.Gen', f'{LIB}.Tree'], 'n': 3})     # a dotted config name in the plain variant
            if nsmode == 'same':
                # the SAME pipeline mounted twice: in parameter mode both mounts are one computation (shared task objects)
                f = E.write(d, 'top', {'uses': [f'{inner} as train', f'{inner} as test']})
            else:
                f = E.write(d, 'top', {'uses': [f'{inner} as train', f'{E.write(d, "c2", {"tasks": TASKS + [f"{LIB}.Gen", f"{LIB}.Tree"], "n": 2})} as test']}) if nsmode else inner
            src, dst = d / 'old', d / 'new'
            E.tried += 1
            try:
                with quiet():
                    old = Config(src, f).chain(parameter_mode=False)
                    pref = ['train::', 'test::'] if nsmode else ['']
                    for p_ in pref:
                        for c in computed:
                            _ = old[p_ + c].value
                    # leftovers of an earlier failed run of a directory task belong to the source store too
                    leftover = src / 'tree' / f'{Path(f).stem}_error'
                    if not nsmode:
                        leftover.mkdir(parents=True, exist_ok=True)
                        (leftover / 'row_0.txt').write_text('partial')
                    dirs0 = dirs(src)           # before anything inspects the store
                    files0 = tree(src)
                    cfgo = Config(src, f)
                    migrate_to_parameter_mode(cfgo, dst, dry=True, verbose=bool(E.r.getrandbits(1)))
                    if tree(src) != files0:
                        E.viol('C20', 'source_files', f'a dry migration changed files of the source directory: {sorted(set(files0) ^ set(tree(src)))[:3]}', computed,
                               key='dry-run-source-files')
                    if tree(dst):
                        E.viol('C20', 'dry', f'a dry migration wrote {sorted(tree(dst))[:3]}', computed)
                    if dirs(src) != dirs0:
                        E.viol('C20', 'source_dirs', f'a dry migration created directories in the SOURCE directory: {sorted(dirs(src) - dirs0)[:4]}', computed,
                               key='work-directories-created-by-inspection')
                    had = {n: t.has_data for n, t in old.tasks.items() if t.data_path is not None}
                    vals = {n: old[n].value for n in had if had[n] and not n.endswith('tree')}
                    before = tree(src)
                    migrate_to_parameter_mode(Config(src, f), dst, dry=False, verbose=False)
                    after_first = tree(dst)
                    migrate_to_parameter_mode(Config(src, f), dst, dry=False, verbose=False)
                    if tree(dst) != after_first:
                        E.viol('C20', 'idempotent', 'a second migration changed the target', computed)
                    if tree(src) != before:
                        E.viol('C20', 'source_files', 'the migration changed files of the source directory', computed)
                    lib.RUNS.clear()
                    new = Config(dst, f).chain()
                    for n, h in had.items():
                        if new[n].has_data != h:
                            E.viol('C20', 'exactly', f'{n}: had a result before migration = {h}, has one after = {new[n].has_data}', (computed, nsmode))
                    for n, v in vals.items():
                        if new[n].value != v:
                            E.viol('C20', 'values', f'{n}: migrated value {new[n].value!r} != original {v!r}', (computed, nsmode))
                    if lib.RUNS:
                        E.viol('C20', 'runs_nothing', f'loading migrated results ran {lib.RUNS}', (computed, nsmode))
            except Exception as e:
                E.viol('C20', 'migrates', f'migration of a pipeline failed with {type(e).__name__}: {e}', (computed, nsmode), key=f'{type(e).__name__}-{nsmode}')


def s_run_records(E, tier):
    """C18: run info and log describe the latest run only"""
    from taskchain import Config, Task, Parameter
    from contracts.pipelines import lib
    state = {'fail': False, 'n': 0}

    class Logs(Task):
        class Meta:
            input_tasks = [lib.Src]
            parameters = [Parameter('label', default='L')]

        def run(self, src, label) -> list:
            state['n'] += 1
            self.logger.info(f'run {state["n"]} start')
            self.save_to_run_info({'run': state['n']})
            if state['fail']:
                raise RuntimeError('boom')
            self.logger.info(f'run {state["n"]} end')
            return src
    d = E.dir()
    E.tried += 1
    with quiet(keep_logging=True):
        conf = Config(d / 'data', name='c', data={'tasks': [lib.Src, Logs], 'n': 2})
        ch = conf.chain()
        t = ch['logs']
        _ = t.value
        info = t.run_info
        if info['task']['name'] != 'logs' or info['parameters'] != {'label': "'L'"} or [r_['run'] for r_ in info['log']] != [1] \
                or list(info['input_tasks']) != ['data:src'] or info['input_tasks']['data:src'] != ch['data:src'].name_for_persistence \
                or not info['config']['name'].startswith('c'):
            E.viol('C18', 'run_info', f'run info after the first run: {info}', 'first run')
        if not any('run 1 start' in l for l in t.log) or not any('run 1 end' in l for l in t.log):
            E.viol('C18', 'log', f'log after the first run: {t.log}', 'first run')
        # failure, then retry in the same process, then a forced recomputation
        state['fail'] = True
        ch.force('logs')
        try:
            _ = t.value
        except RuntimeError:
            pass
        state['fail'] = False
        _ = t.value
        info = t.run_info
        if [r_['run'] for r_ in info['log']] != [3]:
            E.viol('C18', 'latest_only', f'run info after a failed run and a retry lists records {info["log"]}', 'fail, retry')
        bad = [l for l in t.log if 'run 1' in l or 'run 2' in l]
        if bad or sum('run 3 start' in l for l in t.log) != 1:
            E.viol('C18', 'latest_only', f'the log after a retry contains lines of other runs / duplicates: {t.log}', 'fail, retry')
        ch.force('logs')
        _ = t.value
        if [r_['run'] for r_ in t.run_info['log']] != [4] or any('run 3' in l for l in t.log):
            E.viol('C18', 'latest_only', 'after a forced recomputation the records still describe an earlier run', 'force')
    # the storage key of every input task, also for inputs of the same name from two namespaces
    d = E.dir()
    E.write(d, 'inner', {'tasks': [f'{LIB}.Src'], 'n': 1})

    class Both(Task):
        class Meta:
            input_tasks = ['train::data:src', 'valid::data:src']

        def run(self) -> int:
            return 1
    E.tried += 1
    with quiet():
        top = Config(d / 'data', name='top', data={'uses': [f'{d}/inner.json as train', f'{d}/inner.json as valid'], 'tasks': [Both]})
        try:
            ch = top.chain()
            _ = ch['both'].value
            it = ch['both'].run_info['input_tasks']
            if sorted(it) != ['train::data:src', 'valid::data:src']:
                E.viol('C18', 'input_keys', f'run info lists input tasks {sorted(it)}', 'same task from two namespaces')
        except Exception as e:
            pass



def _json_text(v):
    return json.dumps(v, sort_keys=True)


def _strings_in(v):
    if isinstance(v, str):
        yield v
    elif isinstance(v, list):
        for x in v:
            yield from _strings_in(x)
    elif isinstance(v, dict):
        for k, x in v.items():
            yield k
            yield from _strings_in(x)


def s_injective(E, tier):
    """C03: two JSON-like values that differ (as JSON documents) get different persisted texts and different locations -
    searched over a grammar of adversarial values (quotes, separators, brackets inside strings; nesting; look-alike types)"""
    from taskchain import Config
    from taskchain.utils.clazz import repr_from_instantiation
    r = E.r
    atoms = [None, True, False, 0, 1, 2, 1.5, '', 'a', 'b', 'a, b', "a', 'b", "'", "a'", "'a", 'None', 'True', '1', '[]', "['a']", '{}', "a': 1, 'b", ': ', 'a: 1']

    def gen(depth):
        x = r.random()
        if depth == 0 or x < 0.45:
            return r.choice(atoms)
        if x < 0.75:
            return [gen(depth - 1) for _ in range(r.choice([0, 1, 2, 2, 3]))]
        return {r.choice(['a', 'b', "a'", "a': 1, 'b", 'k']): gen(depth - 1) for _ in range(r.choice([1, 2]))}
    def confusable(v):
        """values built to look like v once strings are quoted without escaping"""
        if isinstance(v, list):
            for i in range(len(v) - 1):
                if isinstance(v[i], str) and isinstance(v[i + 1], str):
                    yield v[:i] + [f"{v[i]}', '{v[i + 1]}"] + v[i + 2:]
            for i, x in enumerate(v):
                for y in confusable(x):
                    yield v[:i] + [y] + v[i + 1:]
        elif isinstance(v, dict):
            ks = sorted(v)
            for a, b in zip(ks, ks[1:]):
                if isinstance(v[a], (int, float)) and not isinstance(v[a], bool) or v[a] is None:
                    w = {k: x for k, x in v.items() if k not in (a, b)}
                    w[f"{a}': {v[a]!r}, '{b}"] = v[b]
                    yield w
            for k, x in v.items():
                for y in confusable(x):
                    yield {**v, k: y}
    vals, seen = [], set()
    for _ in range(400 if tier == 'quick' else 4000):
        v = gen(2)
        for w in [v] + list(confusable(v))[:3]:
            jt = _json_text(w)
            if jt not in seen:
                seen.add(jt)
                vals.append(w)
    by_text = {}
    for v in vals:
        by_text.setdefault(repr_from_instantiation(v), []).append(v)
    E.tried += len(vals)
    reported = set()
    checked_on_chain = 0
    for text, group in by_text.items():
        if len(group) < 2:
            continue
        v1, v2 = group[0], group[1]
        quote = any("'" in s_ for v in (v1, v2) for s_ in _strings_in(v))
        key = 'unescaped-quote-in-string' if quote else 'other-collision'
        if key in reported and checked_on_chain >= 2:
            continue
        # confirm on the real chain: same location for the task that declares the parameter
        same_loc = None
        if checked_on_chain < 4:
            checked_on_chain += 1
            d = E.dir()
            with quiet():
                p1 = rel_paths(Config(d / 'data', E.write(d, 'c1', cfg(n=1, tags=v1))).chain(), d / 'data')
                p2 = rel_paths(Config(d / 'data', E.write(d, 'c2', cfg(n=1, tags=v2))).chain(), d / 'data')
            same_loc = p1['model:agg:total'] == p2['model:agg:total']
            if not same_loc:
                continue
        if key not in reported:
            reported.add(key)
            E.viol('C03', 'injective', f'the values {v1!r} and {v2!r} differ but have the same persisted text {text!r}' +
                   (' and the same storage location' if same_loc else '') +
                   (' (strings are quoted without escaping the quote character)' if quote else ''), (v1, v2), key=key)
    # parameter objects: classes of the same name in different modules have the same text
    d = E.dir()
    E.tried += 1
    wdef = lambda mod: {'class': f'{mod}.Weights', 'kwargs': {'scale': 1}}
    with quiet():
        c1 = Config(d / 'data', E.write(d, 'w1', cfg(n=3, w=wdef(LIB)))).chain()
        c2 = Config(d / 'data', E.write(d, 'w2', cfg(n=3, w=wdef('contracts.pipelines.other.lib')))).chain()
        p1, p2 = rel_paths(c1, d / 'data'), rel_paths(c2, d / 'data')
        differ = c1['mem'].value != c2['mem'].value
    if p1['report'] == p2['report'] and differ:
        E.viol('C03', 'injective', 'parameter objects of two different classes with the same class name (different modules) have the same '
               f'persisted text and give report the same location {p1["report"]} although they compute different values',
               ('contracts.pipelines.lib.Weights', 'contracts.pipelines.other.lib.Weights'), key='same-class-name')


_SEED_PROBE = r"""
import sys, json, logging
sys.path.insert(0, {verif!r})
logging.disable(logging.CRITICAL)
from pathlib import Path
from taskchain import Config
import io, contextlib
out = {{}}
with contextlib.redirect_stdout(io.StringIO()), contextlib.redirect_stderr(io.StringIO()):
    for name, f in {files!r}.items():
        ch = Config(Path({data!r}), f).chain()
        out[name] = {{n: (None if t.data_path is None else str(Path(t.data_path).relative_to({data!r}))) for n, t in ch.tasks.items()}}
print(json.dumps(out))
"""


def s_process_independent(E, tier):
    """C02: the location does not depend on the process that builds the chain: fresh interpreters under different PYTHONHASHSEED"""
    import subprocess
    import sys
    d = E.dir()
    verif = os.path.dirname(os.path.dirname(os.path.abspath(__file__)))
    files = {
        'json_like': str(E.write(d, 'plain', cfg(n=2, tags={'k': ['x', 'y', {'z': None}], 'a': 'b', 'c': 1.5}, title='t'))),
        'set_object': str(E.write(d, 'setobj', {'tasks': [f'{LIB}.Loc'], 'ts': {'class': f'{LIB}.TagSet', 'kwargs': {'tags': ['alpha', 'beta', 'gamma', 'delta']}}})),
    }
    code = _SEED_PROBE.format(verif=verif, files=files, data=str(d / 'data'))
    outs = {}
    for hs in (['1', '2', '3'] if tier == 'quick' else [str(i) for i in range(1, 9)]):
        env = dict(os.environ, PYTHONHASHSEED=hs)
        r = subprocess.run([sys.executable, '-c', code], capture_output=True, text=True, env=env, timeout=120)
        E.tried += 1
        if r.returncode != 0:
            E.viol('C02', 'process', f'probe interpreter failed under PYTHONHASHSEED={hs}: {r.stderr.strip()[-200:]}', hs)
            return
        outs[hs] = json.loads(r.stdout.strip().splitlines()[-1])
    first = next(iter(outs.values()))
    for hs, o in outs.items():
        if o['json_like'] != first['json_like']:
            E.viol('C02', 'process', f'JSON-like parameters: locations differ between interpreters (PYTHONHASHSEED={hs}): {o["json_like"]} vs {first["json_like"]}', hs, key='json-like')
    locs = {o['set_object'][next(iter(o['set_object']))] for o in outs.values()}
    if len(locs) > 1:
        E.viol('C02', 'process', 'a parameter object holding a set of strings (AutoParameterObject attribute) is rendered with repr(set): its text, and the '
               f'storage location of the task, changes with PYTHONHASHSEED: {sorted(locs)}', sorted(locs), key='set-valued-attribute')


def s_default_not_persisted(E, tier):
    """C02: a parameter equal to its declared default (dont_persist_default_value) does not move the task"""
    from taskchain import Config
    d = E.dir()
    E.tried += 2
    with quiet():
        a = rel_paths(Config(d / 'data', E.write(d, 'a', {'tasks': [f'{LIB}.Loc']})).chain(), d / 'data')
        b = rel_paths(Config(d / 'data', E.write(d, 'b', {'tasks': [f'{LIB}.Loc'], 'p': '/x'})).chain(), d / 'data')
        c = rel_paths(Config(d / 'data', E.write(d, 'c', cfg(n=1))).chain(), d / 'data')
        c2 = rel_paths(Config(d / 'data', E.write(d, 'c2', cfg(n=1, noise=0, factor=2, total_offset=0, title='t'))).chain(), d / 'data')
    if a != b:
        E.viol('C02', 'default', f"Parameter('p', dtype=Path, default='/x', dont_persist_default_value=True): the config value '/x' becomes Path('/x'), "
               f"which is != the str default, so the parameter is persisted although it has its default value: {a} vs {b}", ('/x',), key='path-dtype-str-default')
    if c['data:src'] != c2['data:src']:
        E.viol('C02', 'default', f'spelling out a dont-persist default moved data:src: {c["data:src"]} vs {c2["data:src"]}', 'noise=0', key='plain-default')


# =================================================================================================
# adversarial naming: namespaces, task names, config names and patterns that are textual prefixes of each other
# =================================================================================================
def s_ns_prefix(E, tier):
    """C01 / C09: values given for one namespace reach exactly that namespace - also when another namespace's name starts with it"""
    from taskchain import Config
    d = E.dir()
    for names in (('m', 'm2'), ('m2', 'm'), ('ab', 'a'), ('a', 'a::b')):
        for ctx_order in (0, 1):
            E.tried += 1
            fvals = {'x': 1, 'y': 2}
            per_ns = {names[0]: {'x': 11}} if ctx_order == 0 else {names[1]: {'y': 7}, names[0]: {'x': 11}}
            mounts = []
            for n in names:
                if '::' in n:
                    outer, inner_ = n.split('::')
                    mounts.append((outer, inner_))
                else:
                    mounts.append((n, None))
            with quiet():
                try:
                    # build through files: one part mounted under every name
                    fpart = E.write(d, f'part{E.n}', {'tasks': [f'{LIB}.NsScore'], **fvals})
                    uses = []
                    for outer, inner_ in mounts:
                        if inner_ is None:
                            uses.append(f'{fpart} as {outer}')
                        else:
                            mid = E.write(d, f'mid{E.n}_{outer}_{inner_}', {'uses': f'{fpart} as {inner_}'})
                            uses.append(f'{mid} as {outer}')
                    ftop = E.write(d, f'top{E.n}_{ctx_order}', {'uses': uses})
                    ch = Config(d / f'data{E.n}_{ctx_order}', ftop, context={'for_namespaces': per_ns}).chain()
                    for n in names:
                        want = dict(fvals)
                        want.update(per_ns.get(n, {}))
                        got = ch[f'{n}::ns_score'].value
                        if got != 1000 * want['x'] + want['y']:
                            E.viol('C09', 'namespace_exact', f'namespaces {names}, context for_namespaces={per_ns}: task {n}::ns_score computed {got}, '
                                   f'its own namespace gives x={want["x"]} y={want["y"]}', (names, per_ns), key='prefix-namespace')
                            E.viol('C01', 'value', f'namespaces {names}, context for_namespaces={per_ns}: {n}::ns_score = {got}, reference {1000 * want["x"] + want["y"]}',
                                   (names, per_ns), key='prefix-namespace')
                except Exception as e:
                    E.viol('C09', 'namespace_exact', f'namespaces {names}: chain construction failed with {type(e).__name__}: {e}', names, key='prefix-namespace-error')


def s_lazy_inputs(E, tier):
    """C04: an input task that is declared but not a run argument is not computed unless the task pulls it"""
    from taskchain import Config, Task, Parameter
    runs = []

    class RawDump(Task):
        def run(self) -> list:
            runs.append('raw_dump')
            return [1, 2, 3]

    class FullScan(Task):
        class Meta:
            input_tasks = [RawDump]

        def run(self, raw_dump) -> int:
            runs.append('full_scan')
            return sum(raw_dump)

    class Summary(Task):
        def run(self) -> int:
            runs.append('summary')
            return 5

    class LazyReport(Task):
        class Meta:
            input_tasks = [Summary, FullScan]
            parameters = [Parameter('detailed')]

        def run(self, summary, detailed) -> dict:
            runs.append('lazy_report')
            return {'s': summary, 'full': self.input_tasks['full_scan'].value if detailed else None}
    for detailed in (False, True):
        d = E.dir()
        E.tried += 1
        runs.clear()
        with quiet():
            ch = Config(d / 'data', name='c', data={'tasks': [RawDump, FullScan, Summary, LazyReport], 'detailed': detailed}).chain()
            v = ch['lazy_report'].value
        want = ['summary', 'lazy_report'] + (['raw_dump', 'full_scan'] if detailed else [])
        if sorted(runs) != sorted(want):
            E.viol('C04', 'only_needed', f'detailed={detailed}: requesting lazy_report ran {runs}; only {want} are needed '
                   '(full_scan is declared as an input but is pulled by the task only when detailed)', detailed, key='undeclared-run-argument')
        if v != {'s': 5, 'full': 6 if detailed else None}:
            E.viol('C04', 'only_needed', f'detailed={detailed}: value {v!r}', detailed, key='lazy-value')


def s_delete_exact(E, tier):
    """C07: force(delete_data=True) removes the stored results of exactly the forced closure - nothing of another config
    in the same directory, whatever the configs are called (name mode stores results under the config name)"""
    from taskchain import Config, Chain, Task, Parameter

    class DSrc(Task):
        class Meta:
            parameters = [Parameter('size')]

        def run(self, size) -> int:
            return size

    class DOut(Task):
        class Meta:
            input_tasks = [DSrc]

        def run(self, d_src) -> int:
            return d_src + 1

    def files(root):
        return {os.path.relpath(os.path.join(dp, f), root) for dp, dn, fn in os.walk(root) for f in fn}
    for pmode in (False, True):
        for names in (('exp', 'exp.big'), ('exp.big', 'exp'), ('run', 'run_2'), ('a.b', 'a')):
            d = E.dir()
            E.tried += 1
            with quiet():
                mk = lambda: [Chain(Config(d, name=n, data={'tasks': [DSrc, DOut], 'size': i + 1}), parameter_mode=pmode) for i, n in enumerate(names)]
                first, second = mk()
                _ = first['d_out'].value, second['d_out'].value
                first, second = mk()
                other_files = {str(Path(t.data_path).relative_to(d)) for t in second.tasks.values()}
                own_files = {str(Path(t.data_path).relative_to(d)) for t in first.tasks.values()}
                before = files(d)
                first.force('d_src', delete_data=True)
                after = files(d)
            gone = before - after
            result_files_gone = {f for f in gone if f in other_files}
            if result_files_gone:
                E.viol('C07', 'delete_exact', f'configs {names} (parameter_mode={pmode}) share a directory: forcing d_src of `{names[0]}` with delete_data '
                       f'also deleted results of `{names[1]}`: {sorted(result_files_gone)}', (names, pmode), key='other-config-result-deleted')
            if not (own_files - other_files) <= gone:
                E.viol('C07', 'delete_exact', f'configs {names} (parameter_mode={pmode}): results of the forced closure were not deleted: '
                       f'{sorted((own_files - other_files) - gone)}', (names, pmode), key='closure-result-kept')


def s_pattern_exact(E, tier):
    """C08: a pattern input binds exactly the tasks whose whole local name matches, inside the declaring task's namespace"""
    from taskchain import Config, Task

    class SplitTrain(Task):
        def run(self) -> list:
            return [1]

    class SplitTest(Task):
        def run(self) -> list:
            return [2]

    class SplitTestStats(Task):
        class Meta:
            input_tasks = [SplitTest]

        def run(self, split_test) -> int:
            return len(split_test)

    class XSplitTrain(Task):
        def run(self) -> list:
            return [9]

    class Merged(Task):
        class Meta:
            input_tasks = ['~split_(train|test)']

        def run(self) -> list:
            return sorted(self.input_tasks.keys())
    for pmode in (True, False):
        d = E.dir()
        E.tried += 1
        with quiet():
            try:
                ch = Config(d / 'data', name='c', data={'tasks': [SplitTrain, SplitTest, SplitTestStats, XSplitTrain, Merged]}).chain(parameter_mode=pmode)
                got = sorted(ch['merged'].input_tasks.keys())
                req = sorted(t.fullname for t in ch.required_tasks('merged'))
            except Exception as e:
                E.viol('C08', 'pattern_exact', f'chain with a pattern input failed: {type(e).__name__}: {e}', pmode, key='pattern-error')
                continue
        if got != ['split_test', 'split_train']:
            E.viol('C08', 'pattern_exact', f"input '~split_(train|test)' bound {got}; exactly split_test and split_train match the whole pattern "
                   '(split_test_stats only starts with a match, x_split_train only ends with one)', got, key='pattern-not-anchored')
        if req != ['split_test', 'split_train']:
            E.viol('C08', 'pattern_exact', f'required_tasks(merged) = {req}', req, key='pattern-closure')


def s_ctx_uses_string(E, tier):
    """C11: placeholders are replaced in `uses` of contexts too - written as a list or as a single string, at top level or
    inside a namespaced context"""
    from taskchain import Config
    for form in ('list', 'string'):
        for nested in (True, False):
            d = E.dir()
            E.tried += 1
            inner = E.write(d, 'context_inner', {'x': 3})
            use = '{DIR}/context_inner.json as inner'
            E.write(d, 'context_ns', {'x': 4, 'uses': [use] if form == 'list' else use})
            top = E.write(d, 'context', {'uses': ['{DIR}/context_ns.json as ns']}) if nested else E.write(d, 'context', {'x': 4, 'uses': [use] if form == 'list' else use})
            ns = 'ns::inner' if nested else 'inner'
            with quiet():
                try:
                    c = Config(d, data={'x': 0}, name='config', namespace=ns, context=top, global_vars={'DIR': str(d)})
                    got = c['x']
                except Exception as e:
                    got = f'{type(e).__name__}: {e}'
            if got != 3:
                E.viol('C11', 'context_uses', f'context `uses` given as a {form} ({"inside a namespaced context" if nested else "top level"}) with a placeholder: '
                       f'config in namespace {ns} sees x = {got!r}, the used context gives 3', (form, nested), key=f'uses-{form}-{"nested" if nested else "top"}')


def s_log_isolation(E, tier):
    """C18: the log of a task holds the messages of its own run only - also when another task's name starts with its name"""
    import logging as _logging
    from taskchain import Config, Task, Parameter

    class Raw(Task):
        class Meta:
            task_group = 'features'
            parameters = [Parameter('n')]

        def run(self, n) -> list:
            self.logger.info(f'raw: generating {n} rows')
            return list(range(n))

    class Clean(Task):
        class Meta:
            task_group = 'features'
            input_tasks = [Raw]

        def run(self, raw) -> list:
            self.logger.info(f'clean: got {len(raw)} rows')
            return raw[1:]

    class Features(Task):
        class Meta:
            input_tasks = [Raw, Clean]

        def run(self, raw, clean) -> dict:
            self.logger.info(f'features: combining {len(raw)} and {len(clean)}')
            return {'raw': len(raw), 'clean': len(clean)}
    d = E.dir()
    E.tried += 1
    with quiet(keep_logging=True):
        ch = Config(d / 'data', name='cfg', data={'tasks': [Raw, Clean, Features], 'n': 5}).chain()
        _ = ch['features'].value
        logs = {n: list(ch[n].log or []) for n in ('features:raw', 'features:clean', 'features')}
    own = {'features:raw': ['raw: generating 5 rows'], 'features:clean': ['clean: got 5 rows'], 'features': ['features: combining 5 and 4']}
    for n, rows in logs.items():
        foreign = [r for r in rows if any(m in r for k, ms in own.items() if k != n for m in ms)]
        missing = [m for m in own[n] if not any(m in r for r in rows)]
        if foreign or missing:
            E.viol('C18', 'log_own_run', f'log of {n}: ' + (f'holds messages of other tasks {foreign[:3]}' if foreign else f'misses its own messages {missing}'),
                   n, key='foreign-messages' if foreign else 'own-messages-missing')


def s_name_access(E, tier):
    """C10: every way of naming a task on a chain (`in`, [], attribute, get_task, graph queries by name) agrees with the one
    resolution rule: unique match, or the less-nested form of all matches, else not found"""
    from taskchain import Config, Task
    from contracts import names as N

    def mk(name, group=None):
        meta = {'name': name}
        if group:
            meta['task_group'] = group

        class T(Task):
            Meta = type('Meta', (), meta)

            def run(self) -> str:
                return self.fullname
        T.__name__ = f'T_{group}_{name}'.replace(':', '_')
        return T
    A, GA, NA, B = mk('a'), mk('a', 'g'), mk('a', 'n'), mk('b', 'g')
    layouts = [
        {None: [GA]}, {'n': [A], 'x::n': [A]}, {'n': [A], 'x': [NA]}, {None: [GA], 'g': [A]}, {'n': [GA, B]}, {'x::n': [A]},
        {None: [A], 'n': [A]}, {'n': [GA], 'm': [GA]},
    ]
    for lay in layouts:
        d = E.dir()
        E.tried += 1
        with quiet():
            try:
                uses = []
                top = {'tasks': lay.get(None, [])}
                cfgs = []
                for ns, classes in lay.items():
                    if ns is None:
                        continue
                    cfgs.append(Config(d / 'data', name=f'c_{ns.replace("::", "_")}', namespace=ns, data={'tasks': classes}))
                top['uses'] = cfgs
                ch = Config(d / 'data', name='top', data=top).chain()
            except Exception as e:
                E.viol('C10', 'access', f'layout {lay}: chain construction failed: {type(e).__name__}: {e}', str(lay), key='layout-error')
                continue
        full = list(ch.tasks.keys())
        queries = set(full)
        for f in full:
            ns = f.split('::')[:-1]
            local = f.split('::')[-1]
            nm = local.split(':')[-1]
            queries |= {local, nm, '::'.join(ns + [nm]), '::'.join(ns[-1:] + [nm]), '::'.join(ns[-1:] + [local])}
        queries |= {'zzz', 'n::zzz'}
        for q in sorted(queries):
            M = [t for t in full if N.name_matches(q, t, True)]
            best = [c for c in M if all(N.less_nested(c, t) for t in M)]
            want = M[0] if len(M) == 1 else (best[0] if len(M) > 1 and best else None)
            try:
                got = ch[q].fullname if ch[q] is not None else None
                got_name = [k for k, t in ch.tasks.items() if t is ch[q]]
                got = got_name[0] if got_name and want not in got_name else (want if got_name else None)
            except Exception:
                got = None
            if got != want:
                E.viol('C10', 'access', f'tasks {full}: chain[{q!r}] gives {got}, the resolution rule gives {want}', (full, q), key='getitem')
            inn = q in ch
            if inn != (want is not None):
                E.viol('C10', 'access', f'tasks {full}: ({q!r} in chain) is {inn} but chain[{q!r}] ' + ('resolves to ' + want if want else 'does not resolve'), (full, q), key='contains')
            try:
                gt = ch.get_task(q)
                gt_ok = True
            except Exception:
                gt_ok = False
            if gt_ok != (want is not None):
                E.viol('C10', 'access', f'tasks {full}: get_task({q!r}) ' + ('succeeds' if gt_ok else 'fails') + ' but the name ' + ('resolves to ' + want if want else 'does not resolve'),
                       (full, q), key='get_task')


def s_query_history(E, tier):
    """C08: required_tasks / dependent_tasks are the closures of the declared relation whatever was asked before"""
    from taskchain import Config
    from contracts.pipelines import lib
    down = {'data:src': NAMES[1:], 'data:dbl': NAMES[2:], 'model:agg:total': NAMES[3:], 'mem': NAMES[4:], 'report': []}
    up = {n: [m for m in NAMES if n in down[m]] for n in NAMES}
    d = E.dir()
    with quiet():
        ch = Config(d / 'data', E.write(d, 'c', cfg(n=2))).chain()
        for rnd in range(3):
            order = list(NAMES)
            E.r.shuffle(order)
            for n in order:
                E.tried += 1
                for inc in (E.r.random() < 0.5, False, True, False):
                    got = sorted(t.fullname for t in ch.dependent_tasks(n, include_self=inc))
                    want = sorted(down[n] + ([n] if inc else []))
                    if got != want:
                        E.viol('C08', 'closure_stable', f'dependent_tasks({n!r}, include_self={inc}) = {got}, declared closure {want} (after earlier queries)', (n, inc), key='dependent-history')
                    got = sorted(t.fullname for t in ch.required_tasks(n, include_self=inc))
                    want = sorted(up[n] + ([n] if inc else []))
                    if got != want:
                        E.viol('C08', 'closure_stable', f'required_tasks({n!r}, include_self={inc}) = {got}, declared closure {want} (after earlier queries)', (n, inc), key='required-history')
            if rnd == 0:
                ch.force('data:dbl')


def s_no_shared_values(E, tier):
    """C09: configs built from one context share no mutable values with it or with each other"""
    import copy
    from taskchain import Config
    d = E.dir()
    E.tried += 1
    inner = E.write(d, 'inner', {'tasks': TASKS, 'n': 1, 'tags': ['file']})
    top = E.write(d, 'top', {'uses': [f'{inner} as a', f'{inner} as b']})
    ctx = {'tags': ['global', {'k': [1]}], 'for_namespaces': {'a': {'tags': ['for-a', {'k': [1]}]}, 'b': {'total_offset': 5}}}
    ctx0 = copy.deepcopy(ctx)
    with quiet():
        c1 = Config(d / 'data', top, context=ctx, global_vars={'X': 'one'})
        ch1 = c1.chain()
        ta = ch1['a::model:agg:total'].params.tags if hasattr(ch1['a::model:agg:total'].params, 'tags') else ch1['a::model:agg:total'].params['tags']
        tb = ch1['b::model:agg:total'].params['tags']
    if ctx != ctx0:
        E.viol('C09', 'no_sharing', f'building a config changed the caller\'s context dict: {ctx} (was {ctx0})', 'ctx', key='caller-context-mutated')
    with quiet():
        try:
            ta.append('MUTATED')
            ta[1]['k'].append(99)
        except Exception:
            pass
        c2 = Config(d / 'data2', top, context=ctx, global_vars={'X': 'two'})
        ch2 = c2.chain()
        ta2 = ch2['a::model:agg:total'].params['tags']
        tb2 = ch2['b::model:agg:total'].params['tags']
    if ctx != ctx0:
        E.viol('C09', 'no_sharing', f'changing a value seen by a task changed the caller\'s context dict: {ctx["for_namespaces"]["a"]}', 'ctx', key='task-value-aliases-context')
    if ta2 != ['for-a', {'k': [1]}]:
        E.viol('C09', 'no_sharing', f'a second config tree built from the same context sees {ta2!r} for a::tags (the first tree\'s task value was changed in place)', 'second', key='second-tree-sees-mutation')
    if tb2 != ['global', {'k': [1]}] or tb != ['global', {'k': [1]}]:
        E.viol('C09', 'no_sharing', f'b::tags = {tb!r} / {tb2!r}; the global context entry is [\'global\', {{\'k\': [1]}}]', 'b', key='other-namespace-affected')
    # round 7: a LIST of contexts naming the same namespace: merging them leaves each caller-owned context as it was, in either order,
    # and a config built afterwards from one of them alone sees that context's values only
    def seen(chain_):
        p_ = chain_['a::model:agg:total'].params
        return {'offset': p_['offset'], 'tags': p_['tags']}
    for order in ((0, 1), (1, 0)):
        E.tried += 1
        ctxs = [{'for_namespaces': {'a': {'total_offset': 1, 'tags': ['from-A']}}}, {'for_namespaces': {'a': {'total_offset': 5}}}]
        ctxs0 = copy.deepcopy(ctxs)
        lst = [ctxs[order[0]], ctxs[order[1]]]
        with quiet():
            try:
                merged = seen(Config(d / f'data_m{order[0]}', top, context=lst).chain())
                alone = [seen(Config(d / f'data_m{order[0]}_{i}', top, context=ctxs[i]).chain()) for i in (0, 1)]
            except Exception as e:
                merged, alone = f'{type(e).__name__}: {e}', None
        want_merged = {'offset': ctxs0[order[1]]['for_namespaces']['a']['total_offset'], 'tags': ['from-A']}
        want_alone = [{'offset': 1, 'tags': ['from-A']}, {'offset': 5, 'tags': ['file']}]
        if ctxs != ctxs0:
            E.viol('C09', 'no_sharing', f'building a config from a list of contexts changed a caller-owned context: {ctxs} (was {ctxs0})', order, key='merge-mutates-context')
        if merged != want_merged:
            E.viol('C09', 'no_sharing', f'contexts {[ctxs0[i] for i in order]} (later over earlier) give a:: parameters {merged}, expected {want_merged}', order, key='merge-precedence')
        if alone is not None and alone != want_alone:
            E.viol('C09', 'no_sharing', f'after the merged build, configs built from each context alone see {alone}; each context alone gives {want_alone}', order, key='merge-leaks-into-context')


def s_none_param(E, tier):
    """C01 / C09: a parameter given explicitly as None is None for the task - not its default - on first computation and
    from the store"""
    from taskchain import Config
    from contracts.pipelines import lib
    for title in (None, 'other'):
        d = E.dir()
        E.tried += 1
        params = {'n': 2, 'title': title}
        f = E.write(d, 'c', cfg(**params))
        with quiet():
            v1 = Config(d / 'data', f).chain()['report'].value
            v0 = Config(d / 'data', E.write(d, 'dflt', cfg(n=2))).chain()['report'].value
            v2 = Config(d / 'data', f).chain()['report'].value
        ref = lib.reference(params)['report']
        for label, v in (('computed', v1), ('after the default-valued config used the same store', v2)):
            if v != ref:
                E.viol('C01', 'value', f'title={title!r} ({label}): report = {v!r}, reference {ref!r}', params, key='explicit-none')
        if v0 != lib.reference({'n': 2})['report']:
            E.viol('C01', 'value', f'default title: report = {v0!r}', 'default', key='explicit-none-default')


def s_same_location_more(E, tier):
    """C02: mappings with non-string keys in any order; tasks without parameters and inputs under any config name"""
    from taskchain import Config
    d = E.dir()
    E.tried += 2
    with quiet():
        a = rel_paths(Config(d / 'data', E.write(d, 'a', cfg(n=1, tags={10: 'low', 20: 'mid', 5: {2: 'x', 1: 'y'}}), ext='yaml')).chain(), d / 'data')
        b = rel_paths(Config(d / 'data', E.write(d, 'b', cfg(n=1, tags={20: 'mid', 5: {1: 'y', 2: 'x'}, 10: 'low'}), ext='yaml')).chain(), d / 'data')
    if a['model:agg:total'] != b['model:agg:total']:
        E.viol('C02', 'location', f'a mapping with integer keys listed in another order moved model:agg:total: {a["model:agg:total"]} vs {b["model:agg:total"]}',
               'int keys permuted', key='non-string-mapping-keys')
    spec = {'tasks': [f'{LIB}.Const', f'{LIB}.UsesConst']}
    with quiet():
        c1 = rel_paths(Config(d / 'data', E.write(d, 'experiment', spec)).chain(), d / 'data')
        c2 = rel_paths(Config(d / 'data', E.write(d / 'archive', 'experiment_2024', spec)).chain(), d / 'data')
    if c1 != c2:
        E.viol('C02', 'location', f'tasks without parameters and inputs: the location depends on the config name: {c1} vs {c2}', 'renamed config', key='parameterless-task-config-name')


def s_shared_registry(E, tier):
    """C04: building another chain over a shared task registry computes nothing and does not make computed tasks run again"""
    from taskchain import Config, Chain
    from contracts.pipelines import lib
    d = E.dir()
    E.tried += 1
    f = E.write(d, 'c', cfg(n=2))
    with quiet():
        shared = {}
        lib.RUNS.clear()
        c1 = Chain(Config(d / 'data', f, name='c1'), shared_tasks=shared)
        v1 = c1['report'].value
        first = list(lib.RUNS)
        lib.RUNS.clear()
        c2 = Chain(Config(d / 'data', f, name='c2'), shared_tasks=shared)
        built = list(lib.RUNS)
        v1b = c1['report'].value
        v1m = c1['mem'].value
        v2 = c2['mem'].value
    if built:
        E.viol('C04', 'inspect', f'building a second chain over the shared registry ran {built}', 'shared registry', key='construction-runs')
    if lib.RUNS:
        E.viol('C04', 'once', f'after a second chain was built over the shared registry, already computed tasks ran again: {lib.RUNS} '
               f'(first computation ran {first})', 'shared registry', key='shared-registry-rerun')
    if v1b != v1 or v1m != v2:
        E.viol('C04', 'once', 'values changed after a second chain was built over the shared registry', 'shared registry', key='shared-registry-values')


def s_late_upstream(E, tier):
    """C04: a stored result is loaded without touching its upstream - also when an input it did not need is computed later"""
    from taskchain import Config, Task, Parameter
    runs = []

    class LuRaw(Task):
        def run(self) -> list:
            runs.append('lu_raw')
            return [1, 2, 3]

    class LuSummary(Task):
        class Meta:
            input_tasks = [LuRaw]
            parameters = [Parameter('detailed', default=False)]

        def run(self, detailed) -> int:
            runs.append('lu_summary')
            return sum(self.input_tasks['lu_raw'].value) if detailed else 0
    d = E.dir()
    E.tried += 1
    import time as _t
    mk = lambda: Config(d / 'data', name='c', data={'tasks': [LuRaw, LuSummary]}).chain()
    with quiet():
        _ = mk()['lu_summary'].value
        _t.sleep(0.05)
        _ = mk()['lu_raw'].value          # the unneeded input is computed afterwards (its file is newer)
        runs.clear()
        v = mk()['lu_summary'].value
    if runs or v != 0:
        E.viol('C04', 'load', f'a stored result was not simply loaded after an input it never needed was computed later: ran {runs}, value {v!r}', 'late upstream', key='late-upstream')


def s_force_replaces(E, tier):
    """C07: a forced task runs again exactly once and REPLACES the stored result (seen by later chains), with and without delete_data"""
    from taskchain import Config
    from contracts.pipelines import lib
    for delete in (False, True):
        d = E.dir()
        E.tried += 1
        lib.COUNTER['n'] = 0
        spec = {'tasks': [f'{LIB}.Counter', f'{LIB}.AfterCounter']}
        f = E.write(d, 'c', spec)
        with quiet():
            ch = Config(d / 'data', f).chain()
            a0 = ch['after_counter'].value
            ch = Config(d / 'data', f).chain()
            ch.force('counter', delete_data=delete)
            lib.RUNS.clear()
            a1 = ch['after_counter'].value
            ran = list(lib.RUNS)
            later = Config(d / 'data', f).chain()
            lib.RUNS.clear()
            a2, c2 = later['after_counter'].value, later['counter'].value
        if a0 != 10 or a1 != 20 or sorted(ran) != ['after_counter', 'counter']:
            E.viol('C07', 'once', f'forced recomputation (delete_data={delete}): values {a0} -> {a1}, ran {ran}', delete, key='force-once')
        if (a2, c2) != (20, 2) or lib.RUNS:
            E.viol('C07', 'replaced', f'after a forced recomputation (delete_data={delete}) a later chain sees counter={c2}, after_counter={a2} '
                   f'(runs {lib.RUNS}); the recomputed results are 2 and 20', delete, key='stored-result-not-replaced')


def s_global_vars_object(E, tier):
    """C11: placeholders are looked up in the global_vars object the way attributes are looked up: instance attributes,
    class attributes, inherited ones, properties"""
    from taskchain import Config

    class Base:
        DATA_DIR = '/mnt/data'

    class Settings(Base):
        MODEL = 'm1'

        def __init__(self):
            self.RUN = 'r7'

        @property
        def OUT(self):
            return '/out'
    gv = Settings()
    d = E.dir()
    E.tried += 1
    with quiet():
        c = Config(d, name='c', data={'a': '{DATA_DIR}/x.csv', 'b': ['{MODEL}', {'k': '{RUN}/{OUT}'}], 'c': '{UNDEFINED}/y'}, global_vars=gv)
        got = (str(c['a']), [str(c['b'][0]), {'k': str(c['b'][1]['k'])}], str(c['c']))
    want = ('/mnt/data/x.csv', ['m1', {'k': 'r7//out'}], '{UNDEFINED}/y')
    if got != want:
        E.viol('C11', 'object_attributes', f'global_vars given as an object with class / inherited / instance attributes and a property: values {got}, expected {want}',
               'Settings()', key='global-vars-object')


def s_multichain_memory(E, tier):
    """C13: in-memory tasks are shared across member chains exactly when they are the same computation"""
    from taskchain import Config, MultiChain
    from contracts.pipelines import lib
    d = E.dir()
    E.tried += 1
    data_f = E.write(d, 'data', {'tasks': [f'{LIB}.Vocab', f'{LIB}.Feats']})
    f_en = E.write(d, 'exp_en', {'uses': str(data_f)})
    f_en2 = E.write(d, 'exp_en2', {'uses': str(data_f)})
    with quiet():
        lib.RUNS.clear()
        mc = MultiChain([Config(d / 'store', f_en), Config(d / 'store', f_en, name='exp_de', context={'lang': 'de'}), Config(d / 'store', f_en2)])
        vals = {k: (mc[k]['vocab'].value, mc[k]['feats'].value) for k in ('exp_en', 'exp_de', 'exp_en2')}
    want = {'exp_en': ('vocab-en', 'feats(vocab-en)'), 'exp_de': ('vocab-de', 'feats(vocab-de)'), 'exp_en2': ('vocab-en', 'feats(vocab-en)')}
    if vals != want:
        E.viol('C13', 'same_values', f'in-memory task with a context-changed parameter: member values {vals}, standalone chains give {want}', 'lang', key='in-memory-values')
    if mc['exp_en']['vocab'] is mc['exp_de']['vocab'] or mc['exp_en']['feats'] is mc['exp_de']['feats']:
        E.viol('C13', 'sharing', 'in-memory vocab(lang=en) and vocab(lang=de), or their dependants, are one object', 'lang', key='in-memory-over-shared')
    if mc['exp_en']['vocab'] is not mc['exp_en2']['vocab'] or lib.RUNS.count('vocab') != 2:
        E.viol('C13', 'sharing', f'identical in-memory tasks of two member chains are not one object / ran {lib.RUNS.count("vocab")} times for 2 computations', 'same', key='in-memory-under-shared')


def s_multichain_mounts(E, tier):
    """C13: member configs may mount one pipeline under different namespaces: every member equals its standalone chain"""
    from taskchain import Config, MultiChain
    from contracts.pipelines import lib
    d = E.dir()
    E.tried += 1
    inner = E.write(d, 'p', cfg(n=3))
    files = {'c1': E.write(d, 'c1', {'uses': f'{inner} as x'}), 'c2': E.write(d, 'c2', {'uses': f'{inner} as y'}), 'c3': E.write(d, 'c3', {'uses': str(inner)})}
    pref = {'c1': 'x::', 'c2': 'y::', 'c3': ''}
    with quiet():
        try:
            mc = MultiChain([Config(d / 'data', f) for f in files.values()])
        except Exception as e:
            E.viol('C13', 'same_tasks', f'a MultiChain of configs that mount the same pipeline as `x`, as `y` and unmounted cannot be built '
                   f'({type(e).__name__}: {e}) although every standalone chain can', 'uses p as x / as y', key='per-chain-namespaces')
            return
        ref = lib.reference({'n': 3})
        for k in files:
            solo = Config(d / f'solo_{k}', files[k]).chain()
            if sorted(mc[k].tasks) != sorted(solo.tasks):
                E.viol('C13', 'same_tasks', f'member {k} has tasks {sorted(mc[k].tasks)}, standalone {sorted(solo.tasks)}', k, key='per-chain-namespaces-tasks')
                continue
            for n in NAMES:
                if mc[k][pref[k] + n].value != ref[n] or solo[pref[k] + n].value != ref[n]:
                    E.viol('C13', 'same_values', f'member {k}: {pref[k] + n} = {mc[k][pref[k] + n].value!r}, reference {ref[n]!r}', (k, n), key='per-chain-namespaces-values')
            if rel_paths(mc[k], d / 'data') != rel_paths(solo, d / f'solo_{k}'):
                E.viol('C13', 'same_locations', f'member {k} stores at other locations than the standalone chain', k, key='per-chain-namespaces-locations')
            deps = sorted(t.fullname for t in mc[k].required_tasks(pref[k] + 'report'))
        if mc['c1']['x::data:dbl'] is not mc['c2']['y::data:dbl']:
            E.viol('C13', 'sharing', 'the same computation mounted as x in one member and as y in another is not one shared object', 'x / y', key='per-chain-namespaces-sharing')


def s_mock_exact(E, tier):
    """C19: a mock returns exactly the supplied object - whatever it is - and a task that is both given and mocked is mocked"""
    from taskchain.utils.testing import TestChain, create_test_task
    from contracts.pipelines import lib

    class Scaler:
        def __call__(self, x=1):
            return 3 * x

    def fn():
        return 'called'
    for val in (Scaler(), fn, dict, Scaler):
        E.tried += 1
        with quiet():
            tc = TestChain([lib.Dbl], mock_tasks={lib.Src: val}, parameters={}, base_dir=E.dir())
            got = tc['data:src'].value
        if got is not val:
            E.viol('C19', 'mock', f'a mock supplied with the callable object {val!r} returns {got!r}, not the supplied object', repr(val), key='callable-mock-value')
    E.tried += 1
    with quiet():
        lib.RUNS.clear()
        base = E.dir()
        tc = TestChain([lib.Src, lib.Dbl], mock_tasks={lib.Src: [100]}, parameters={'n': 2}, base_dir=base)
        got = tc['data:dbl'].value
        src_files = [p for p in Path(base).rglob('*') if p.is_file() and 'src' in str(p)]
    if got != [200] or 'data:src' in lib.RUNS or src_files:
        E.viol('C19', 'mock', f'a task given both in `tasks` and in `mock_tasks` must be mocked: dbl = {got!r} (mock gives [200]), runs {lib.RUNS}, files {src_files[:2]}',
               'overlap', key='given-and-mocked')


def s_failed_publish(E, tier):
    """C05: a result that cannot be stored completely is not published: the request fails, nothing is visible, a later
    request computes again (data classes that publish atomically: lazily generated data, directory data)"""
    from taskchain import Config, Task
    import typing
    runs = []

    class BadGen(Task):
        def run(self) -> typing.Generator:
            runs.append('bad_gen')
            yield {'ok': 1}
            yield {'bad': {1, 2}}          # a set cannot be serialised
            yield {'ok': 2}
    BadGen.Meta = type('Meta', (), {'data_class': __import__('taskchain').data.GeneratedDataLazy})
    d = E.dir()
    E.tried += 1
    mk = lambda: Config(d / 'data', name='c', data={'tasks': [BadGen]}).chain()
    with quiet():
        ch = mk()
        try:
            list(ch['bad_gen'].value)
            failed = False
        except Exception:
            failed = True
        later = mk()
        visible = later['bad_gen'].has_data
        n_before = len(runs)
        try:
            list(later['bad_gen'].value)
        except Exception:
            pass
    if not failed or visible:
        E.viol('C05', 'complete_or_absent', f'a generated result with a record that cannot be serialised: request failed = {failed}, '
               f'a later chain sees has_data = {visible} (an incomplete result was published)', 'set in a record', key='unserialisable-record-published')
    elif len(runs) == n_before:
        E.viol('C05', 'complete_or_absent', 'after a failed store the later request did not compute again', 'set in a record', key='no-recompute-after-failed-store')


def s_cycles_and_wildcards(E, tier):
    """C08: a dependency cycle never yields a chain (either mode, wherever the cycle sits); a wildcard declaration declares the
    tasks defined in that module only"""
    from taskchain import Config, Task

    class CyA(Task):
        class Meta:
            input_tasks = ['cy_b']

        def run(self, cy_b) -> int:
            return 1

    class CyB(Task):
        class Meta:
            input_tasks = ['cy_a']

        def run(self, cy_a) -> int:
            return 1

    class CyTail(Task):
        class Meta:
            input_tasks = [CyA]

        def run(self, cy_a) -> int:
            return 1

    class Seed(Task):
        def run(self) -> int:
            return 0
    for pmode in (False, True):
        for tasks in ([CyA, CyB], [CyA, CyB, CyTail], [Seed, CyA, CyB, CyTail]):
            E.tried += 1
            with quiet():
                try:
                    Config(E.dir(), name='cyc', data={'tasks': tasks}).chain(parameter_mode=pmode)
                    built = True
                except (Exception, RecursionError):
                    built = False
            if built:
                E.viol('C08', 'acyclic', f'tasks {[t.__name__ for t in tasks]} with cy_a <-> cy_b (parameter_mode={pmode}): a chain was built from a cyclic declaration',
                       ([t.__name__ for t in tasks], pmode), key='cycle-accepted')
    d = E.dir()
    E.tried += 2
    with quiet():
        ch = Config(d / 'data', E.write(d, 'w', {'tasks': ['contracts.pipelines.wild.*', f'{LIB}.Src'], 'n': 1})).chain()
        names = sorted(ch.tasks)
        try:
            Config(d / 'data', E.write(d, 'w2', {'tasks': ['contracts.pipelines.wild.*'], 'n': 1})).chain()
            alone = 'built'
        except Exception:
            alone = 'error'
    if names != ['data:src', 'peek']:
        E.viol('C08', 'tasks_exact', f"'contracts.pipelines.wild.*' + Src declares {names}; the module defines Peek only (Src is merely imported there)", names, key='wildcard-imports')
    if alone != 'error':
        E.viol('C08', 'missing_input', "a config declaring only 'contracts.pipelines.wild.*' (Peek needs src, declared nowhere) built a chain", 'wild.*', key='wildcard-imported-input')


def s_multiconfig_isolation(E, tier):
    """C09: configs built from one part of a multi-config file share nothing: per-namespace context values stay in their
    namespace, and a later context-free config of the same part sees the file values"""
    from taskchain import Config
    d = E.dir()
    E.tried += 1
    f = E.write(d, 'multi', {'configs': {'point': {'tasks': [f'{LIB}.NsScore'], 'x': 1, 'y': 2, 'opts': {'k': [1]}},
                                        'main': {'main_part': True, 'uses': ['#point as left', '#point as right']}}})
    with quiet():
        ch = Config(d / 'data', f, context={'for_namespaces': {'left': {'x': 10}, 'right': {'y': 20}}}).chain()
        got = (ch['left::ns_score'].value, ch['right::ns_score'].value)
        plain = Config(d / 'data2', f, part='point').chain()['ns_score'].value
        again = Config(d / 'data3', f).chain()
        got2 = (again['left::ns_score'].value, again['right::ns_score'].value)
    if got != (10002, 1020) or plain != 1002 or got2 != (1002, 1002):
        E.viol('C09', 'no_sharing', f'one part of a multi-config file mounted as left / right with per-namespace context: values {got} (expected (10002, 1020)); '
               f'a later context-free config of the part: {plain} (1002); a later context-free tree: {got2} ((1002, 1002))', 'multi#point', key='multi-config-part-shared')


def s_input_names(E, tier):
    """C10: a dependant's inputs are addressed by the same rule as a chain's tasks - whatever their number and order"""
    from taskchain import Config, Task

    def mk(name, group):
        class T(Task):
            Meta = type('Meta', (), {'name': name, 'task_group': group})

            def run(self) -> str:
                return self.fullname
        T.__name__ = f'I_{group}_{name}'
        return T
    groups = ['x', 'y', 'z', 'u']
    for n in (1, 2, 3, 4):
        for order in (groups[:n], list(reversed(groups[:n]))):
            classes = [mk('a', g) for g in order]

            class Consumer(Task):
                Meta = type('Meta', (), {'name': 'consumer', 'input_tasks': [f'{g}:a' for g in order]})

                def run(self) -> int:
                    return 0
            E.tried += 1
            with quiet():
                ch = Config(E.dir(), name='c', data={'tasks': classes + [Consumer]}).chain()
                it = ch['consumer'].input_tasks
                try:
                    got = it['a'].fullname
                except KeyError:
                    got = None
                inn = 'a' in it
            want = f'{order[0]}:a' if n == 1 else None
            if got != want or inn != (want is not None):
                E.viol('C10', 'access', f"inputs {[f'{g}:a' for g in order]}: input_tasks['a'] gives {got}, ('a' in input_tasks) = {inn}; "
                       + ('the unique match is ' + want if want else 'the short name is ambiguous'), order, key='input-tasks-short-name')
    # a top-level dependant's unqualified reference resolves among the top-level tasks
    GA, HA = mk('a', 'g'), mk('a', 'h')

    class TopConsumer(Task):
        Meta = type('Meta', (), {'name': 'top_consumer', 'input_tasks': ['a']})

        def run(self, a) -> str:
            return a
    E.tried += 1
    with quiet():
        try:
            base_ = E.dir()
            sub = Config(base_, name='sub', namespace='n', data={'tasks': [HA]})
            ch = Config(base_, name='top', data={'tasks': [GA, TopConsumer], 'uses': [sub]}).chain()
            wired = sorted(t.fullname for t in ch['top_consumer'].input_tasks.values())
        except Exception as e:
            wired = f'{type(e).__name__}: {e}'
    if wired != ['g:a']:
        E.viol('C10', 'access', f"top-level task with input 'a', tasks g:a (top level) and n::h:a (mounted): wired to {wired}; inside its own (empty) namespace the "
               'reference identifies g:a uniquely', 'top-level reference', key='top-level-reference')
    # round 7: a registry answers by the names it holds NOW: lookups between registrations do not freeze an answer, and
    # `in`, [] and .get agree after every step (histories of __setitem__ / get / __contains__ on the real InputTasks)
    from taskchain.task import InputTasks
    from contracts.names import resolvable, name_matches, less_nested
    histories = [['ns1::g:x', '?x', 'ns2::g:x', '?x'], ['g:x', '?x', 'h:x', '?x', 'x', '?x'], ['n::a', '?a', '?n::a', 'm::a', '?a', '?m::a', 'a', '?a'],
                 ['ns::g:x', '?g:x', '?x', 'ns::h:x', '?x', '?g:x', '?h:x']]
    for hist in histories:
        E.tried += 1
        reg_, objs = InputTasks(), {}
        for si, step in enumerate(hist):
            if not step.startswith('?'):
                objs[step] = object()
                reg_[step] = objs[step]
                continue
            q = step[1:]
            names_ = list(objs)
            want_in = resolvable(q, names_)
            M_ = [t for t in names_ if name_matches(q, t, True)]
            want_obj = objs[[c for c in M_ if all(less_nested(c, t) for t in M_)][0]] if want_in else None
            try:
                got_obj = reg_[q]
            except KeyError:
                got_obj = None
            got_in = q in reg_
            if got_in != want_in or got_obj is not want_obj:
                E.viol('C10', 'access', f"input registry after {hist[:si + 1]}: ('{q}' in registry) = {got_in}, registry['{q}'] "
                       f"{'is the task registered as ' + [n for n, o in objs.items() if o is got_obj][0] if got_obj is not None else 'raises KeyError'}; "
                       f"with names {names_} the query {'resolves' if want_in else 'does not resolve (no match or ambiguous)'}", hist, key='registry-history')
                break
    # round 7: a dependant mounted under a namespace addresses its sibling by the short form also when the sibling's name (or group)
    # merely begins with the text of the namespace - with and without a same-named task at top level
    for twin in (False, True):
        for group in (None, 'training'):
            from taskchain.parameter import Parameter

            class D(Task):
                Meta = type('Meta', (), dict({'name': 'training_data'}, **({'task_group': group} if group else {})))

                def run(self) -> str:
                    return 'sibling'

            class Twin(Task):      # another computation (it has a parameter) that happens to carry the same name at top level
                Meta = type('Meta', (), dict({'name': 'training_data', 'parameters': [Parameter('k', default=1)]}, **({'task_group': group} if group else {})))

                def run(self) -> str:
                    return 'twin'
            ref = f'{group}:training_data' if group else 'training_data'

            class Model(Task):
                Meta = type('Meta', (), {'name': 'model', 'input_tasks': [ref]})

                def run(self) -> str:
                    return self.input_tasks[ref].value
            E.tried += 1
            with quiet():
                try:
                    base_ = E.dir()
                    sub = Config(base_, name='sub', namespace='train', data={'tasks': [D, Model]})
                    ch = Config(base_, name='top', data={'tasks': [Twin] if twin else [], 'uses': [sub]}).chain()
                    wired = sorted(t.fullname for t in ch['train::model'].input_tasks.values())
                    val = ch['train::model'].value
                except Exception as e:
                    wired, val = f'{type(e).__name__}: {e}', None
            want = 'train::' + ref
            if wired != [want] or val != 'sibling':
                E.viol('C10', 'access', f"`train::model` with input '{ref}'" + (' and a same-named task at top level' if twin else '') + f': wired to {wired}, value {val!r}; '
                       f'from inside namespace `train` the short form identifies {want}', (twin, group), key='namespace-text-prefix')


def s_golden_objects(E, tier):
    """C12: frozen release-1.4.0 texts of parameter objects and of the group level of the layout (golden vectors)"""
    from taskchain import Config
    d = E.dir()
    cases = [({'scale': {'b': 1, 'a': 2}}, "w=Weights(scale={'b': 1, 'a': 2})"),
             ({'scale': "it's"}, 'w=Weights(scale="it\'s")'),
             ({'scale': '\\w+\n'}, "w=Weights(scale='\\\\w+\\n')"),
             ({'scale': [1, {'z': None, 'y': 'q'}]}, "w=Weights(scale=[1, {'z': None, 'y': 'q'}])")]
    for kwargs, text in cases:
        E.tried += 1
        with quiet():
            ch = Config(d / 'data', E.write(d, f'g{E.n}', cfg(n=1, w={'class': f'{LIB}.Weights', 'kwargs': kwargs}))).chain()
            got = ch['mem'].params.repr
        if got != text:
            E.viol('C12', 'object_text', f'parameter object Weights(**{kwargs!r}): persisted text {got!r}, release 1.4.0 text {text!r}', kwargs, key='parameter-object-text')
    E.tried += 1
    with quiet():
        ch = Config(d / 'data', E.write(d, 'emb', {'tasks': [f'{LIB}.Emb', f'{LIB}.UsesEmb']})).chain()
        names = sorted(ch.tasks)
        p = str(Path(ch['lib:emb'].data_path).relative_to(d / 'data')) if 'lib:emb' in ch.tasks else None
    if names != ['lib:emb', 'uses_emb'] or not (p or '').startswith('lib/emb/'):
        E.viol('C12', 'layout_group', f'a ModuleTask with Meta.task_group: tasks {names}, result path {p}; release 1.4.0 uses the module name (lib:emb, lib/emb/<key>.json)',
               'Emb', key='module-task-group')


def s_round6(E, tier):
    """C02 / C03 / C04 / C07 / C11 / C13 / C18 / C19 / C20: input classes found by the sixth round of seeded changes (one clause each, from the statements)"""
    from taskchain import Config, MultiChain
    from taskchain.utils.testing import create_test_task
    from contracts.pipelines import lib
    d = E.dir()
    # C02: a parameter object nested in a list value: argument order and ignored arguments do not move the task
    E.tried += 1
    wl = lambda kw: [{'class': f'{LIB}.Weights', 'kwargs': kw}, 'x']
    with quiet():
        a = rel_paths(Config(d / 'data', E.write(d, 'n1', cfg(n=1, tags=wl({'scale': 2, 'bias': 1})), ext='yaml')).chain(), d / 'data')
        b = rel_paths(Config(d / 'data', E.write(d, 'n2', cfg(n=1, tags=wl({'bias': 1, 'scale': 2})), ext='yaml')).chain(), d / 'data')
        c = rel_paths(Config(d / 'data', E.write(d, 'n3', cfg(n=1, tags=wl({'scale': 2, 'bias': 1, 'verbose': True})), ext='yaml')).chain(), d / 'data')
    if not (a['model:agg:total'] == b['model:agg:total'] == c['model:agg:total']):
        E.viol('C02', 'location', f'a parameter object inside a list value: other keyword order / an ignored argument moved the task: {a["model:agg:total"]}, '
               f'{b["model:agg:total"]}, {c["model:agg:total"]}', 'nested object', key='nested-object-kwargs')
    # C02: a str-typed parameter with a placeholder: the location does not depend on the substituted value
    E.tried += 1
    f = E.write(d, 'sl', {'tasks': [f'{LIB}.StrLoc'], 's': '{DIR}/raw.csv'})
    with quiet():
        la = rel_paths(Config(d / 'data', f, global_vars={'DIR': '/one'}).chain(), d / 'data')
        lb = rel_paths(Config(d / 'data', f, global_vars={'DIR': '/two'}).chain(), d / 'data')
        va = Config(d / 'data', f, global_vars={'DIR': '/one'}).chain()['str_loc'].params['s']
    if la != lb or str(va) != '/one/raw.csv':
        E.viol('C02', 'placeholder', f'str-typed parameter with a placeholder: locations {la} vs {lb} for two values of the variable (value seen: {va!r})', 's={DIR}/raw.csv',
               key='placeholder-str-dtype')
    # C03: long values that differ only in their tail
    E.tried += 1
    with quiet():
        p1 = rel_paths(Config(d / 'data', E.write(d, 'l1', cfg(n=1, tags=list(range(1000, 1400))))).chain(), d / 'data')
        p2 = rel_paths(Config(d / 'data', E.write(d, 'l2', cfg(n=1, tags=list(range(1000, 1399)) + [9999]))).chain(), d / 'data')
    if p1['model:agg:total'] == p2['model:agg:total']:
        E.viol('C03', 'distinct', 'two 400-element lists that differ only in the last element give model:agg:total the same location', 'long list tail', key='long-value-tail')
    # C04: a chain that looked at has_data before another chain computed the result loads it afterwards
    E.tried += 1
    f = E.write(d, 'hd', cfg(n=2))
    with quiet():
        early = Config(d / 'hd', f).chain()
        seen = [t.has_data for t in early.tasks.values()]
        _ = Config(d / 'hd', f).chain()['report'].value
        lib.RUNS.clear()
        v = early['report'].value
    if lib.RUNS and any(n in lib.RUNS for n in ('data:src', 'data:dbl', 'model:agg:total', 'report')):
        E.viol('C04', 'once', f'a chain that had inspected has_data before another chain stored the results ran {lib.RUNS} instead of loading', 'inspect, other chain computes, request',
               key='stale-has-data')
    # C07: after force(recompute=True) everything is computed: a following request runs nothing
    E.tried += 1
    lib.COUNTER['n'] = 0
    f = E.write(d, 'fr', {'tasks': [f'{LIB}.Counter', f'{LIB}.AfterCounter']})
    with quiet():
        ch = Config(d / 'fr', f).chain()
        _ = ch['after_counter'].value
        lib.RUNS.clear()
        ch.force('counter', recompute=True)
        during = list(lib.RUNS)
        lib.RUNS.clear()
        v = ch['after_counter'].value
    if sorted(during) != ['after_counter', 'counter'] or lib.RUNS or v != 20:
        E.viol('C07', 'once', f'force(counter, recompute=True) ran {during}; the following request ran {lib.RUNS} and gave {v} (every forced task exactly once: 20)', 'recompute then request',
               key='recompute-then-request')
    # C11: values that come from a context are substituted too
    E.tried += 1
    with quiet():
        c = Config(d, name='gc', data={'a': '{DIR}/a'}, context={'b': '{DIR}/b', 'for_namespaces': {}}, global_vars={'DIR': '/g'})
        got = (str(c['a']), str(c['b']))
    if got != ('/g/a', '/g/b'):
        E.viol('C11', 'context_values', f'config with global_vars and a dict context holding a placeholder: values {got}, expected (/g/a, /g/b)', 'context value', key='context-value-placeholder')
    # C13: a name-mode MultiChain holds name-mode chains
    E.tried += 1
    f1, f2 = E.write(d, 'exp1', cfg(n=1)), E.write(d, 'exp2', cfg(n=2))
    with quiet():
        mc = MultiChain([Config(d / 'nm', f1), Config(d / 'nm', f2)], parameter_mode=False)
        solo = Config(d / 'nm_solo', f1).chain(parameter_mode=False)
        mp, sp = rel_paths(mc['exp1'], d / 'nm'), rel_paths(solo, d / 'nm_solo')
    if mp != sp:
        E.viol('C13', 'same_locations', f'MultiChain(parameter_mode=False): member exp1 stores at {mp.get("report")}, the standalone name-mode chain at {sp.get("report")}', 'name mode',
               key='name-mode-multichain')
    # C18: run info names the representation of EVERY parameter value used, persisted in the key or not
    E.tried += 1
    with quiet(keep_logging=True):
        ch = Config(d / 'ri', name='c', data={'tasks': [lib.StrLoc], 'workers': 8}).chain()
        _ = ch['str_loc'].value
        info = ch['str_loc'].run_info
        ch2 = Config(d / 'ri', name='c', data={'tasks': [lib.StrLoc], 'workers': 2}).chain()
        ch2['str_loc'].force()
        _ = ch2['str_loc'].value
        info_first_chain = ch['str_loc'].run_info
    if sorted(info['parameters']) != ['s', 'workers'] or '8' not in str(info['parameters']['workers']):
        E.viol('C18', 'run_info', f'run info parameters {info["parameters"]}: every parameter used by the run must be named (s and the non-persisted workers=8)', 'workers', key='non-persisted-parameter')
    elif '2' not in str(info_first_chain['parameters'].get('workers')):
        E.viol('C18', 'latest_only', f'after another chain recomputed the result with workers=2, the first chain\'s task still reports run info {info_first_chain["parameters"]}',
               'second chain recomputes', key='run-info-not-from-store')
    # C19: a mock given for an optional (InputTaskParameter) input is used
    E.tried += 1
    with quiet():
        t = create_test_task(lib.Report, input_tasks={lib.Mem: {'mem': 3}, 'extra': 55}, parameters={}, base_dir=E.dir())
        got = t.value
    if got != {'report': 3, 'extra': 55, 'title': 't'}:
        E.viol('C19', 'same_value', f'create_test_task(Report, mem mocked, optional input extra mocked with 55) = {got!r}; the real chain gives extra 55', 'optional input mocked',
               key='optional-input-mock')


SCENARIOS = {
    'C01': [s_values_and_history, s_namespaces, s_ns_prefix, s_none_param, s_contexts], 'C02': [s_same_location, s_different_location, s_process_independent, s_default_not_persisted, s_same_location_more, s_round6], 'C03': [s_different_location, s_injective, s_round6],
    'C04': [s_values_and_history, s_lazy_inputs, s_shared_registry, s_late_upstream, s_round6], 'C05': [s_failed_publish], 'C12': [s_golden_objects], 'C07': [s_forcing, s_delete_exact, s_force_replaces, s_multichain, s_round6], 'C08': [s_graph, s_namespaces, s_pattern_exact, s_query_history, s_cycles_and_wildcards], 'C09': [s_contexts, s_namespaces, s_values_and_history, s_ns_prefix, s_no_shared_values, s_multiconfig_isolation],
    'C10': [s_namespaces, s_name_access, s_input_names], 'C11': [s_contexts, s_ctx_uses_string, s_global_vars_object, s_round6], 'C13': [s_multichain, s_multichain_memory, s_multichain_mounts, s_round6], 'C18': [s_run_records, s_log_isolation, s_round6], 'C19': [s_test_helpers, s_mock_exact, s_round6], 'C20': [s_migration],
}


def make(prop):
    def check(table, reg, tier, seed):
        E = Env(seed)
        try:
            for sc in SCENARIOS.get(prop, []):
                try:
                    sc(E, tier)
                except Exception as e:      # a scenario that cannot even run on this tree: report, do not crash the check
                    import traceback
                    E.viol(prop, f'scenario.{sc.__name__}', f'scenario raised {type(e).__name__}: {e} | {traceback.format_exc().splitlines()[-3].strip()}', sc.__name__)
        finally:
            E.close()
        also = {'C01': {'C09'}}.get(prop, set())      # a task configured with the wrong value computes the wrong value
        mine = [dict(v, property=prop, obligation=v['obligation'].replace(v['property'] + '.integration.', prop + '.integration.', 1)) if v['property'] in also else v
                for v in E.violations if v['property'] == prop or v['property'] in also]
        seen, uniq = set(), []
        for v in mine:
            k = (v['obligation'], v['witness_key'])
            if k not in seen:
                seen.add(k)
                uniq.append(v)
        return {'name': f'integration[{prop}]',
                'bounded': [{'what': 'real configs / chains / stores in a temporary directory against the oracle of the property statement: ' +
                             ', '.join(sc.__doc__.split(':')[0].strip() + ' ' + sc.__name__ for sc in SCENARIOS.get(prop, [])),
                             'bound': f'{E.tried} scenario instances (seed {seed}, tier {tier})', 'tried': E.tried}],
                'violations': uniq}
    check.__name__ = f'integration_{prop}'
    return check


def replay(doc):
    prop = doc['property']
    out = make(prop)(None, None, 'thorough', 0)
    bad = [v for v in out['violations'] if v['obligation'] == doc['obligation']]
    for v in bad[:3]:
        print('  ', v['what'], v.get('witness'))
    return not bad
