"""C10: task names resolve uniquely or not at all (task.py: _find_task_full_name and the dict-like accessors)."""
from pyvc.dsl import *


# ------------------------------------------------------------------------------------------------
# spec
# ------------------------------------------------------------------------------------------------
def name_matches(name, fullname, determine_namespace):
    """a query matches a full name: same task name; the query's namespace path is absent (when it may be
    determined) or equal; the query's groups are absent or equal."""
    namespace = '::'.join(name.split('::')[:-1])
    fullnamespace = '::'.join(fullname.split('::')[:-1])
    if (namespace or not determine_namespace) and fullnamespace != namespace:
        return False
    name = name.split('::')[-1]
    fullname = fullname.split('::')[-1]
    if fullname == name:
        return True
    if ':' in fullname and ':' not in name:
        return fullname.split(':')[-1] == name
    return False


def less_nested(c, t):
    """c is the less-nested form of t: t is c with additional leading namespace / group levels, i.e. c is a
    suffix of t that starts at a separator."""
    return t == c or t.endswith('::' + c) or t.endswith(':' + c)


# ------------------------------------------------------------------------------------------------
# clauses (taken from the property statement)
# ------------------------------------------------------------------------------------------------
def c10_found(task_name, tasks, determine_namespace, result):
    M = [t for t in tasks if name_matches(task_name, t, determine_namespace)]
    return len(M) >= 1 and result in M and (len(M) == 1 or all(less_nested(result, t) for t in M))


def c10_keyerror(task_name, tasks, determine_namespace, raised):
    M = [t for t in tasks if name_matches(task_name, t, determine_namespace)]
    return raised == 'KeyError' and (len(M) == 0 or (len(M) > 1 and not any(all(less_nested(c, t) for t in M) for c in M)))


def c10_inv(done, matching_tasks):
    return not any(all(less_nested(c, t) for t in matching_tasks) for c in done)


def c10_canary(result, task_name):
    return result == task_name


def gen_fullname(g):
    r = g.r
    if getattr(g, 'confusable', False):
        # groups and namespaces drawn from one alphabet: `n::a` next to `x::n:a`, `g:a` next to `g::a`
        ns = r.choice([[], ['n'], ['g'], ['x', 'n'], ['x'], ['x', 'g']])
        groups = r.choice([[], [], ['n'], ['g']])
        name = 'a'
    elif getattr(g, 'small_space', False):
        ns = r.choice([[], ['n'], ['xn'], ['m', 'n']])
        groups = r.choice([[], [], ['g'], ['ag']])
        name = r.choice(['a', 'a', 'a', 'xa'])
    else:
        ns = r.choice([[], [], ['n'], ['xn'], ['m', 'n'], ['m'], ['n', 'm']])
        groups = r.choice([[], [], ['g'], ['ag'], ['x', 'g'], ['h']])
        name = r.choice(['a', 'a', 'b', 'xa'])
    return '::'.join(ns + [':'.join(groups + [name])])


def gen_tasks(g, sofar):
    g.small_space = g.r.random() < 0.7
    g.confusable = g.r.random() < 0.3
    out = []
    for _ in range(g.r.choice([0, 1, 2, 2, 3, 3, 4])):
        n = gen_fullname(g)
        if n not in out:
            out.append(n)
    return out


def gen_query(g, sofar):
    tasks = sofar.get('tasks') or []
    r = g.r
    if tasks and r.random() < 0.8:
        full = r.choice(tasks)
        ns = full.split('::')[:-1]
        local = full.split('::')[-1]
        name = local.split(':')[-1]
        forms = [full, local, name, '::'.join(ns + [name])]
        return r.choice(forms)
    return gen_fullname(g)


CONTRACTS = [
    Contract(
        id='C10.resolve', feas_ms=300, target='taskchain.task:_find_task_full_name',
        props={'C10': 'decisive', 'C08': 'supporting'},
        inputs={'tasks': SymList(Str, 'tasks'), 'task_name': S(Str, 'task_name'), 'determine_namespace': S(Bool, 'determine_namespace')},
        call=['task_name', 'tasks', 'determine_namespace'],
        native_gens={'tasks': gen_tasks, 'task_name': gen_query},
        ensures={'found': 'c10_found'}, ensures_raise={'keyerror': 'c10_keyerror'},
        loops={0: Loop('c10_inv', vars={'cand': Str})},
        canary='c10_canary', l0=['A-split'],
    ),
]


# ------------------------------------------------------------------------------------------------
# the dict-like accessors of a chain: one resolution rule behind `in`, [], get_task  (C10)
# ------------------------------------------------------------------------------------------------
from pyvc.prims import all_of, any_of

ATaskU = U('ATask')


def resolvable(item, names):
    """the name denotes exactly one task: a unique match, or a match that is the less-nested form of all matches"""
    M = [t for t in names if name_matches(item, t, True)]
    return len(M) == 1 or (len(M) > 1 and any(all(less_nested(c, t) for t in M) for c in M))


def find_ret(task_name, tasks, determine_namespace, result):
    return c10_found(task_name, tasks, determine_namespace, result)


def find_raise(task_name, tasks, determine_namespace, raised):
    return c10_keyerror(task_name, tasks, determine_namespace, raised)


FIND = ByContract(ret=Str, post='find_ret', raises=['KeyError'], raise_post='find_raise')


def acc_chain():
    return Obj('taskchain.chain:Chain', tasks=SymDict(Str, ATaskU, 'chain_tasks'))


def contains_post(self, item, result):
    """`name in chain` is exactly "the name resolves" """
    return result == resolvable(item, self.tasks.keys())


def get_post(self, item, result):
    """chain[name] is the task the name resolves to"""
    names = self.tasks.keys()
    return resolvable(item, names) and any(name_matches(item, n, True) and self.tasks[n] == result for n in names)


def get_raise(self, item, raised):
    return raised == 'KeyError' and not resolvable(item, self.tasks.keys())


ACCESSOR_CONTRACTS = [
    Contract(id='C10.contains', target='taskchain.chain:Chain.__contains__', props={'C10': 'decisive'},
             inputs={'self': acc_chain(), 'item': S(Str, 'item')}, callees={'taskchain.task:_find_task_full_name': FIND},
             ensures={'same_rule': 'contains_post'}, l0=['A-split', 'A-dict'], searchable=False),
    Contract(id='C10.get', target='taskchain.chain:Chain.get', props={'C10': 'decisive'},
             inputs={'self': acc_chain(), 'item': S(Str, 'item'), 'default': Const(None)}, callees={'taskchain.task:_find_task_full_name': FIND},
             ensures={'same_rule': 'get_post'}, ensures_raise={'unresolved': 'get_raise'}, l0=['A-split', 'A-dict'], searchable=False),
]

# NOT registered: `C10.contains` (return path) and `C10.get` do not discharge within the budget (two filter-map symbols for the
# match list, linked only by extensionality); the accessors are covered by the bounded scenario s_name_access.  Set PYVC_ACCESSORS=1
# to experiment.
import os as _os
if _os.environ.get('PYVC_ACCESSORS'):
    CONTRACTS += ACCESSOR_CONTRACTS


# ------------------------------------------------------------------------------------------------
# The accessors of a chain and Chain.get_task - the entry of every graph query and of force (C10, C08, C07) - against ONE abstract
# resolution relation: prims.c10_resolves(name, names) / c10_target(name, names), two uninterpreted functions of the query and the
# sequence of full names.  By definition c10_resolves is `resolvable` above and c10_target the name C10.resolve returns; the link
# between the two readings - FIND_ABS, the contract of _find_task_full_name restated over the relation - is the ONE assumed callee
# contract here (it follows from C10.resolve's proved clauses `found` / `keyerror` by unfolding the definition; neither solver does
# that unfolding within budget, see the note on ACCESSOR_CONTRACTS).  Everything above it is PROVED by contract, callee by callee:
#   __contains__  answers exactly c10_resolves;   get  returns tasks[c10_target] or raises KeyError exactly when not c10_resolves;
#   __getitem__ = get;   get_task: a name is answered by what `get` yields iff `in` holds, anything else is ValueError, a task
#   object is answered by itself;   none of them touches the task map.
# ------------------------------------------------------------------------------------------------
from pyvc.prims import c10_resolves, c10_target, same_map


def find_abs_post(task_name, tasks, result):
    return all_of(c10_resolves(task_name, tasks), result == c10_target(task_name, tasks), any(result == t for t in tasks))


def find_abs_raise(task_name, tasks, raised):
    return all_of(raised == 'KeyError', not c10_resolves(task_name, tasks))


FIND_ABS = ByContract(ret=Str, post='find_abs_post', raises=['KeyError'], raise_post='find_abs_raise',
                      assumed_form='restated over the abstract relation c10_resolves / c10_target; its concrete form is proved as C10.resolve, the restatement is by definition and not machine-checked')


def contains_spec(self, item):
    return c10_resolves(item, self.tasks.keys())


def contains_abs_post(self, item, result):
    """`name in chain` is exactly "the name resolves" """
    return result == c10_resolves(item, self.tasks.keys())


def get_abs_post(self, item, result):
    """chain.get(name) is the task stored under the full name the query resolves to"""
    return all_of(c10_resolves(item, self.tasks.keys()), result == self.tasks[c10_target(item, self.tasks.keys())])


def get_abs_raise(self, item, raised):
    """... and a KeyError for a name that does not resolve - never None, never a guess"""
    return all_of(raised == 'KeyError', not c10_resolves(item, self.tasks.keys()))


CONTAINS = ByContract(spec='contains_spec')
GET = ByContract(ret=ATaskU, post='get_abs_post', raises=['KeyError'], raise_post='get_abs_raise')


def gt_str_post(self, task, result):
    """a name is answered by the task it resolves to"""
    return all_of(c10_resolves(task, self.tasks.keys()), result == self.tasks[c10_target(task, self.tasks.keys())])


def gt_str_raise(self, task, raised):
    """a name that does not resolve (no match, or an ambiguous one) is an error, never a guess and never None ..."""
    return not c10_resolves(task, self.tasks.keys())


def gt_str_raise_kind(raised):
    """... and the error is the documented one (ValueError `Task ... not found`), whatever the lookup underneath raises"""
    return raised == 'ValueError'


def gt_obj_post(self, task, result):
    """a task object is answered by itself, without any lookup"""
    return result == task


def gt_frame(self, old_self):
    """looking a task up never changes the chain's task map"""
    return same_map(self.tasks, old_self.tasks)


_FIND_CALLEE = {'taskchain.task:_find_task_full_name': FIND_ABS}
_GT_CALLEES = {'taskchain.chain:Chain.__contains__': CONTAINS, 'taskchain.chain:Chain.get': GET}
GET_TASK_CONTRACTS = [
    Contract(id='C10.contains.abs', target='taskchain.chain:Chain.__contains__', props={'C10': 'decisive', 'C08': 'supporting', 'C07': 'supporting'},
             inputs={'self': acc_chain(), 'item': S(Str, 'item')}, callees=_FIND_CALLEE,
             ensures={'same_rule': 'contains_abs_post', 'frame': 'gt_frame'}, l0=['A-dict'], searchable=False),
    Contract(id='C10.get.abs', target='taskchain.chain:Chain.get', props={'C10': 'decisive', 'C08': 'supporting', 'C07': 'supporting'},
             inputs={'self': acc_chain(), 'item': S(Str, 'item'), 'default': Const(None)}, callees=_FIND_CALLEE,
             ensures={'same_rule': 'get_abs_post', 'frame': 'gt_frame'}, ensures_raise={'unresolved': 'get_abs_raise', 'frame': 'gt_frame'}, l0=['A-dict'], searchable=False),
    Contract(id='C10.getitem', target='taskchain.chain:Chain.__getitem__', props={'C10': 'decisive'},
             inputs={'self': acc_chain(), 'item': S(Str, 'item')}, callees=_GT_CALLEES,
             ensures={'resolved': 'get_abs_post', 'frame': 'gt_frame'}, ensures_raise={'unresolved': 'get_abs_raise', 'frame': 'gt_frame'}, l0=['A-dict'], searchable=False),
    Contract(id='C10.get_task.name', target='taskchain.chain:Chain.get_task', props={'C10': 'decisive', 'C08': 'supporting', 'C07': 'supporting'},
             inputs={'self': acc_chain(), 'task': S(Str, 'task')}, callees=_GT_CALLEES,
             ensures={'resolved': 'gt_str_post', 'frame': 'gt_frame'},
             ensures_raise={'unresolved': 'gt_str_raise', 'error_kind': 'gt_str_raise_kind', 'frame': 'gt_frame'}, l0=['A-dict'], searchable=False),
    Contract(id='C10.get_task.object', target='taskchain.chain:Chain.get_task', props={'C10': 'decisive', 'C08': 'supporting', 'C07': 'supporting'},
             inputs={'self': acc_chain(), 'task': S(U('Task'), 'task')}, callees=_GT_CALLEES,
             ensures={'itself': 'gt_obj_post', 'frame': 'gt_frame'}, l0=['A-isinstance-tag'], searchable=False),
]


# the input registry of a task resolves names by the same rule (a dependant's inputs, C10)
def it_obj():
    return Obj('taskchain.task:InputTasks', __basedict__=SymDict(Str, ATaskU, 'input_tasks'), task_list=SymList(ATaskU, 'task_list'))


def it_contains_post(self, item, result):
    return result == c10_resolves(item, self.keys())


def it_get_post(self, item, result):
    return all_of(c10_resolves(item, self.keys()), any(all_of(k == c10_target(item, self.keys()), v == result) for k, v in self.items()))


def it_get_raise(self, item, raised):
    return all_of(raised == 'KeyError', not c10_resolves(item, self.keys()))


INPUT_TASKS_CONTRACTS = [
    Contract(id='C10.inputs.contains', target='taskchain.task:InputTasks.__contains__', props={'C10': 'decisive'},
             inputs={'self': it_obj(), 'item': S(Str, 'item')}, callees=_FIND_CALLEE,
             ensures={'same_rule': 'it_contains_post'}, l0=['A-dict'], searchable=False),
    Contract(id='C10.inputs.get', target='taskchain.task:InputTasks.get', props={'C10': 'decisive'},
             inputs={'self': it_obj(), 'item': S(Str, 'item'), 'default': Const(None)}, callees=_FIND_CALLEE,
             ensures={'same_rule': 'it_get_post'}, ensures_raise={'unresolved': 'it_get_raise'}, l0=['A-dict'], searchable=False),
]


def it_set_post(self, old_self, key, value):
    """registering an input: the entry is there under exactly that name, every other entry is as before, and the positional
    list grows by that task iff the name is new (positions follow declaration order, re-registering does not duplicate)"""
    was = any(k0 == key for k0, v0 in old_self.items())      # exact membership in the underlying dict (`key in self` would resolve names)
    return all_of(any(all_of(k == key, v == value) for k, v in self.items()),
                  all(any_of(k == key, any(all_of(k == k0, v == v0) for k0, v0 in old_self.items())) for k, v in self.items()),
                  all(any(all_of(k == k0, v == v0) for k, v in self.items()) for k0, v0 in old_self.items() if k0 != key),
                  self.task_list == (old_self.task_list if was else old_self.task_list + [value]))


def it_index_post(self, item, result):
    return result == self.task_list[item]


INPUT_TASKS_CONTRACTS += [
    Contract(id='C10.inputs.setitem', target='taskchain.task:InputTasks.__setitem__', props={'C10': 'supporting', 'C08': 'supporting'},
             inputs={'self': it_obj(), 'key': S(Str, 'key'), 'value': S(ATaskU, 'value')},
             ensures={'registered': 'it_set_post'}, l0=['A-dict'], searchable=False),
]
def it_index_raise(self, item, raised):
    return all_of(raised == 'IndexError', any_of(item >= len(self.task_list), item < -len(self.task_list)))


INPUT_TASKS_CONTRACTS += [
    Contract(id='C10.inputs.get.index', target='taskchain.task:InputTasks.get', props={'C10': 'supporting'},
             inputs={'self': it_obj(), 'item': S(Int, 'item'), 'default': Const(None)}, callees=_FIND_CALLEE,
             ensures={'positional': 'it_index_post'}, ensures_raise={'out_of_range': 'it_index_raise'}, l0=['A-dict'], searchable=False),
]
if _os.environ.get('PYVC_INPUT_TASKS', '1') == '1':
    GET_TASK_CONTRACTS += INPUT_TASKS_CONTRACTS
CONTRACTS += GET_TASK_CONTRACTS
