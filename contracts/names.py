"""C10: task names resolve uniquely or not at all (task.py: _find_task_full_name and the dict-like accessors)."""
from pyvc.dsl import *


# ------------------------------------------------------------------------------------------------
# spec
# ------------------------------------------------------------------------------------------------
def name_matches(name, fullname, determine_namespace):
    """a query matches a full name: same task name; the query's namespace path is absent (when it may be
    determined) or equal; the query's groups are absent or equal."""
    namespace = '::'.join(name.split('::')[:-1])
    fullnamespace = '::'.join(fullname.split('::')[:-1])
    if (namespace or not determine_namespace) and fullnamespace != namespace:
        return False
    name = name.split('::')[-1]
    fullname = fullname.split('::')[-1]
    if fullname == name:
        return True
    if ':' in fullname and ':' not in name:
        return fullname.split(':')[-1] == name
    return False


def less_nested(c, t):
    """c is the less-nested form of t: t is c with additional leading namespace / group levels, i.e. c is a
    suffix of t that starts at a separator."""
    return t == c or t.endswith('::' + c) or t.endswith(':' + c)


# ------------------------------------------------------------------------------------------------
# clauses (taken from the property statement)
# ------------------------------------------------------------------------------------------------
def c10_found(task_name, tasks, determine_namespace, result):
    M = [t for t in tasks if name_matches(task_name, t, determine_namespace)]
    return len(M) >= 1 and result in M and (len(M) == 1 or all(less_nested(result, t) for t in M))


def c10_keyerror(task_name, tasks, determine_namespace, raised):
    M = [t for t in tasks if name_matches(task_name, t, determine_namespace)]
    return raised == 'KeyError' and (len(M) == 0 or (len(M) > 1 and not any(all(less_nested(c, t) for t in M) for c in M)))


def c10_inv(done, matching_tasks):
    return not any(all(less_nested(c, t) for t in matching_tasks) for c in done)


def c10_canary(result, task_name):
    return result == task_name


def gen_fullname(g):
    r = g.r
    if getattr(g, 'small_space', False):
        ns = r.choice([[], ['n'], ['xn'], ['m', 'n']])
        groups = r.choice([[], [], ['g'], ['ag']])
        name = r.choice(['a', 'a', 'a', 'xa'])
    else:
        ns = r.choice([[], [], ['n'], ['xn'], ['m', 'n'], ['m'], ['n', 'm']])
        groups = r.choice([[], [], ['g'], ['ag'], ['x', 'g'], ['h']])
        name = r.choice(['a', 'a', 'b', 'xa'])
    return '::'.join(ns + [':'.join(groups + [name])])


def gen_tasks(g, sofar):
    g.small_space = g.r.random() < 0.7
    out = []
    for _ in range(g.r.choice([0, 1, 2, 2, 3, 3, 4])):
        n = gen_fullname(g)
        if n not in out:
            out.append(n)
    return out


def gen_query(g, sofar):
    tasks = sofar.get('tasks') or []
    r = g.r
    if tasks and r.random() < 0.8:
        full = r.choice(tasks)
        ns = full.split('::')[:-1]
        local = full.split('::')[-1]
        name = local.split(':')[-1]
        forms = [full, local, name, '::'.join(ns + [name])]
        return r.choice(forms)
    return gen_fullname(g)


CONTRACTS = [
    Contract(
        id='C10.resolve', target='taskchain.task:_find_task_full_name',
        props={'C10': 'decisive', 'C08': 'supporting'},
        inputs={'tasks': SymList(Str, 'tasks'), 'task_name': S(Str, 'task_name'), 'determine_namespace': S(Bool, 'determine_namespace')},
        call=['task_name', 'tasks', 'determine_namespace'],
        native_gens={'tasks': gen_tasks, 'task_name': gen_query},
        ensures={'found': 'c10_found'}, ensures_raise={'keyerror': 'c10_keyerror'},
        loops={0: Loop('c10_inv', vars={'cand': Str})},
        canary='c10_canary', l0=['A-split'],
    ),
]
