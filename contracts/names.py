"""C10: task names resolve uniquely or not at all (task.py: _find_task_full_name and the dict-like accessors)."""
from pyvc.dsl import *


# ------------------------------------------------------------------------------------------------
# spec
# ------------------------------------------------------------------------------------------------
def name_matches(name, fullname, determine_namespace):
    """a query matches a full name: same task name; the query's namespace path is absent (when it may be
    determined) or equal; the query's groups are absent or equal."""
    namespace = '::'.join(name.split('::')[:-1])
    fullnamespace = '::'.join(fullname.split('::')[:-1])
    if (namespace or not determine_namespace) and fullnamespace != namespace:
        return False
    name = name.split('::')[-1]
    fullname = fullname.split('::')[-1]
    if fullname == name:
        return True
    if ':' in fullname and ':' not in name:
        return fullname.split(':')[-1] == name
    return False


def less_nested(c, t):
    """c is the less-nested form of t: t is c with additional leading namespace / group levels, i.e. c is a
    suffix of t that starts at a separator."""
    return t == c or t.endswith('::' + c) or t.endswith(':' + c)


# ------------------------------------------------------------------------------------------------
# clauses (taken from the property statement)
# ------------------------------------------------------------------------------------------------
def c10_found(task_name, tasks, determine_namespace, result):
    M = [t for t in tasks if name_matches(task_name, t, determine_namespace)]
    return len(M) >= 1 and result in M and (len(M) == 1 or all(less_nested(result, t) for t in M))


def c10_keyerror(task_name, tasks, determine_namespace, raised):
    M = [t for t in tasks if name_matches(task_name, t, determine_namespace)]
    return raised == 'KeyError' and (len(M) == 0 or (len(M) > 1 and not any(all(less_nested(c, t) for t in M) for c in M)))


def c10_inv(done, matching_tasks):
    return not any(all(less_nested(c, t) for t in matching_tasks) for c in done)


def c10_canary(result, task_name):
    return result == task_name


def gen_fullname(g):
    r = g.r
    if getattr(g, 'confusable', False):
        # groups and namespaces drawn from one alphabet: `n::a` next to `x::n:a`, `g:a` next to `g::a`
        ns = r.choice([[], ['n'], ['g'], ['x', 'n'], ['x'], ['x', 'g']])
        groups = r.choice([[], [], ['n'], ['g']])
        name = 'a'
    elif getattr(g, 'small_space', False):
        ns = r.choice([[], ['n'], ['xn'], ['m', 'n']])
        groups = r.choice([[], [], ['g'], ['ag']])
        name = r.choice(['a', 'a', 'a', 'xa'])
    else:
        ns = r.choice([[], [], ['n'], ['xn'], ['m', 'n'], ['m'], ['n', 'm']])
        groups = r.choice([[], [], ['g'], ['ag'], ['x', 'g'], ['h']])
        name = r.choice(['a', 'a', 'b', 'xa'])
    return '::'.join(ns + [':'.join(groups + [name])])


def gen_tasks(g, sofar):
    g.small_space = g.r.random() < 0.7
    g.confusable = g.r.random() < 0.3
    out = []
    for _ in range(g.r.choice([0, 1, 2, 2, 3, 3, 4])):
        n = gen_fullname(g)
        if n not in out:
            out.append(n)
    return out


def gen_query(g, sofar):
    tasks = sofar.get('tasks') or []
    r = g.r
    if tasks and r.random() < 0.8:
        full = r.choice(tasks)
        ns = full.split('::')[:-1]
        local = full.split('::')[-1]
        name = local.split(':')[-1]
        forms = [full, local, name, '::'.join(ns + [name])]
        return r.choice(forms)
    return gen_fullname(g)


CONTRACTS = [
    Contract(
        id='C10.resolve', feas_ms=300, target='taskchain.task:_find_task_full_name',
        props={'C10': 'decisive', 'C08': 'supporting'},
        inputs={'tasks': SymList(Str, 'tasks'), 'task_name': S(Str, 'task_name'), 'determine_namespace': S(Bool, 'determine_namespace')},
        call=['task_name', 'tasks', 'determine_namespace'],
        native_gens={'tasks': gen_tasks, 'task_name': gen_query},
        ensures={'found': 'c10_found'}, ensures_raise={'keyerror': 'c10_keyerror'},
        loops={0: Loop('c10_inv', vars={'cand': Str})},
        canary='c10_canary', l0=['A-split'],
    ),
]


# ------------------------------------------------------------------------------------------------
# the dict-like accessors of a chain: one resolution rule behind `in`, [], get_task  (C10)
# ------------------------------------------------------------------------------------------------
from pyvc.prims import all_of, any_of

ATaskU = U('ATask')


def resolvable(item, names):
    """the name denotes exactly one task: a unique match, or a match that is the less-nested form of all matches"""
    M = [t for t in names if name_matches(item, t, True)]
    return len(M) == 1 or (len(M) > 1 and any(all(less_nested(c, t) for t in M) for c in M))


def find_ret(task_name, tasks, determine_namespace, result):
    return c10_found(task_name, tasks, determine_namespace, result)


def find_raise(task_name, tasks, determine_namespace, raised):
    return c10_keyerror(task_name, tasks, determine_namespace, raised)


FIND = ByContract(ret=Str, post='find_ret', raises=['KeyError'], raise_post='find_raise')


def acc_chain():
    return Obj('taskchain.chain:Chain', tasks=SymDict(Str, ATaskU, 'chain_tasks'))


def contains_post(self, item, result):
    """`name in chain` is exactly "the name resolves" """
    return result == resolvable(item, self.tasks.keys())


def get_post(self, item, result):
    """chain[name] is the task the name resolves to"""
    names = self.tasks.keys()
    return resolvable(item, names) and any(name_matches(item, n, True) and self.tasks[n] == result for n in names)


def get_raise(self, item, raised):
    return raised == 'KeyError' and not resolvable(item, self.tasks.keys())


ACCESSOR_CONTRACTS = [
    Contract(id='C10.contains', target='taskchain.chain:Chain.__contains__', props={'C10': 'decisive'},
             inputs={'self': acc_chain(), 'item': S(Str, 'item')}, callees={'taskchain.task:_find_task_full_name': FIND},
             ensures={'same_rule': 'contains_post'}, l0=['A-split', 'A-dict'], searchable=False),
    Contract(id='C10.get', target='taskchain.chain:Chain.get', props={'C10': 'decisive'},
             inputs={'self': acc_chain(), 'item': S(Str, 'item'), 'default': Const(None)}, callees={'taskchain.task:_find_task_full_name': FIND},
             ensures={'same_rule': 'get_post'}, ensures_raise={'unresolved': 'get_raise'}, l0=['A-split', 'A-dict'], searchable=False),
]

# NOT registered: `C10.contains` (return path) and `C10.get` do not discharge within the budget (two filter-map symbols for the
# match list, linked only by extensionality); the accessors are covered by the bounded scenario s_name_access.  Set PYVC_ACCESSORS=1
# to experiment.
import os as _os
if _os.environ.get('PYVC_ACCESSORS'):
    CONTRACTS += ACCESSOR_CONTRACTS
