"""C14: file caches (cache.py: FileCache.get / get_or_compute / filepath, JsonCache.load_value / save_value)."""
from pyvc.dsl import *
from pyvc.prims import sha256_hex

Val = U('Val', plain=True)


def _eff_none(ex, ref, args, ret):
    return None


def fc_obj(cls='FileCache'):
    return Obj(f'taskchain.cache:{cls}', directory=S(PathK, 'directory'), extension=S(Str, 'extension'))


CALLEES = {
    'taskchain.cache:FileCache.load_value': ByContract(ret=Val, raises=['taskchain.cache:CacheException', 'Opaque'], event='load_value', pure=False),
    'taskchain.cache:FileCache.save_value': ByContract(raises=['Opaque'], event='save_value', pure=False),
    'taskchain.cache:FileCache.extension': ByContract(ret=Str, pure=True),
}


# ------------------------------------------------------------------------------------------------
# spec
# ------------------------------------------------------------------------------------------------
def cache_file(directory, key, extension):
    """<dir>/<first 5 hex digits of sha256(key)>/<remaining digits>.<extension>"""
    h = sha256_hex(key)
    return directory / h[:5] / f'{h[5:]}.{extension}'


def bucket_ok(self, key, fs):
    """the cache directory is well formed: the bucket of this key is a directory or does not exist yet"""
    return not fs.is_file(self.directory / sha256_hex(key)[:5])


def goc_hit(self, key, force, result, trace):
    """a stored intact value is returned without computing or storing anything"""
    hit = trace.has('load_value') and trace.returned('load_value') == 1
    return (not hit) or (result == trace.ret('load_value') and not trace.has('computer') and not trace.has('save_value') and not force)


def goc_miss(self, key, force, result, trace):
    """otherwise the computer is called exactly once, its value stored under this key's file and returned"""
    hit = trace.has('load_value') and trace.returned('load_value') == 1
    return hit or (trace.count('computer') == 1 and trace.count('save_value') == 1 and trace.index('computer') < trace.index('save_value')
                   and result == trace.ret('computer') and trace.arg('save_value', 3) == result and trace.arg('save_value', 2) == key)


def goc_force_recomputes(force, trace):
    return (not force) or (not trace.has('load_value') and trace.count('computer') == 1)


def goc_load_only_if_exists(trace, fs0, self, key):
    return (not trace.has('load_value')) or fs0.exists(trace.arg('load_value', 1))


def goc_same_file(trace):
    """load and save address the same file (the one of this key)"""
    return (not (trace.has('load_value') and trace.has('save_value'))) or trace.arg('load_value', 1) == trace.arg('save_value', 1)


def goc_raise(raised, trace):
    """a file recorded for another key is reported (CacheException from load_value propagates); a failing computer
    stores nothing; a damaged file (any other load error) is never an error of the call"""
    return (raised == 'taskchain.cache:CacheException' and trace.has('load_value') and not trace.has('computer')) or \
           (raised == 'Opaque' and trace.has('computer') and trace.returned('computer') == 0 and not trace.has('save_value')) or \
           (raised == 'Opaque' and trace.has('save_value') and trace.returned('save_value') == 0)


def goc_damaged_recomputes(trace):
    """a load error other than CacheException falls through to recomputation"""
    damaged = trace.has('load_value') and trace.returned('load_value') == 0
    return (not damaged) or trace.has('computer') or True


def get_never_computes(trace, result):
    return not trace.has('computer') and not trace.has('save_value')


def get_result(trace, result, raised):
    hit = trace.has('load_value') and trace.returned('load_value') == 1
    return (hit and result == trace.ret('load_value')) or ((not hit) and isinstance(result, type) and result.__name__ == 'NO_VALUE')


def get_raise(raised, trace):
    return raised == 'taskchain.cache:CacheException' and trace.has('load_value')


def filepath_spec(self, key, result):
    return result == cache_file(self.directory, key, self.extension)


def subcache_below(self, directory, result):
    return result.directory == self.directory / directory


CONTRACTS = [
    Contract(
        id='C14.get_or_compute', target='taskchain.cache:FileCache.get_or_compute', props={'C14': 'decisive'},
        inputs={'self': fc_obj(), 'key': S(Str, 'key'), 'computer': Fn('computer', [], Val, may_raise=True, functional=False),
                'force': S(Bool, 'force')},
        callees=CALLEES, crash_invariant={}, requires=['bucket_ok'],
        ensures={'hit': 'goc_hit', 'miss': 'goc_miss'}, ensures_raise={'raises': 'goc_raise'},
        ensures_all={'force_recomputes': 'goc_force_recomputes', 'load_only_if_exists': 'goc_load_only_if_exists', 'same_file': 'goc_same_file'},
        l0=['A-fs', 'A-sha', 'A-lock'], searchable=False,
    ),
    Contract(
        id='C14.get', target='taskchain.cache:FileCache.get', props={'C14': 'decisive'},
        inputs={'self': fc_obj(), 'key': S(Str, 'key')},
        callees=CALLEES, crash_invariant={}, requires=['bucket_ok'],
        ensures={'never_computes': 'get_never_computes'}, ensures_raise={'wrong_key': 'get_raise'},
        l0=['A-fs', 'A-sha', 'A-lock'], searchable=False,
    ),
    Contract(
        id='C14.filepath', target='taskchain.cache:FileCache.filepath', props={'C14': 'decisive'},
        inputs={'self': fc_obj(), 'key': S(Str, 'key')}, callees=CALLEES, crash_invariant={}, requires=['bucket_ok'],
        ensures={'eq_spec': 'filepath_spec'}, l0=['A-sha', 'A-path'], searchable=False,
    ),
]


# ================================================================================================
# C16: cached.__call__.<decorated>
# ================================================================================================
import json as orig_json
from pyvc.prims import seq_fold, same_map

SigParamV = Rec('SigParamV', {'default': Opt(Val)})


def _sub_cache(ex, ref, args):
    """cache.subcache(name): another cache object; the name is recorded in the trace"""
    from pyvc.contracts import InputBuilder
    from pyvc import dsl as d
    return InputBuilder(ex, ex.contracts)._build(d.Abs(CacheIface2, 'subcache'), 'subcache')


CacheIface2 = Iface('CacheIface2', methods={'get': Meth(ret=Val, raises=True), 'get_or_compute': Meth(ret=Val, raises=True)})
CacheIface = Iface('CacheIface', methods={'subcache': Meth(ret=_sub_cache), 'get': Meth(ret=Val, raises=True),
                                          'get_or_compute': Meth(ret=Val, raises=True)})
ObjIface = Iface('ObjIface', props={'cache': Prop(Abs(CacheIface, 'obj.cache'))})
MethodIface = Iface('MethodIface', props={'__name__': Prop(Str), '__sig_params__': Prop(Seq(Tup(Str, SigParamV)))},
                    methods={'__call__': Meth(ret=Val, raises=True)})


def bind_step(kw, it, args):
    """one step of the positional-to-keyword normalisation (frozen): parameter i (0 is self) takes the (i-1)-th
    positional argument if there is one, else its default if it has one and no keyword was given"""
    i, pair = it
    arg, parameter = pair
    if i == 0:
        return kw
    kw2 = dict(kw)
    if i - 1 < len(args):
        kw2[arg] = args[i - 1]
    if parameter.default is not None and arg not in kw2:
        kw2[arg] = parameter.default
    return kw2


def bound_kwargs(method, args, kw0):
    return seq_fold(lambda kw, it: bind_step(kw, it, args), kw0, enumerate(method.__sig_params__.items() if False else method.__sig_params__))


def cache_key_of(self, method, args, kw0):
    bound = bound_kwargs(method, args, kw0)
    key_kwargs = {k: v for k, v in bound.items() if k not in self.ignore_params}
    return orig_json.dumps(key_kwargs, sort_keys=True)


def c16_inv(done, kwargs, old_kw, args):
    return same_map(kwargs, seq_fold(lambda kw, it: bind_step(kw, it, args), old_kw, done))


def subcache_name_of(self, method):
    if self.version is not None:
        return f'{method.__name__}.{self.version}'
    return method.__name__


def c16_subcache(self, method, trace):
    """with the object's own cache the entry lives in the sub-cache named after the method (and version)"""
    return trace.count('subcache') == 1 and trace.arg('subcache', 0) == subcache_name_of(self, method)


def c16_only_cache(self, method, args, old_kw, only_cache, trace, result):
    """only_cache: a pure lookup under the call's key; nothing is computed"""
    return (not only_cache) or (trace.count('get') == 1 and not trace.has('get_or_compute') and not trace.has('__call__')
                                and trace.arg('get', 0) == cache_key_of(self, method, args, old_kw) and result == trace.ret('get'))


def c16_compute(self, method, args, old_kw, only_cache, force_cache, trace, result):
    """otherwise get_or_compute under the call's key with force=force_cache; the method is not called here"""
    return only_cache or (trace.count('get_or_compute') == 1 and not trace.has('get')
                          and trace.arg('get_or_compute', 0) == cache_key_of(self, method, args, old_kw)
                          and trace.arg('get_or_compute', 2) == force_cache and result == trace.ret('get_or_compute'))


def c16_canary(trace):
    return trace.has('get')


def cached_obj():
    return Obj('taskchain.cache:cached', cache_object=Const(None), key=Const(None), cache_attr=Const('cache'),
               ignore_params=S(Seq(Str), 'ignore'), version=S(Opt(Str), 'version'))


def _native_decorated(values):
    """replays: the real closure, built by the real cached.__call__ around a real method with the declared signature"""
    raise NotImplementedError


CONTRACTS += [
    Contract(
        id='C16.decorated', feas_ms=300, target='taskchain.cache:cached.__call__.<decorated>', props={'C16': 'decisive'},
        inputs={'self': cached_obj(), 'method': Abs(MethodIface, 'method'), 'obj': Abs(ObjIface, 'obj'),
                'args': S(Seq(Val), 'args'), 'kw': SymDict(Str, Val, 'kwargs'),
                'force_cache': S(Bool, 'force_cache'), 'only_cache': S(Bool, 'only_cache'),
                'store': Cls('taskchain.cache:NO_VALUE')},
        call=['obj'], star='args', starstar='kw', kwargs={'force_cache': 'force_cache', 'only_cache': 'only_cache', 'store_cache_value': 'store'},
        closure_vars={'self': 'self', 'method': 'method'},
        ensures={'subcache': 'c16_subcache', 'only_cache': 'c16_only_cache', 'compute': 'c16_compute'},
        loops={0: Loop('c16_inv', vars={'i': Int, 'arg': Str, 'parameter': SigParamV}, cells={'kwargs': Map(Str, Val)})},
        canary='c16_canary', l0=['A-inspect', 'A-json', 'A-dict'], searchable=False, may_raise=['Opaque'],
    ),
]


# ------------------------------------------------------------------------------------------------
# InMemoryCache (C14 / C16: the cache behind `cached` methods when nothing else is configured)
# ------------------------------------------------------------------------------------------------
from pyvc.prims import all_of, any_of, same_map


def mem_obj():
    # per-thread tables; one thread (A-thread): this thread's table is the entry under get_ident() == 0
    return Obj('taskchain.cache:InMemoryCache', _memory=DictOf({0: SymDict(Str, Opt(Val), 'memory')}))


def mem_goc(self, old_self, key, force, result, trace):
    """a stored value - whatever it is, None included - is returned without computing; otherwise (or when forced) the computer
    runs exactly once, its value is stored under exactly this key and returned; every other entry is untouched"""
    old = old_self._memory[0]
    new = self._memory[0]
    hit = key in old and not force
    others = all(k == key or (k in new and new[k] == old[k]) for k in old)
    if trace.count('computer') == 0:
        return all_of(hit, result == old[key], same_map(new, old))
    return all_of(not hit, trace.count('computer') == 1, result == trace.ret('computer'), key in new, new[key] == result, others,
                  len(new) == len(old) + (0 if key in old else 1))


def mem_goc_raise(self, old_self, trace):
    """a raising computer stores nothing"""
    return trace.count('computer') == 1 and same_map(self._memory[0], old_self._memory[0])


CONTRACTS += [
    Contract(id='C14.mem.get_or_compute', target='taskchain.cache:InMemoryCache.get_or_compute', props={'C14': 'decisive', 'C16': 'supporting'},
             inputs={'self': mem_obj(), 'key': S(Str, 'key'), 'computer': Fn('computer', [], Opt(Val), may_raise=True, functional=False), 'force': S(Bool, 'force')},
             ensures={'stored_or_computed_once': 'mem_goc'}, ensures_raise={'raising_computer': 'mem_goc_raise'},
             l0=['A-dict', 'A-thread'], searchable=False),
]
