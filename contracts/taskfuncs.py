"""task.py: the other Task methods the properties depend on (run-argument binding, result processing,
forcing, inspection)."""
from pyvc.dsl import *
from pyvc.kinds import Sym
from contracts.taskdata import DataIface, DataClassIface, ConfigIface, LoggerIface, Val, TypeU, _new_data

PlainVal = Val
SigParam = Rec('SigParam', {'default': Opt(U('Default'))})      # inspect.Parameter: None <-> Parameter.empty


# ------------------------------------------------------------------------------------------------
# Task._get_run_arguments   (C01.args.by_name, C04.args.only_declared, C19.same_args)
# ------------------------------------------------------------------------------------------------
def _input_isinstance(ex, ref, key):
    # an entry of the input registry is a Task (its value is requested) or a plain default of an optional input
    if key == 'taskchain.task:Task':
        return True
    return key in ('builtins.object',)


def _value_prop(ex, ref):
    """input_task.value : requests the upstream value (an event) -- a function of the input's name"""
    from pyvc.values import Event
    cell = ex.run.cell(ref)
    ex.run.trace.append(Event('input.value', None, [cell.fields['name']], 'ret'))
    return cell.fields['val']


InputTaskIface = Iface('InputTaskIface', props={'name': Prop(Str), 'val': Prop(PlainVal),
                                                'value': Prop(fn=_value_prop, native=lambda stub: stub._touch())},
                       isinstance=_input_isinstance)


def _inputs_contains(ex, ref, args):
    from pyvc import pyops as P
    import z3
    f = P.ufn('in_inputs', [z3.StringSort()], z3.BoolSort())
    return Sym(Bool, f(P.str_t(ex, args[0])))


def _inputs_getitem(ex, ref, args):
    """input_tasks[name]: a Task (whose .value is then requested) or the default of an optional input"""
    from pyvc import pyops as P
    from pyvc.values import AbstractObj
    from pyvc.contracts import IfaceRT
    import z3
    a = P.str_t(ex, args[0])
    is_task = P.ufn('input_is_task', [z3.StringSort()], z3.BoolSort())(a)
    val = Sym(PlainVal, P.ufn('input_val', [z3.StringSort()], PlainVal.sort())(a))
    if ex.run.decide(is_task, tag='input_is_task'):
        ao = AbstractObj(IfaceRT(InputTaskIface, ex.contracts), 'input')
        ao.fields['name'] = args[0]
        ao.fields['val'] = val
        return ex.run.alloc(ao)
    return val


def _params_contains(ex, ref, args):
    from pyvc import pyops as P
    import z3
    return Sym(Bool, P.ufn('in_params', [z3.StringSort()], z3.BoolSort())(P.str_t(ex, args[0])))


def _params_getitem(ex, ref, args):
    from pyvc import pyops as P
    import z3
    return Sym(PlainVal, P.ufn('param_val', [z3.StringSort()], PlainVal.sort())(P.str_t(ex, args[0])))


class _NativeInputs:
    """native twin of the input registry for replays: a dict of name -> task stub | plain default"""

    def __init__(self, name, source, log, fields):
        self.source, self.log = source, log
        self.table = {}

    def _entry(self, name):
        if name not in self.table:
            present = bool(self.source(f'in_inputs[{name}]', Bool))
            is_task = bool(self.source(f'input_is_task[{name}]', Bool))
            val = self.source(f'input_val[{name}]', PlainVal)
            self.table[name] = (present, is_task, val)
        return self.table[name]

    def __contains__(self, name):
        return self._entry(name)[0]

    def __getitem__(self, name):
        present, is_task, val = self._entry(name)
        if is_task:
            return _NativeInputTask(name, val, self.log)
        return val

    def peek(self, name):
        return self._entry(name)


_native_task_cls = []


def _NativeInputTask(name, val, log):
    """a real Task instance (isinstance(x, Task) is the real test) whose .value is the scripted upstream value"""
    if not _native_task_cls:
        from taskchain.task import Task

        class ReplayInputTask(Task):
            def __init__(self, name, val, log):      # no Task.__init__: nothing of it is needed
                self._name, self.val, self._log = name, val, log

            @property
            def value(self):
                self._log.append(('input.value', (self._name,), self.val, 'ret'))
                return self.val

            def run(self):
                pass
        _native_task_cls.append(ReplayInputTask)
    return _native_task_cls[0](name, val, log)


class _NativeParams:
    def __init__(self, name, source, log, fields):
        self.source = source
        self.table = {}

    def _entry(self, name):
        if name not in self.table:
            self.table[name] = (bool(self.source(f'in_params[{name}]', Bool)), self.source(f'param_val[{name}]', PlainVal))
        return self.table[name]

    def __contains__(self, name):
        return self._entry(name)[0]

    def __getitem__(self, name):
        return self._entry(name)[1]


InputsIface = Iface('InputsIface', methods={'__contains__': Meth(ret=_inputs_contains, event=False),
                                            '__getitem__': Meth(ret=_inputs_getitem, event=False)},
                    native_factory=lambda name, source, log, fields: _NativeInputs(name, source, log, fields))
ParamsIface = Iface('ParamsRegIface', methods={'__contains__': Meth(ret=_params_contains, event=False),
                                               '__getitem__': Meth(ret=_params_getitem, event=False)},
                    native_factory=lambda name, source, log, fields: _NativeParams(name, source, log, fields))


# spec: the value bound to one run parameter
def in_inputs(self, a):
    return a in self._input_tasks


def in_params(self, a):
    return a in self.parameters


def gra_sig_ok(run_sig):
    """run parameters have distinct names (python guarantees it)"""
    return True


def arg_value(self, a):
    """the value bound to the run parameter named a: the input of that name if there is one, else the parameter"""
    if in_inputs(self, a):
        return bound_input(self, a)
    return self.parameters[a]


def arg_ok(self, a, p):
    return p.default is None and in_inputs(self, a) != in_params(self, a)


def bound_input(self, a):
    x = self._input_tasks[a]
    if isinstance(x, _task_class()):
        return x.val
    return x


def _task_class():
    from taskchain.task import Task
    return Task


def gra_result(self, run_sig, result):
    """C01: the tuple handed to run is, per declared run parameter in order, the value of the input of that
    name if there is one, else the value of the parameter of that name"""
    return result == [arg_value(self, a) for a, p in run_sig] and all(arg_ok(self, a, p) for a, p in run_sig)


def gra_only_declared(arg, trace):
    """C04: while binding run parameter `arg`, an upstream value is requested at most once, and only for `arg`"""
    return trace.count('input.value') <= 1 and (trace.count('input.value') == 0 or trace.arg('input.value', 0) == arg)


def gra_raises(self, run_sig, raised):
    """an argument found neither / in both registries is a KeyError; a run parameter with a default an AttributeError"""
    return (raised == 'AttributeError' and any(p.default is not None for a, p in run_sig)) or \
           (raised == 'KeyError' and any(in_inputs(self, a) == in_params(self, a) for a, p in run_sig))


def gra_inv(self, done, args):
    return args == [arg_value(self, a) for a, p in done] and all(arg_ok(self, a, p) for a, p in done)


def gra_canary(result):
    return len(result) == 0


def _native_run_sig(values, patches, source, log):
    """replays: give Task.run the declared signature (inspect.signature is the real one)"""
    from pyvc.native import HarnessGap
    from taskchain.task import Task
    names = [a for a, p in values['run_sig']]
    if len(set(names)) != len(names) or not all(isinstance(a, str) and a.isidentifier() and a != 'self' for a in names):
        raise HarnessGap('not a python signature')
    seen_default = False
    parts = []
    for a, p in values['run_sig']:
        if p.default is not None:
            seen_default = True
            parts.append(f'{a}=None')
        elif seen_default:
            parts.append(f'*, {a}' if '*' not in ''.join(parts) else a)
        else:
            parts.append(a)
    ns = {}
    try:
        exec(f"def run(self{''.join(', ' + p for p in parts)}):\n    return None", ns)
    except SyntaxError:
        raise HarnessGap('not a python signature')
    patches.set(Task, 'run', ns['run'])


CONTRACTS = [
    Contract(
        id='T.run_args', target='taskchain.task:Task._get_run_arguments',
        props={'C01': 'decisive', 'C04': 'decisive', 'C19': 'supporting'},
        inputs={'run_sig': S(Seq(Tup(Str, SigParam)), 'run_sig'),
                'self': Obj('taskchain.task:Task', _input_tasks=Abs(InputsIface, 'inputs'), parameters=Abs(ParamsIface, 'parameters'),
                            fullname=S(Str, 'fullname'))},
        call=['self'],
        signatures={'taskchain.task:Task.run': 'run_sig'}, native_setup=_native_run_sig,
        ensures={'by_name': 'gra_result'}, ensures_raise={'raises': 'gra_raises'},
        loops={0: Loop('gra_inv', cells={'args': Seq(PlainVal)},
                       vars={'arg': Str, 'parameter': SigParam}, step={'only_declared': 'gra_only_declared'})},
        clause_props={'by_name': ['C01', 'C19'], 'raises': ['C01', 'C19'], 'only_declared': ['C04']},
        canary='gra_canary', l0=['A-inspect'],
    ),
]


# ------------------------------------------------------------------------------------------------
# Task._process_run_result  (C05.typecheck_before_save, C06.same_as_computed)
# ------------------------------------------------------------------------------------------------
def _dt_issubclass(ex, ref, key):
    cell = ex.run.cell(ref)
    if key == 'taskchain.data:Data':
        return ex.run.decide(cell.fields['is_data_subclass'].t, tag='data_type_is_Data')
    if key == 'taskchain.data:InMemoryData':
        return ex.run.decide(cell.fields['is_inmemory'].t, tag='data_class_is_InMemory')
    return False


def _dt_instancecheck(ex, ref, args):
    import z3
    from pyvc import pyops as P
    return Sym(Bool, P.ufn('accepts', [Val.sort()], z3.BoolSort())(P.lift(ex, args[0], Val)))


def _native_type(name, source, log, fields):
    """a real class: `accepts` decides isinstance through __instancecheck__"""
    is_class = bool(source(f'{name}.__isclass__', Bool))
    is_data = bool(source(f'{name}.is_data_subclass', Bool))
    is_inmem = bool(source(f'{name}.is_inmemory', Bool))
    from taskchain.data import Data, InMemoryData

    class Meta(type):
        def __instancecheck__(cls, v):
            return bool(source(f'accepts[{v}]', Bool))
    base = (InMemoryData,) if is_inmem else ((Data,) if is_data else ())
    cls = Meta('ReplayType', base, {})
    if not is_class:
        # a typing construct (not a class): isinstance raises TypeError on those; the contract's precondition excludes it
        pass
    return cls


TypeIface = Iface('TypeIface', props={'__isclass__': Prop(Bool), 'is_data_subclass': Prop(Bool), 'is_inmemory': Prop(Bool)},
                  methods={'__instancecheck__': Meth(ret=_dt_instancecheck, event=False)},
                  isinstance=_dt_issubclass, native_factory=_native_type)

TypeIfaceD = Iface('TypeIfaceD', props={'__isclass__': Prop(Bool), 'is_data_subclass': Prop(Bool), 'is_inmemory': Prop(Bool),
                                        'accepts_result': Prop(Bool)},
                   methods={'__instancecheck__': Meth(ret=lambda ex, ref, args: ex.run.cell(ref).fields['accepts_result'], event=False)},
                   isinstance=_dt_issubclass)

MetaGetIface = Iface('MetaGetIface', props={'ignore_mismatch': Prop(Bool)},
                     methods={'get': Meth(ret=lambda ex, ref, args: ex.run.cell(ref).fields['ignore_mismatch'], event=False,
                                          native=lambda stub, key, default=None: stub.ignore_mismatch if key == 'ignore_return_type_mismatch' else default)})


def prr_is_class(self):
    """data_type is a class (typing constructs are resolved to their origin by MetaTask.data_type); tasks whose
    declared type is itself a Data class are covered by T.process_run_result.data"""
    return self.data_type.__isclass__ and not self.data_type.is_data_subclass


def prr_is_data_class(self):
    return self.data_type.__isclass__ and self.data_type.is_data_subclass and self.data_type.accepts_result


def prr_data_result(self, run_result, trace):
    """a run that returns its data object: that object becomes the task's data, is given this task's location,
    and is saved iff persisting"""
    return self._data is run_result and trace.count('_init_persistence') == 1 and not trace.has('set_value')


def prr_save_only_after_typecheck(self, run_result, trace):
    """C05: nothing is stored unless the result passed the type test (or the mismatch is explicitly ignored for
    an in-memory task); the value stored is what run returned"""
    return (not trace.has('set_value')) or trace.arg('set_value', 0) == run_result


def prr_mistyped_stores_nothing(self, raised, trace):
    """a rejected result (ValueError) reaches neither set_value nor save"""
    return raised != 'ValueError' or (not trace.has('set_value') and not trace.has('save'))


def prr_saved_iff_persisting(self, trace):
    return trace.count('save') <= 1 and ((not trace.has('save')) or trace.index('save') > trace.last_index('set_value'))


def prr_stored_iff_persisting(self, trace):
    """C05 / C06 / C07: on success a persisting data object is saved exactly once - whether or not a stored result already
    exists (a forced recomputation replaces it) - and a non-persisting one never"""
    return trace.count('save') == (1 if self._data.is_persisting else 0)


def prr_value_set(self, trace, run_result):
    """C06: on success the data object holds the run result (set_value(run_result), or the result is itself the data object)"""
    return (trace.count('set_value') == 1 and trace.arg('set_value', 0) == run_result) or \
           (trace.count('set_value') == 0 and trace.has('isinstance_Data'))


PRR_CALLEES = {
    'taskchain.utils.clazz:isinstance': ByContract(ret=Bool, pure=True),
    'taskchain.utils.clazz:fullname': ByContract(ret=Str, pure=True),
    'taskchain.task:Task._init_persistence': ByContract(event='_init_persistence', pure=False),
}


def prr_task():
    return Obj('taskchain.task:Task', _data=Abs(DataIface, 'data'), data_type=Abs(TypeIface, 'data_type'),
               data_class=Abs(TypeIface, 'data_class'), meta=Abs(MetaGetIface, 'meta'), _config=Abs(ConfigIface, 'config'),
               fullname=S(Str, 'fullname'), slugname=S(Str, 'slugname'))


# ------------------------------------------------------------------------------------------------
# Task.force, inspection entry points (C07, C04.inspect.no_run)
# ------------------------------------------------------------------------------------------------
DataIfaceD = Iface('DataIfaceD', props=dict(DataIface.props, path=Prop(PathK), log=Prop(Opt(Seq(Str)))),
                   methods=dict(DataIface.methods, delete=Meth(raises=True), load_run_info=Meth(ret=U('Info'))))


def _new_data_d(ex, ref, args):
    from pyvc.contracts import InputBuilder
    from pyvc import dsl as d
    return InputBuilder(ex, ex.contracts)._build(d.Abs(DataIfaceD, 'data', persisting=d.Const(False)), 'data')


def _native_data_class_d(name, source, log, fields):
    from pyvc.native import Stub
    is_inmem = bool(source(f'{name}.is_inmemory', Bool))
    from taskchain.data import InMemoryData

    class Meta(type):
        def __call__(cls, *a, **k):
            log.append(('__call__', (), None, 'ret'))
            return Stub(DataIfaceD, 'data', source, log, {'persisting': False})
    return Meta('ReplayDataClass', (InMemoryData,) if is_inmem else (), {})


DataClassIfaceD = Iface('DataClassIfaceD', props={'__sig_len__': Prop(Int), '__isabstract__': Prop(Bool), 'is_inmemory': Prop(Bool)},
                        methods={'__call__': Meth(ret=_new_data_d, event=True)}, isinstance=_dt_issubclass,
                        native_factory=_native_data_class_d)


def insp_task(data=None):
    from contracts.taskdata import LoggerIface, ParamsReprIface
    return Obj('taskchain.task:Task', _data=data if data is not None else Const(None), _forced=S(Bool, 'forced'),
               _config=Abs(ConfigIface, 'config'), data_class=Abs(DataClassIfaceD, 'data_class'), data_type=S(TypeU, 'data_type'),
               logger=Abs(LoggerIface, 'logger'), params=Abs(ParamsReprIface, 'params'),
               fullname=S(Str, 'fullname'), slugname=S(Str, 'slugname'))


def has_base_dir(self):
    return self._config.base_dir is not None


def runs_nothing(trace):
    """C04: inspection neither runs nor loads nor stores anything and requests no upstream value"""
    return not trace.has('run') and not trace.has('load') and not trace.has('save') and not trace.has('set_value') \
        and not trace.has('_get_run_arguments') and not trace.has('input.value') and not trace.has('delete') \
        and not trace.has('_process_run_result')


def force_post(self, result, delete_data, trace):
    """C07: the task is forced and its in-memory result dropped; with delete_data the stored result of exactly
    this task is deleted if there is one; nothing runs"""
    return self._forced and self._data is None and result is self and not trace.has('run') and not trace.has('load') \
        and (trace.count('delete') == (1 if (delete_data and trace.has('exists') and trace.ret('exists')) else 0))


def force_raise(raised, trace):
    return trace.has('delete') or raised == 'ValueError'


from contracts.taskdata import CALLEES as DATA_CALLEES

CONTRACTS += [
    Contract(
        id='T.process_run_result', target='taskchain.task:Task._process_run_result',
        props={'C05': 'decisive', 'C06': 'decisive', 'C07': 'supporting'},      # C07: a (forced) run REPLACES the stored result
        inputs={'self': prr_task(), 'run_result': S(Val, 'run_result')},
        requires=['prr_is_class'], callees=PRR_CALLEES,
        ensures={'value_set': 'prr_value_set', 'stored_iff_persisting': 'prr_stored_iff_persisting'},
        ensures_all={'save_only_after_typecheck': 'prr_save_only_after_typecheck', 'mistyped_stores_nothing': 'prr_mistyped_stores_nothing',
                     'saved_after_set': 'prr_saved_iff_persisting'},
        clause_props={'value_set': ['C06'], 'save_only_after_typecheck': ['C05', 'C06'], 'mistyped_stores_nothing': ['C05'],
                      'saved_after_set': ['C05', 'C07'], 'stored_iff_persisting': ['C05', 'C06', 'C07']},
        searchable=False,
    ),
    Contract(
        id='T.process_run_result.data', target='taskchain.task:Task._process_run_result',
        props={'C05': 'supporting', 'C06': 'decisive'},
        inputs={'self': Obj('taskchain.task:Task', _data=Abs(DataIface, 'data'), data_type=Abs(TypeIfaceD, 'data_type'),
                            data_class=Abs(TypeIfaceD, 'data_class'), meta=Abs(MetaGetIface, 'meta'), _config=Abs(ConfigIface, 'config'),
                            fullname=S(Str, 'fullname'), slugname=S(Str, 'slugname')),
                'run_result': Abs(DataIface, 'result_data')},
        requires=['prr_is_data_class'], callees=PRR_CALLEES,
        ensures={'data_result': 'prr_data_result'}, ensures_all={'saved_after_set': 'prr_saved_iff_persisting'},
        searchable=False,
    ),
    Contract(
        id='T.force', target='taskchain.task:Task.force', props={'C07': 'decisive', 'C04': 'supporting'},
        inputs={'self': insp_task(), 'delete_data': S(Bool, 'delete_data')}, requires=['has_base_dir'],
        callees=DATA_CALLEES, ensures={'post': 'force_post'}, ensures_raise={'only_delete_may_fail': 'force_raise'},
        clause_props={'post': ['C07'], 'only_delete_may_fail': ['C07']},
    ),
    Contract(
        id='T.force.memo', target='taskchain.task:Task.force', props={'C07': 'decisive'},
        inputs={'self': insp_task(data=Abs(DataIfaceD, 'data')), 'delete_data': S(Bool, 'delete_data')}, requires=['has_base_dir'],
        callees=DATA_CALLEES, ensures={'post': 'force_post'}, may_raise=['Opaque', 'ValueError'],
    ),
]
for _name in ['has_data', 'data_path', 'run_info', 'log', '_data_without_value']:
    for _variant, _data in [('', None), ('.memo', Abs(DataIfaceD, 'data'))]:
        CONTRACTS.append(Contract(
            id=f'T.inspect.{_name}{_variant}', target=f'taskchain.task:Task.{_name}', props={'C04': 'decisive'},
            inputs={'self': insp_task(data=_data)}, requires=['has_base_dir'], callees=DATA_CALLEES,
            ensures_all={'runs_nothing': 'runs_nothing'}))
