"""utils/migration.py (C20) and utils/testing.py (C19)."""
from pyvc.dsl import *
from pyvc.prims import all_of, any_of, same_map

TaskU = U('MTask')
DataClsU = U('DataCls')
ParamsU = U('MParams')
U_ATTRS = {'MTask': {'fullname': Str, 'has_data': Bool, 'data_path': PathK, 'data_class': DataClsU, 'name_for_persistence': Str, 'params': ParamsU},
           'DataCls': {'is_inmemory': Bool}, 'MParams': {'repr': Opt(Str)}}
U_ISSUBCLASS = {'DataCls': {'taskchain.data:InMemoryData': 'is_inmemory'}}


# ------------------------------------------------------------------------------------------------
# migrate_to_parameter_mode
# ------------------------------------------------------------------------------------------------
# chain.tasks: name -> task object.  Several names may map to ONE object (parameter mode shares identical computations
# mounted under different namespaces), so the chains are paired by the names of chain.tasks, not by task.fullname (F20b)
OldChainIface = Iface('MOldChainIface', props={'tasks': Prop(Map(Str, TaskU))})
NewChainIface = Iface('MNewChainIface', props={'tasks': Prop(Map(Str, TaskU))})


def _old_chain(ex, ref, args):
    return ex.run.cell(ref).fields['old_chain']


def _new_chain(ex, ref, args):
    return ex.run.cell(ref).fields['new_chain']


MigConfigIface = Iface('MigConfigIface',
                       props={'base_dir': Prop(PathK), '_filepath': Prop(Str), 'global_vars': Prop(U('GV')), 'context': Prop(U('Ctx')),
                              'old_chain': Prop(Abs(OldChainIface, 'old_chain')), 'new_chain': Prop(Abs(NewChainIface, 'new_chain'))},
                       methods={'chain': Meth(ret=_old_chain, event=False)})
NewConfigIface = Iface('NewConfigIface', props={'new_chain': Prop(Abs(NewChainIface, 'new_chain2'))}, methods={'chain': Meth(ret=_new_chain, event=False)})


def _config_ctor(ex, cv, args, kwargs):
    """Config(target_dir, config._filepath, ...): the parameter-mode config of the same file on the target directory"""
    from pyvc.contracts import InputBuilder
    from pyvc import dsl as d
    vals = ex.run.ghost['_input_values']
    cfg = ex.run.cell(vals['config'])
    ao = InputBuilder(ex, ex.contracts)._build(d.Abs(NewConfigIface, 'new_config'), 'new_config')
    ex.run.cell(ao).fields['new_chain'] = cfg.fields['new_chain']
    ex.run.trace.append(__import__('pyvc.values', fromlist=['Event']).Event('Config', None, list(args), 'ret'))
    return ao


def mig_pre(config, target_dir):
    """both chains are built from the same config file: the new chain has an entry for every task name of the old one"""
    return all(n in config.new_chain.tasks for n in config.old_chain.tasks)


def mig_target(config, target_dir, trace):
    """the parameter-mode chain is built on the target directory from the same file"""
    return trace.count('Config') == 1 and trace.arg('Config', 0) == target_dir and trace.arg('Config', 1) == config._filepath


def mig_step(name, old_task, new_chain, dry, trace, fs, fs_iter0):
    """per task: the stored result is copied from the old location to the new one exactly when the old chain has it,
    the new one does not and this is not a dry run; nothing is ever written anywhere else"""
    new_task = new_chain[name]
    must = (not old_task.data_class.is_inmemory) and old_task.has_data and (not new_task.has_data) and (not dry)
    copies = trace.count('fs.copyfile') + trace.count('fs.copytree')
    return all_of(copies == (1 if must else 0),
                  fs.same_except(fs_iter0, new_task.data_path),
                  (not must) or (fs.content(new_task.data_path) == fs_iter0.content(old_task.data_path) and fs.complete(new_task.data_path)),
                  must or fs.same_at(fs_iter0, new_task.data_path))


def mig_inv(config, dry, fs, fs_loop0):
    """a dry run leaves the file system as it was; a real one writes nothing but result paths of the new chain"""
    return all_of((not dry) or fs.same_except(fs_loop0),
                  fs.same_outside(fs_loop0, [config.new_chain.tasks[n].data_path for n in config.new_chain.tasks]))


def mig_frame(config, fs, fs0):
    """nothing but result paths of the parameter-mode chain is ever written: the source directory (and everything else)
    stays as it was"""
    return fs.same_outside(fs0, [config.new_chain.tasks[n].data_path for n in config.new_chain.tasks])


def mig_dry(dry, fs, fs0):
    """dry=True: nothing on disk changes"""
    return (not dry) or fs.same_except(fs0)


CONTRACTS = [
    Contract(
        id='C20.migrate', target='taskchain.utils.migration:migrate_to_parameter_mode', props={'C20': 'decisive'},
        inputs={'config': Abs(MigConfigIface, 'config'), 'target_dir': S(PathK, 'target_dir'), 'dry': S(Bool, 'dry'), 'verbose': Const(False)},
        requires=['mig_pre'], constructors={'taskchain.config:Config': _config_ctor},
        ensures={'target': 'mig_target', 'dry_pure': 'mig_dry', 'frame': 'mig_frame'},
        loops={0: Loop('mig_inv', vars={'name': Str, 'old_task': TaskU, 'new_task': TaskU}, fs=True, step={'copy_exact': 'mig_step'})},
        crash_invariant={}, may_raise=['AssertionError', 'FileNotFoundError', 'FileExistsError', 'SameFileError', 'KeyError'], l0=['A-fs', 'A-dict'], searchable=False,
        feas_ms=250,
    ),
]


# ------------------------------------------------------------------------------------------------
# utils/testing.py  (C19): TestChain._create_tasks, _prepare, MockTask, create_test_task
# ------------------------------------------------------------------------------------------------
import z3 as _z3
TClsU = U('TCls')           # a task class given to the helper
HTaskU = U('HTask')         # a task object of the helper chain (real task or mock)
MockValU = U('MockVal')     # a value supplied for a mocked task
U_ATTRS.update({'TCls': {'created': HTaskU},                       # the object Chain._create_task(cls, chain.config) returns
                'HTask': {'is_mock': Bool, 'mock_value': MockValU},
                'MockVal': {'as_mock': HTaskU}})
U_PURE_METHODS = {'TCls': {'fullname': Str}}                        # task_class.fullname(chain.config)


def _mock_ctor(ex, cv, args, kwargs):
    """MockTask(value): an object whose is_mock flag is set and whose supplied value is `value` (MockTask.__init__ and
    .value are under contract C19.mock.*)"""
    from pyvc import pyops as P_
    v = args[0]
    t = P_.getattr_(ex, v, 'as_mock')
    ex.run.axiom(_z3.And(P_.getattr_(ex, t, 'is_mock').t, P_.getattr_(ex, t, 'mock_value').t == v.t))
    return t


def create_spec(task_class, config, task_registry):
    return task_class.created


def create_post(task_class, config, task_registry, result):
    """what _create_task makes is a task of the given class, not a mock"""
    return not result.is_mock


TestCfgIface = Iface('TestCfgIface', props={'name': Prop(Str)})


def test_chain_obj():
    return Obj('taskchain.utils.testing:TestChain', _tasks=SymList(TClsU, 'given_classes'), _mock_tasks=SymDict(Str, MockValU, 'mocks'),
               config=Abs(TestCfgIface, 'test_config'))


def given_tasks(self):
    """the tasks of the given classes: full name -> what Chain._create_task(cls, chain.config) makes; a later class of the
    same full name replaces an earlier one"""
    return {c.fullname(self.config): c.created for c in self._tasks}


def ctk_inv0(self, done, tasks):
    cfg = self.config
    return same_map(tasks, {c.fullname(cfg): c.created for c in done})


def ctk_inv1(self, done, tasks, k, xs):
    """mocks are entered over whatever is there: every mock so far is in place under its name; every other entry is the
    given class's task, and every given class's name still has an entry"""
    t0 = given_tasks(self)
    return all_of(all(xs[i][0] in tasks and tasks[xs[i][0]] == xs[i][1].as_mock for i in range(k)),
                  all(any_of(n in self._mock_tasks, n in t0 and tasks[n] == t0[n]) for n in tasks),
                  all(n in tasks for n in t0))


def ctk_mocks(self, result):
    """every mocked name maps to the object MockTask(supplied value) - also when a given class has that name
    (MockTask.__init__ / .value are under contract C19.mock.*: that object returns exactly the supplied value)"""
    return all(m in result and result[m] == v.as_mock for m, v in self._mock_tasks.items())


def ctk_real(self, result):
    """every given class that is not mocked is in the chain under its full name, as the task _create_task makes (the
    constructor path of a real chain); every given name has an entry; nothing else is in the chain"""
    t0 = given_tasks(self)
    return all_of(all(n in result for n in t0),
                  all(any_of(n in self._mock_tasks, n in t0 and result[n] == t0[n]) for n in result))


def ctk_canary(self, result):
    return len(result) == 0


def mock_value_post(self, result, trace):
    """a mocked task returns the supplied value; nothing runs, nothing is loaded or stored"""
    return result == self._value and trace.length == 0


def mock_init_post(self, value, trace):
    return self._value == value and trace.count('Task.__init__') == 1


def prep_order(self, trace):
    """construction: the config is processed, tasks are created, THEN dependencies of exactly those tasks are processed
    (a missing input is reported here, i.e. while the helper is being constructed), then graph and objects"""
    return all_of(trace.count('_process_config') == 1, trace.count('_create_tasks') == 1, trace.count('_process_dependencies') == 1,
                  trace.index('_process_config') < trace.index('_create_tasks'),
                  trace.index('_create_tasks') < trace.index('_process_dependencies'),
                  trace.arg('_process_dependencies', 0) == trace.ret('_create_tasks'),
                  self.tasks == trace.ret('_create_tasks'),
                  trace.index('_process_dependencies') < trace.index('_build_graph'),
                  trace.index('_build_graph') < trace.index('_init_objects'))


TasksMapU = U('TasksMap')

CONTRACTS += [
    Contract(
        id='C19.create_tasks', target='taskchain.utils.testing:TestChain._create_tasks', props={'C19': 'decisive'},
        inputs={'self': test_chain_obj()},
        callees={'taskchain.chain:Chain._create_task': ByContract(spec='create_spec', post='create_post')},
        constructors={'taskchain.utils.testing:MockTask': _mock_ctor},
        loops={0: Loop('ctk_inv0', vars={'task_class': TClsU, 'task': HTaskU}, cells={'tasks': Map(Str, HTaskU)}),
               1: Loop('ctk_inv1', vars={'mock_task': Str, 'value': MockValU, 'name': Str}, cells={'tasks': Map(Str, HTaskU)})},
        ensures={'mocks_supplied': 'ctk_mocks', 'real_created': 'ctk_real'}, canary='ctk_canary', l0=['A-dict'], searchable=False,
    ),
    Contract(
        id='C19.mock.value', target='taskchain.utils.testing:MockTask.value', props={'C19': 'decisive'},
        inputs={'self': Obj('taskchain.utils.testing:MockTask', _value=S(MockValU, 'value'))},
        ensures={'supplied': 'mock_value_post'}, crash_invariant={}, searchable=False,
    ),
    Contract(
        id='C19.mock.init', target='taskchain.utils.testing:MockTask.__init__', props={'C19': 'supporting'},
        inputs={'self': Obj('taskchain.utils.testing:MockTask'), 'value': S(MockValU, 'value')},
        callees={'taskchain.task:Task.__init__': ByContract(event='Task.__init__', pure=False)},
        ensures={'keeps_value': 'mock_init_post'}, searchable=False,
    ),
    Contract(
        id='C19.prepare', target='taskchain.utils.testing:TestChain._prepare', props={'C19': 'decisive'},
        inputs={'self': Obj('taskchain.utils.testing:TestChain', _base_config=S(U('BaseCfg'), 'base_config'))},
        callees={'taskchain.chain:Chain._process_config': ByContract(event='_process_config', pure=False),
                 'taskchain.utils.testing:TestChain._create_tasks': ByContract(ret=TasksMapU, event='_create_tasks', pure=False),
                 'taskchain.chain:Chain._process_dependencies': ByContract(event='_process_dependencies', pure=False),
                 'taskchain.chain:Chain._build_graph': ByContract(event='_build_graph', pure=False),
                 'taskchain.chain:Chain._init_objects': ByContract(event='_init_objects', pure=False)},
        ensures={'construction_order': 'prep_order'}, searchable=False,
    ),
]


# ------------------------------------------------------------------------------------------------
# TestChain.__init__ (C19): what the caller supplies is what the helper chain is built from - each argument in its own slot
# ------------------------------------------------------------------------------------------------
def tc_init_post(self, tasks, mock_tasks, parameters, base_dir, trace):
    """the given classes and mocks are kept as given; the helper's config is built once, from the supplied parameters (not from
    the mocks, not empty), named `test`, under the supplied directory; the chain is then constructed once, from that config"""
    return all_of(self._tasks == tasks, self._mock_tasks == mock_tasks,
                  trace.count('Config.__init__') == 1, trace.count('Chain.__init__') == 1,
                  trace.index('Config.__init__') < trace.index('Chain.__init__'),
                  trace.arg('Config.__init__', 0) == self.config, trace.arg('Config.__init__', 1) == base_dir,
                  trace.arg('Config.__init__', 2) is None, trace.arg('Config.__init__', 4) is None,       # no file, no context
                  trace.arg('Config.__init__', 5) == 'test', trace.arg('Config.__init__', 6) is None,     # named `test`, no namespace
                  trace.arg('Config.__init__', 7) == parameters,                                          # data = the supplied parameters
                  trace.arg('Chain.__init__', 0) == self, trace.arg('Chain.__init__', 1) == self.config)


def tc_init_none_post(self, tasks, base_dir, trace):
    """no mocks and no parameters given: an empty mock table and an empty parameter set - not None, not shared defaults"""
    return all_of(self._tasks == tasks, self._mock_tasks is not None and len(self._mock_tasks) == 0,
                  trace.arg('Config.__init__', 7) is not None and len(trace.arg('Config.__init__', 7)) == 0,
                  trace.arg('Config.__init__', 5) == 'test', trace.arg('Config.__init__', 1) == base_dir,
                  trace.arg('Chain.__init__', 1) == self.config, trace.arg('Config.__init__', 0) == self.config)


CONTRACTS += [
    Contract(
        id='C19.testchain.init', target='taskchain.utils.testing:TestChain.__init__', props={'C19': 'decisive'},
        inputs={'self': Obj('taskchain.utils.testing:TestChain'), 'tasks': SymList(TClsU, 'given_classes'),
                'mock_tasks': SymDict(Str, Dyn, 'mocks'),       # same kind as the parameters on purpose: handing the mocks to Config is then refutable
                'parameters': SymDict(Str, Dyn, 'parameters'), 'base_dir': S(PathK, 'base_dir')},
        callees={'taskchain.config:Config.__init__': ByContract(event='Config.__init__', pure=False),
                 'taskchain.chain:Chain.__init__': ByContract(event='Chain.__init__', pure=False)},
        ensures={'slots': 'tc_init_post'}, l0=['A-dict'], searchable=False,
    ),
    Contract(
        id='C19.testchain.init.defaults', target='taskchain.utils.testing:TestChain.__init__', props={'C19': 'decisive'},
        inputs={'self': Obj('taskchain.utils.testing:TestChain'), 'tasks': SymList(TClsU, 'given_classes'), 'mock_tasks': Const(None),
                'parameters': Const(None), 'base_dir': S(PathK, 'base_dir')},
        callees={'taskchain.config:Config.__init__': ByContract(event='Config.__init__', pure=False),
                 'taskchain.chain:Chain.__init__': ByContract(event='Chain.__init__', pure=False)},
        ensures={'empty_not_none': 'tc_init_none_post'}, l0=['A-dict'], searchable=False,
    ),
]
