"""utils/migration.py (C20) and utils/testing.py (C19)."""
from pyvc.dsl import *
from pyvc.prims import all_of, any_of

TaskU = U('MTask')
DataClsU = U('DataCls')
ParamsU = U('MParams')
U_ATTRS = {'MTask': {'fullname': Str, 'has_data': Bool, 'data_path': PathK, 'data_class': DataClsU, 'name_for_persistence': Str, 'params': ParamsU},
           'DataCls': {'is_inmemory': Bool}, 'MParams': {'repr': Opt(Str)}}
U_ISSUBCLASS = {'DataCls': {'taskchain.data:InMemoryData': 'is_inmemory'}}


# ------------------------------------------------------------------------------------------------
# migrate_to_parameter_mode
# ------------------------------------------------------------------------------------------------
TasksHolder = Iface('TasksHolder', props={'all': Prop(Seq(TaskU))}, methods={'values': Meth(field='all')})
OldChainIface = Iface('MOldChainIface', props={'tasks': Prop(Abs(TasksHolder, 'old_chain.tasks'))})
NewChainIface = Iface('MNewChainIface', props={'tasks': Prop(Abs(TasksHolder, 'new_chain.tasks'))})


def _old_chain(ex, ref, args):
    return ex.run.cell(ref).fields['old_chain']


def _new_chain(ex, ref, args):
    return ex.run.cell(ref).fields['new_chain']


MigConfigIface = Iface('MigConfigIface',
                       props={'base_dir': Prop(PathK), '_filepath': Prop(Str), 'global_vars': Prop(U('GV')), 'context': Prop(U('Ctx')),
                              'old_chain': Prop(Abs(OldChainIface, 'old_chain')), 'new_chain': Prop(Abs(NewChainIface, 'new_chain'))},
                       methods={'chain': Meth(ret=_old_chain, event=False)})
NewConfigIface = Iface('NewConfigIface', props={'new_chain': Prop(Abs(NewChainIface, 'new_chain2'))}, methods={'chain': Meth(ret=_new_chain, event=False)})


def _config_ctor(ex, cv, args, kwargs):
    """Config(target_dir, config._filepath, ...): the parameter-mode config of the same file on the target directory"""
    from pyvc.contracts import InputBuilder
    from pyvc import dsl as d
    vals = ex.run.ghost['_input_values']
    cfg = ex.run.cell(vals['config'])
    ao = InputBuilder(ex, ex.contracts)._build(d.Abs(NewConfigIface, 'new_config'), 'new_config')
    ex.run.cell(ao).fields['new_chain'] = cfg.fields['new_chain']
    ex.run.trace.append(__import__('pyvc.values', fromlist=['Event']).Event('Config', None, list(args), 'ret'))
    return ao


def mig_pre(config, target_dir):
    """both chains are built from the same config file: the new chain has a task for every name of the old one"""
    new_names = [t.fullname for t in config.new_chain.tasks.all]
    return all(t.fullname in new_names for t in config.old_chain.tasks.all)


def mig_target(config, target_dir, trace):
    """the parameter-mode chain is built on the target directory from the same file"""
    return trace.count('Config') == 1 and trace.arg('Config', 0) == target_dir and trace.arg('Config', 1) == config._filepath


def mig_step(name, old_task, new_chain, dry, trace, fs, fs_iter0):
    """per task: the stored result is copied from the old location to the new one exactly when the old chain has it,
    the new one does not and this is not a dry run; nothing is ever written anywhere else"""
    new_task = new_chain[name]
    must = (not old_task.data_class.is_inmemory) and old_task.has_data and (not new_task.has_data) and (not dry)
    copies = trace.count('fs.copyfile') + trace.count('fs.copytree')
    return all_of(copies == (1 if must else 0),
                  fs.same_except(fs_iter0, new_task.data_path),
                  (not must) or (fs.content(new_task.data_path) == fs_iter0.content(old_task.data_path) and fs.complete(new_task.data_path)),
                  must or fs.same_at(fs_iter0, new_task.data_path))


def mig_inv(config, dry, fs, fs_loop0):
    """a dry run leaves the file system as it was; a real one writes nothing but result paths of the new chain"""
    return all_of((not dry) or fs.same_except(fs_loop0),
                  fs.same_outside(fs_loop0, [t.data_path for t in config.new_chain.tasks.all]))


def mig_frame(config, fs, fs0):
    """nothing but result paths of the parameter-mode chain is ever written: the source directory (and everything else)
    stays as it was"""
    return fs.same_outside(fs0, [t.data_path for t in config.new_chain.tasks.all])


def mig_dry(dry, fs, fs0):
    """dry=True: nothing on disk changes"""
    return (not dry) or fs.same_except(fs0)


CONTRACTS = [
    Contract(
        id='C20.migrate', target='taskchain.utils.migration:migrate_to_parameter_mode', props={'C20': 'decisive'},
        inputs={'config': Abs(MigConfigIface, 'config'), 'target_dir': S(PathK, 'target_dir'), 'dry': S(Bool, 'dry'), 'verbose': Const(False)},
        requires=['mig_pre'], constructors={'taskchain.config:Config': _config_ctor},
        ensures={'target': 'mig_target', 'dry_pure': 'mig_dry', 'frame': 'mig_frame'},
        loops={0: Loop('mig_inv', vars={'name': Str, 'old_task': TaskU, 'new_task': TaskU}, fs=True, step={'copy_exact': 'mig_step'})},
        crash_invariant={}, may_raise=['AssertionError', 'FileNotFoundError', 'FileExistsError', 'SameFileError', 'KeyError'], l0=['A-fs', 'A-dict'], searchable=False,
    ),
]
