"""Frozen storage layout (C12): directory from the group-qualified task name, file name from key and
data-class extension, side files from the stem; config names (K10..K13 of DESIGN.md)."""
import re
from pathlib import Path

from pyvc.dsl import *


# ------------------------------------------------------------------------------------------------
# spec functions (frozen 1.4.0)
# ------------------------------------------------------------------------------------------------
def task_dir(base_dir, slugname):
    """K11 Task.path: <data dir>/<group levels>/<task name>."""
    return base_dir / slugname.replace(':', '/')


def file_path(base_dir, name, extension):
    """K12 FileData._path: <dir>/<key>.<extension>  (no extension: <dir>/<key>)."""
    if extension is None:
        return base_dir / name
    return base_dir / f'{name}.{extension}'


def dir_path(base_dir, name):
    return base_dir / name


def run_info_path(path):
    return path.parent / f'{path.stem}.run_info.yaml'


def log_path(path):
    return path.parent / f'{path.stem}.log'


def tmp_dir(base_dir, name):
    return base_dir / f'{name}_tmp'


def error_dir(base_dir, name):
    return base_dir / f'{name}_error'


def lazy_tmp_path(base_dir, name):
    return base_dir / f'{name}_tmp.jsonl'


def slug(meta_has_name, meta_name, class_name, group):
    """K10 MetaTask.slugname."""
    if meta_has_name:
        name = meta_name
    else:
        name = re.sub(r'(?<!^)(?=[A-Z])', '_', class_name).lower()
        if name.endswith('_task'):
            name = name[:-5]
    if group:
        return f'{group}:{name}'
    return name


def task_fullname(namespace, slugname):
    if namespace is None:
        return slugname
    return f'{namespace}::{slugname}'


def config_name(name, part):
    """K13 Config.name (non-parameter mode key): `name` or `name#part`."""
    if part:
        return f'{name}#{part}'
    return name


def config_fullname(namespace, name, part):
    if namespace is None:
        return f'{config_name(name, part)}'
    return f'{namespace}::{config_name(name, part)}'


def config_repr_name(filepath, namespace, name, part):
    if filepath:
        if namespace is None:
            n = str(filepath)
        else:
            n = f'{namespace}::{filepath}'
        if part:
            return f'{n}#{part}'
        return n
    return config_fullname(namespace, name, part)


# ------------------------------------------------------------------------------------------------
# clauses
# ------------------------------------------------------------------------------------------------
def k11_path(self, result):
    return result == task_dir(self._config.base_dir, self.slugname)


def k11_raises(self, raised):
    return raised == 'ValueError' and self._config.base_dir is None


def k11_has_base(self):
    return True


def k11_canary(self, result):
    return result == self._config.base_dir


def fd_path(self, result, ext):
    return result == file_path(self._base_dir, self._name, ext)


def fd_json(self, result):
    return fd_path(self, result, 'json')


def fd_npy(self, result):
    return fd_path(self, result, 'npy')


def fd_pd(self, result):
    return fd_path(self, result, 'pd')


def fd_pickle(self, result):
    return fd_path(self, result, 'pickle')


def fd_jsonl(self, result):
    return fd_path(self, result, 'jsonl')


def dd_path(self, result):
    return result == dir_path(self._base_dir, self._name)


def dd_tmp(self, result):
    return result == tmp_dir(self._base_dir, self._name)


def dd_error(self, result):
    return result == error_dir(self._base_dir, self._name)


def lazy_tmp(self, result):
    return result == lazy_tmp_path(self._base_dir, self._name)


def ri_path(self, result):
    return result == run_info_path(file_path(self._base_dir, self._name, 'json'))


def lg_path(self, result):
    return result == log_path(file_path(self._base_dir, self._name, 'json'))


def path_canary(self, result):
    return result == self._base_dir


def data_path_persisting(self, result):
    return result == dir_path(self._base_dir, self._name)


def data_path_raises(self, raised):
    return raised == 'AttributeError' and not self._persisting


def k13_name(self, result):
    return result == config_name(self._name, self._part)


def k13_name_raises(self, raised):
    return raised == 'ValueError' and self._name is None


def k13_fullname(self, result):
    return result == config_fullname(self.namespace, self._name, self._part)


def k13_repr_name(self, result):
    return result == config_repr_name(self._filepath, self.namespace, self._name, self._part)


def k13_persist(self, result):
    return result == config_name(self._name, self._part)


def k13_canary(self, result):
    return result == ''


def k10_fullname(cls, config, result):
    return result == task_fullname(config.namespace, cls.slugname)


def k10_fullname_none(cls, result):
    return result == cls.slugname


def k10_slug(cls, result):
    return result == slug('name' in cls.meta, cls.meta.name if 'name' in cls.meta else '', cls.__name__, cls.group)


def k10_canary(result):
    return result == ''


# ------------------------------------------------------------------------------------------------
CfgBase = Iface('CfgBase', props={'base_dir': Prop(Opt(PathK))})
CfgNs = Iface('CfgNs', props={'namespace': Prop(Opt(Str))})


def _meta_contains(ex, ref, args):
    from pyvc.kinds import Sym, Bool
    cell = ex.run.cell(ref)
    if args[0] == 'name':
        return cell.fields['has_name']
    raise Exception('meta key')


MetaIface = Iface('MetaIface', props={'has_name': Prop(Bool), 'name': Prop(Str)},
                  methods={'__contains__': Meth(ret=_meta_contains, event=False, native=lambda stub, key: stub.has_name if key == 'name' else False)})
TaskClsIface = Iface('TaskClsIface', props={'meta': Prop(Abs(MetaIface, 'cls.meta')), '__name__': Prop(Str), 'group': Prop(Str), 'slugname': Prop(Str)})


def data_obj(cls):
    return Obj(f'taskchain.data:{cls}', _base_dir=S(PathK, 'base_dir'), _name=S(Str, 'name'), _persisting=S(Bool, 'persisting'))


def cfg_obj():
    return Obj('taskchain.config:Config', _name=S(Opt(Str), 'cfg._name'), _part=S(Opt(Str), 'cfg._part'),
               namespace=S(Opt(Str), 'cfg.namespace'), _filepath=S(Opt(Str), 'cfg._filepath'))


CONTRACTS = [
    Contract(id='K11', target='taskchain.task:Task.path', props={'C12': 'decisive'},
             inputs={'self': Obj('taskchain.task:Task', _config=Abs(CfgBase, 'cfg'), slugname=S(Str, 'slugname'), group=S(Str, 'group'),
                              fullname=S(Str, 'fullname'))},
             ensures={'path': 'k11_path'}, ensures_raise={'no_base_dir': 'k11_raises'}, l0=['A-path']),
]

for _cls, _clause in [('JSONData', 'fd_json'), ('NumpyData', 'fd_npy'), ('PandasData', 'fd_pd'), ('FigureData', 'fd_pickle'),
                      ('GeneratedData', 'fd_jsonl'), ('GeneratedDataLazy', 'fd_jsonl')]:
    CONTRACTS.append(Contract(id=f'K12.{_cls}._path', target='taskchain.data:FileData._path', props={'C12': 'decisive'},
                              inputs={'self': data_obj(_cls)}, ensures={'path': _clause}, l0=['A-path']))
for _cls in ['DirData', 'ContinuesData', 'ListOfNumpyData', 'InMemoryData', 'H5Data']:
    CONTRACTS.append(Contract(id=f'K12.{_cls}._path', target=f'taskchain.data:{_cls if _cls != "H5Data" else "ContinuesData"}._path',
                              props={'C12': 'decisive'}, inputs={'self': data_obj(_cls)}, ensures={'path': 'dd_path'}, l0=['A-path']))
CONTRACTS += [
    Contract(id='K12.DirData.tmp_path', target='taskchain.data:DirData.tmp_path', props={'C12': 'decisive', 'C05': 'supporting'},
             inputs={'self': data_obj('DirData')}, ensures={'path': 'dd_tmp'}),
    Contract(id='K12.DirData.error_path', target='taskchain.data:DirData.error_path', props={'C12': 'decisive', 'C05': 'supporting'},
             inputs={'self': data_obj('DirData')}, ensures={'path': 'dd_error'}),
    Contract(id='K12.ContinuesData.tmp_path', target='taskchain.data:ContinuesData.tmp_path', props={'C12': 'decisive', 'C05': 'supporting'},
             inputs={'self': data_obj('ContinuesData')}, ensures={'path': 'dd_tmp'}),
    Contract(id='K12.GeneratedDataLazy.tmp_path', target='taskchain.data:GeneratedDataLazy.tmp_path', props={'C12': 'decisive', 'C05': 'supporting'},
             inputs={'self': data_obj('GeneratedDataLazy')}, ensures={'path': 'lazy_tmp'}),
    Contract(id='K12.run_info_path', target='taskchain.data:Data.run_info_path', props={'C12': 'decisive', 'C18': 'supporting'},
             inputs={'self': data_obj('JSONData')}, ensures={'path': 'ri_path'}),
    Contract(id='K12.log_path', target='taskchain.data:Data.log_path', props={'C12': 'decisive', 'C18': 'supporting'},
             inputs={'self': data_obj('JSONData')}, ensures={'path': 'lg_path'}),
    Contract(id='K12.Data.path', target='taskchain.data:Data.path', props={'C12': 'decisive'},
             inputs={'self': data_obj('DirData')}, ensures={'path': 'data_path_persisting'},
             ensures_raise={'not_persisting': 'data_path_raises'}),
    Contract(id='K13.name', target='taskchain.config:Config.name', props={'C12': 'decisive', 'C02': 'supporting'},
             inputs={'self': cfg_obj()}, ensures={'eq_spec': 'k13_name'}, ensures_raise={'no_name': 'k13_name_raises'}, canary='k13_canary'),
    Contract(id='K13.fullname', target='taskchain.config:Config.fullname', props={'C12': 'decisive'},
             inputs={'self': cfg_obj()}, ensures={'eq_spec': 'k13_fullname'}, canary='k13_canary', may_raise=['ValueError']),
    Contract(id='K13.repr_name', target='taskchain.config:Config.repr_name', props={'C12': 'decisive', 'C09': 'supporting'},
             inputs={'self': cfg_obj()}, ensures={'eq_spec': 'k13_repr_name'}, canary='k13_canary', may_raise=['ValueError']),
    Contract(id='K13.name_mode_key', target='taskchain.config:Config.get_name_for_persistence', props={'C12': 'decisive'},
             inputs={'self': cfg_obj()}, ensures={'eq_spec': 'k13_persist'}, canary='k13_canary', may_raise=['ValueError']),
    Contract(id='K10.fullname', target='taskchain.task:MetaTask.fullname', props={'C12': 'decisive', 'C08': 'supporting', 'C10': 'supporting'},
             inputs={'cls': Abs(TaskClsIface, 'cls'), 'config': Abs(CfgNs, 'config')},
             ensures={'eq_spec': 'k10_fullname'}, canary='k10_canary'),
    Contract(id='K10.fullname.noconfig', target='taskchain.task:MetaTask.fullname', props={'C12': 'decisive'},
             inputs={'cls': Abs(TaskClsIface, 'cls'), 'config': Const(None)},
             ensures={'eq_spec': 'k10_fullname_none'}, canary='k10_canary'),
    Contract(id='K10.slugname', target='taskchain.task:MetaTask.slugname', props={'C12': 'decisive'},
             inputs={'cls': Abs(TaskClsIface, 'cls')},
             ensures={'eq_spec': 'k10_slug'}, canary='k10_canary', l0=['A-re']),
]
