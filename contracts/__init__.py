"""Contract modules of the verification (see DESIGN.md)."""
MODULES = [
    'contracts.keys',
]
EXTRA_CHECKS = {}
EXTRA_REPLAY = {}
