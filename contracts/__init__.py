"""Contract modules of the verification (see DESIGN.md)."""
MODULES = [
    'contracts.keys',
    'contracts.layout',
    'contracts.names',
    'contracts.taskdata',
    'contracts.taskfuncs',
]
EXTRA_CHECKS = {}
EXTRA_REPLAY = {}
