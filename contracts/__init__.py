"""Contract modules of the verification (see DESIGN.md)."""
MODULES = [
    'contracts.keys',
    'contracts.layout',
    'contracts.names',
    'contracts.taskdata',
    'contracts.taskfuncs',
    'contracts.datacls',
    'contracts.parallel',
    'contracts.cache',
    'contracts.chain',
    'contracts.config',
    'contracts.helpers',
    'contracts.runinfo',
    'contracts.paramobj',
    'contracts.multichain',
]


def _standins():
    from contracts import standins
    return standins


class _Lazy(dict):
    """extra (bounded, native) checks per property, resolved lazily so that importing `contracts` stays cheap"""

    def get(self, prop, default=None):
        s = _standins()
        from contracts import integration
        extra = [integration.make(prop)] if prop in integration.SCENARIOS else []
        table = {'C06': [s.c06_roundtrip], 'C17': [s.c17_parallel_map], 'C14': [s.c14_caches], 'C16': [s.c16_cached], 'C11': [s.c11_placeholders]}
        lem = []
        if prop == 'C03':
            from contracts import lemmas
            lem = [lemmas.lean_c03]
        return table.get(prop, []) + extra + lem


EXTRA_CHECKS = _Lazy()


class _LazyReplay(dict):
    def __getitem__(self, name):
        s = _standins()
        if name == 'integration':
            from contracts import integration
            return integration.replay
        return {'c06_roundtrip': s.replay_c06, 'c17_parallel_map': s.replay_c17, 'c14_caches': s.replay_c14, 'c16_cached': s.replay_c16, 'c11_placeholders': s.replay_c11}[name]


EXTRA_REPLAY = _LazyReplay()
