"""Contract modules of the verification (see DESIGN.md)."""
MODULES = [
    'contracts.keys',
    'contracts.layout',
    'contracts.names',
    'contracts.taskdata',
    'contracts.taskfuncs',
    'contracts.datacls',
    'contracts.parallel',
    'contracts.cache',
    'contracts.chain',
    'contracts.config',
]


def _standins():
    from contracts import standins
    return standins


class _Lazy(dict):
    """extra (bounded, native) checks per property, resolved lazily so that importing `contracts` stays cheap"""

    def get(self, prop, default=None):
        s = _standins()
        table = {'C06': [s.c06_roundtrip], 'C17': [s.c17_parallel_map], 'C14': [s.c14_caches], 'C16': [s.c16_cached], 'C11': [s.c11_placeholders]}
        return table.get(prop, default if default is not None else [])


EXTRA_CHECKS = _Lazy()


class _LazyReplay(dict):
    def __getitem__(self, name):
        s = _standins()
        return {'c06_roundtrip': s.replay_c06, 'c17_parallel_map': s.replay_c17, 'c14_caches': s.replay_c14, 'c16_cached': s.replay_c16, 'c11_placeholders': s.replay_c11}[name]


EXTRA_REPLAY = _LazyReplay()
