"""Contract modules of the verification (see DESIGN.md)."""
MODULES = [
    'contracts.keys',
    'contracts.layout',
]
EXTRA_CHECKS = {}
EXTRA_REPLAY = {}
