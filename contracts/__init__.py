"""Contract modules of the verification (see DESIGN.md)."""
MODULES = [
    'contracts.keys',
    'contracts.layout',
    'contracts.names',
    'contracts.taskdata',
    'contracts.taskfuncs',
    'contracts.datacls',
]
EXTRA_CHECKS = {}
EXTRA_REPLAY = {}
