"""config.py / parameter.py: how configs compose (C09), placeholders (C11)."""
from pyvc.dsl import *
from pyvc.prims import same_map, seq_fold, empty_map, all_of, any_of, lemma

NsData = Map(Str, Dyn)


# ------------------------------------------------------------------------------------------------
# Config.apply_context  (C09.apply.precedence)
# ------------------------------------------------------------------------------------------------
def cfg_obj(ns_kind=Opt(Str)):
    return Obj('taskchain.config:Config', _data=SymDict(Str, Dyn, 'cfg_data'), namespace=S(ns_kind, 'namespace'))


def ctx_obj():
    return Obj('taskchain.config:Context', _data=SymDict(Str, Dyn, 'ctx_data'), for_namespaces=SymDict(Str, NsData, 'for_namespaces'))


def override(a, b):
    """right-biased override of mappings"""
    d = dict(a)
    d.update(b)
    return d


def apply_spec(old_data, context, namespace):
    """entries for the config's exact namespace over the context's global entries over the config's own values"""
    d = override(old_data, context._data)
    if namespace and namespace in context.for_namespaces:
        d = override(d, context.for_namespaces[namespace])
    return d


def apply_post(self, old_self, context):
    return self._data == apply_spec(old_self._data, context, self.namespace)


def apply_inv(self, old_self, context, done):
    base = override(old_self._data, context._data)
    hit = any(n == self.namespace for n, d in done)
    return self._data == (override(base, context.for_namespaces[self.namespace]) if hit else base)


def apply_frame(context, old_context):
    """the context itself is not changed by being applied"""
    return same_map(context._data, old_context._data) and same_map(context.for_namespaces, old_context.for_namespaces)


CONTRACTS = [
    Contract(
        id='CF.apply_context', target='taskchain.config:Config.apply_context', props={'C09': 'decisive', 'C01': 'supporting'},
        inputs={'self': cfg_obj(), 'context': ctx_obj()},
        ensures={'precedence': 'apply_post', 'context_unchanged': 'apply_frame'},
        loops={0: Loop('apply_inv', vars={'namespace': Str, 'data': NsData}, attrs={'self._data': Map(Str, Dyn)})},
        l0=['A-dict', 'A-copy'], searchable=False,
    ),
]


# ------------------------------------------------------------------------------------------------
# Parameter.set_value  (C09.param.lookup: declaring config, default, required, dtype)
# ------------------------------------------------------------------------------------------------
from pathlib import Path
from contracts.keys import OrigConfigIface


def param_obj():
    # default: the none of the Opt kind stands for the NO_DEFAULT sentinel (a required parameter)
    return Obj('taskchain.parameter:Parameter', _name=S(Str, 'p._name'), name_in_config=S(Str, 'p.name_in_config'),
               default=S(Opt(Dyn), 'p.default'), dtype=S(Opt(ClsTag), 'p.dtype'), _value=S(Dyn, 'p._value'))


def sv_wrong_type(self, value):
    # one fork (dtype declared or not); the rest is evaluated without forking
    return self.dtype is not None and all_of(value is not None, not isinstance(value, self.dtype),
                                             not all_of(self.dtype is Path, isinstance(value, str)))


def sv_post(self, config, result):
    """the value is the declaring config's entry if there is one, else the default; it has the declared type"""
    expected = config[self.name_in_config] if self.name_in_config in config else self.default
    return all_of(result == expected, self._value == expected, not sv_wrong_type(self, expected),
                  any_of(self.name_in_config in config, self.default is not None))


def sv_raises(self, config, raised):
    """construction fails (ValueError) exactly when a required value is missing or a value has the wrong type"""
    missing = all_of(self.name_in_config not in config, self.default is None)
    return raised == 'ValueError' and any_of(missing, sv_wrong_type(self, config[self.name_in_config] if self.name_in_config in config else self.default))


CONTRACTS += [
    Contract(
        id='CF.set_value', target='taskchain.parameter:Parameter.set_value', props={'C09': 'decisive', 'C01': 'supporting', 'C19': 'supporting'},
        inputs={'self': param_obj(), 'config': Abs(OrigConfigIface, 'config')},
        ensures={'lookup': 'sv_post'}, ensures_raise={'early_error': 'sv_raises'},
        l0=['A-isinstance-tag'], searchable=False,
    ),
]


# ------------------------------------------------------------------------------------------------
# C11: placeholders (utils/data.py)
# ------------------------------------------------------------------------------------------------
MatchIface = Iface('MatchIface', props={'g1': Prop(Str)}, methods={'group': Meth(field='g1')})


def repl_dict_post(match, replacements, result):
    """a placeholder whose name is defined is replaced by str(value) - also when the value is falsy -, an undefined
    one is left exactly as it was written"""
    name = match.g1
    return result == (str(replacements[name]) if name in replacements else '{' + name + '}')


def _obj_hasattr(ex, ref, name):
    import z3
    from pyvc import pyops as P
    from pyvc.kinds import Sym
    return Sym(Bool, P.ufn('gv_has', [z3.StringSort()], z3.BoolSort())(P.str_t(ex, name)))


def _obj_getattr(ex, ref, args):
    import z3
    from pyvc import pyops as P
    from pyvc.kinds import Sym
    return Sym(Dyn, P.ufn('gv_val', [z3.StringSort()], Dyn.sort())(P.str_t(ex, args[0])))


GlobalVarsObjIface = Iface('GlobalVarsObjIface', methods={'__getattr_dyn__': Meth(ret=_obj_getattr, event=False)}, hasattr=_obj_hasattr)


def repl_obj_post(match, replacements, result):
    name = match.g1
    return result == (str(getattr(replacements, name)) if hasattr(replacements, name) else '{' + name + '}')


CONTRACTS += [
    Contract(
        id='C11.replace.mapping', target='taskchain.utils.data:search_and_replace_placeholders.<_replace>', props={'C11': 'decisive'},
        inputs={'match': Abs(MatchIface, 'match'), 'replacements': SymDict(Str, Dyn, 'replacements')},
        call=['match'], closure_vars={'replacements': 'replacements'},
        ensures={'defined_only': 'repl_dict_post'}, l0=['A-re', 'A-repr'], searchable=False,
    ),
    Contract(
        id='C11.replace.object', target='taskchain.utils.data:search_and_replace_placeholders.<_replace>', props={'C11': 'decisive'},
        inputs={'match': Abs(MatchIface, 'match'), 'replacements': Abs(GlobalVarsObjIface, 'global_vars')},
        call=['match'], closure_vars={'replacements': 'replacements'},
        ensures={'defined_only': 'repl_obj_post'}, l0=['A-re', 'A-repr'], searchable=False,
    ),
]


def rs_obj(prefix='s'):
    """a ReprStr: a str (payload) carrying the repr of its un-substituted original in `.repr`"""
    return Obj('taskchain.utils.data:ReprStr', __payload__=S(Str, f'{prefix}.value'), repr=S(Str, f'{prefix}.repr'))


def apply_plain_post(string, result, trace):
    """a plain string without placeholders is returned as it is; one with placeholders becomes a ReprStr whose
    value is the substituted text and whose representation is that of the un-substituted string"""
    text, count = trace.ret('re.subn')
    return (count == 0 and result == string and not isinstance(result, _ReprStr())) or \
           (count > 0 and isinstance(result, _ReprStr()) and str(result) == text and result.repr == repr(string))


def _ReprStr():
    from taskchain.utils.data import ReprStr
    return ReprStr


def apply_reprstr_post(string, result, trace):
    """idempotence guard: an already substituted string is returned untouched (nothing is scanned again)"""
    return result is string and not trace.has('re.subn')


def rs_new_post(value, repr_, result):
    return str(result) == value and result.repr == repr(repr_) and isinstance(result, _ReprStr())


def rs_repr_post(self, result):
    return result == self.repr


def rs_copy_post(self, result):
    """C11: a copy is the same string with the same (placeholder) representation"""
    return str(result) == str(self) and result.repr == self.repr and isinstance(result, _ReprStr())


CONTRACTS += [
    Contract(
        id='C11.apply.plain', target='taskchain.utils.data:search_and_replace_placeholders.<_apply>', props={'C11': 'decisive', 'C02': 'supporting'},
        inputs={'string': S(Str, 'string'), 'replacements': SymDict(Str, Dyn, 'replacements')},
        call=['string'], closure_vars={'replacements': 'replacements', '_replace': '@_replace'},
        ensures={'reprstr': 'apply_plain_post'}, l0=['A-re', 'A-repr'], searchable=False,
    ),
    Contract(
        id='C11.apply.reprstr', target='taskchain.utils.data:search_and_replace_placeholders.<_apply>', props={'C11': 'decisive'},
        inputs={'string': rs_obj(), 'replacements': SymDict(Str, Dyn, 'replacements')},
        call=['string'], closure_vars={'replacements': 'replacements', '_replace': '@_replace'},
        ensures={'idempotent': 'apply_reprstr_post'}, searchable=False,
    ),
    Contract(id='K14.new', target='taskchain.utils.data:ReprStr.__new__', props={'C11': 'decisive', 'C12': 'decisive', 'C02': 'supporting'},
             inputs={'cls': Cls('taskchain.utils.data:ReprStr'), 'value': S(Str, 'value'), 'repr_': S(Str, 'repr_')},
             ensures={'new': 'rs_new_post'}, l0=['A-repr'], searchable=False),
    Contract(id='K14.repr', target='taskchain.utils.data:ReprStr.__repr__', props={'C11': 'decisive', 'C12': 'decisive'},
             inputs={'self': rs_obj()}, ensures={'repr': 'rs_repr_post'}, searchable=False),
    Contract(id='K14.copy', target='taskchain.utils.data:ReprStr.__copy__', props={'C11': 'decisive', 'C02': 'supporting'},
             inputs={'self': rs_obj()}, ensures={'copy': 'rs_copy_post'}, l0=['A-repr'], searchable=False),
    Contract(id='K14.deepcopy', target='taskchain.utils.data:ReprStr.__deepcopy__', props={'C11': 'decisive', 'C02': 'supporting'},
             inputs={'self': rs_obj(), 'memo': Const(None)}, ensures={'copy': 'rs_copy_post'}, l0=['A-repr', 'A-copy'], searchable=False),
]
