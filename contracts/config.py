"""config.py / parameter.py: how configs compose (C09), placeholders (C11)."""
from pyvc.dsl import *
from pyvc.prims import same_map, seq_fold, empty_map, all_of, any_of, lemma

NsData = Map(Str, Dyn)


# ------------------------------------------------------------------------------------------------
# Config.apply_context  (C09.apply.precedence)
# ------------------------------------------------------------------------------------------------
def cfg_obj(ns_kind=Opt(Str)):
    return Obj('taskchain.config:Config', _data=SymDict(Str, Dyn, 'cfg_data'), namespace=S(ns_kind, 'namespace'))


def ctx_obj():
    return Obj('taskchain.config:Context', _data=SymDict(Str, Dyn, 'ctx_data'), for_namespaces=SymDict(Str, NsData, 'for_namespaces'))


def override(a, b):
    """right-biased override of mappings"""
    d = dict(a)
    d.update(b)
    return d


def apply_spec(old_data, context, namespace):
    """entries for the config's exact namespace over the context's global entries over the config's own values"""
    d = override(old_data, context._data)
    if namespace and namespace in context.for_namespaces:
        d = override(d, context.for_namespaces[namespace])
    return d


def apply_post(self, old_self, context):
    return self._data == apply_spec(old_self._data, context, self.namespace)


def apply_inv(self, old_self, context, done):
    base = override(old_self._data, context._data)
    hit = any(n == self.namespace for n, d in done)
    return self._data == (override(base, context.for_namespaces[self.namespace]) if hit else base)


def apply_frame(context, old_context):
    """the context itself is not changed by being applied"""
    return same_map(context._data, old_context._data) and same_map(context.for_namespaces, old_context.for_namespaces)


CONTRACTS = [
    Contract(
        id='CF.apply_context', target='taskchain.config:Config.apply_context', props={'C09': 'decisive', 'C01': 'supporting'},
        inputs={'self': cfg_obj(), 'context': ctx_obj()},
        ensures={'precedence': 'apply_post', 'context_unchanged': 'apply_frame'},
        loops={0: Loop('apply_inv', vars={'namespace': Str, 'data': NsData}, attrs={'self._data': Map(Str, Dyn)})},
        l0=['A-dict', 'A-copy'], searchable=False,
    ),
]
