"""parameter.py: AutoParameterObject.repr (K5) - the text of a parameter object (C02 / C03 / C12)."""
from pyvc.dsl import *
from pyvc.prims import all_of, any_of, same_map, pyrepr
import z3 as _z3

SigParamD = Rec('SigParamD', {'default': Opt(Dyn)})          # inspect.Parameter: default None <-> Parameter.empty


def _has(ex, ref, name):
    """hasattr(self, <symbolic name>): an uninterpreted predicate of the object's attribute table"""
    from pyvc import pyops as P_, kinds as K_
    from pyvc.values import Sym
    return Sym(K_.Bool, P_.ufn('obj_has_attr', [_z3.StringSort()], _z3.BoolSort())(P_.str_t(ex, name)))


def _get(ex, ref, args):
    """getattr(self, <symbolic name>): the attribute table"""
    from pyvc import pyops as P_, kinds as K_
    from pyvc.values import Sym
    return Sym(K_.Dyn, P_.ufn('obj_attr', [_z3.StringSort()], K_.Dyn.sort())(P_.str_t(ex, args[0])))


InitIface = Iface('APOInitIface', props={'__sig_params__': Prop(Seq(Tup(Str, SigParamD)))})
ClsIface = Iface('APOClsIface', props={'__name__': Prop(Str), '__module__': Prop(Str), '__qualname__': Prop(Str)})
ObjIface = Iface('APOIface', classes=('taskchain.parameter:AutoParameterObject',),
                 props={'__init__': Prop(Abs(InitIface, 'init')), '__class__': Prop(Abs(ClsIface, 'cls')),
                        'ignored': Prop(Seq(Str)), 'dont_persist': Prop(Seq(Str)), 'attrs': Prop(U('AttrTable'))},
                 methods={'ignore_persistence_args': Meth(field='ignored'), 'dont_persist_default_value_args': Meth(field='dont_persist'),
                          '__getattr_dyn__': Meth(ret=_get, event=False)},
                 hasattr=_has)


RECURSIVE = {'strip_markers': ([Dyn], Dyn, 0)}


def strip_markers(val):
    """IgnoreForPersistence.remove: the value without IgnoreForPersistence-wrapped members, at any depth (frozen 1.4.0).
    Symbolically an uninterpreted function (fuel 0): K5 only needs that the SAME function is applied."""
    if isinstance(val, list):
        return [strip_markers(v) for v in val if not is_marker(v)]
    if isinstance(val, dict):
        return {k: strip_markers(v) for k, v in val.items() if not is_marker(v)}
    return val


def attr_of(self, arg):
    """the stored value of an __init__ argument: self._<arg> if present, else self.<arg>"""
    return getattr(self, '_' + arg) if hasattr(self, '_' + arg) else getattr(self, arg)


def is_marker(v):
    from taskchain.parameter import IgnoreForPersistence
    return isinstance(v, IgnoreForPersistence)


def kept(self, arg, parameter):
    """frozen 1.4.0 rule: an argument is part of the text unless it is listed as ignored, its value is wrapped as
    IgnoreForPersistence, or it is listed as dont-persist-default and equals the declared default"""
    v = attr_of(self, arg)
    return (arg not in self.ignored) and (not is_marker(v)) and not (arg in self.dont_persist and v == parameter.default)


def args_of(self, params):
    return {arg: strip_markers(attr_of(self, arg)) for arg, parameter in params if kept(self, arg, parameter)}


def args_of_enum(self, eparams):
    return {arg: strip_markers(attr_of(self, arg)) for i, (arg, parameter) in eparams if kept(self, arg, parameter)}


def k5_inv(self, done, args):
    return same_map(args, args_of_enum(self, done))


def k5_text(self, result):
    """the text is ClassName(k=repr(v), ...) over the kept arguments in ascending order of their names"""
    a = args_of_enum(self, enumerate(self.__init__.__sig_params__))
    return result == self.__class__.__name__ + '(' + ', '.join([k + '=' + pyrepr(v) for k, v in sorted(a.items())]) + ')'


def k5_missing(self, raised):
    """an argument stored under neither name is an error, not a silently shorter text"""
    return raised == 'AssertionError' or (raised == 'AttributeError' and
                                          any((not hasattr(self, '_' + arg)) and (not hasattr(self, arg)) and arg not in self.ignored
                                              for arg, parameter in self.__init__.__sig_params__))


def k5_pre(self):
    """every stored argument value is a plain config value here (no IgnoreForPersistence wrapper to unwrap)"""
    return True


CONTRACTS = [
    Contract(id='K5', target='taskchain.parameter:AutoParameterObject.repr',
             props={'C12': 'decisive', 'C02': 'supporting', 'C03': 'supporting'},
             inputs={'self': Abs(ObjIface, 'obj')},
             callees={'taskchain.parameter:IgnoreForPersistence.remove': ByContract(spec='strip_markers')},
             ensures={'eq_spec': 'k5_text'}, ensures_raise={'missing_argument': 'k5_missing'},
             loops={0: Loop('k5_inv', vars={'i': Int, 'arg': Str, 'parameter': SigParamD, 'value': Dyn}, cells={'args': Map(Str, Dyn)})},
             may_raise=['AssertionError'], l0=['A-inspect', 'A-repr', 'A-sorted', 'A-dict', 'A-strip-markers: IgnoreForPersistence.remove is taken by contract here and verified as K5.remove (defining equation, one unfolding; set-valued arguments excluded)'], searchable=False),
]


# ------------------------------------------------------------------------------------------------
# IgnoreForPersistence.remove: one unfolding of the recursion (inductive step): with the recursive calls taken to be
# strip_markers, the body computes strip_markers' defining equation - element order of lists kept, marked members dropped
# ------------------------------------------------------------------------------------------------
def strip_step(val):
    if isinstance(val, list):
        return [strip_markers(v) for v in val if not is_marker(v)]
    if isinstance(val, dict):
        return {k: strip_markers(v) for k, v in val.items() if not is_marker(v)}
    return val


def remove_post(val, result):
    return result == strip_step(val)


def remove_not_set(val):
    """config values are JSON-like or parameter objects: no sets (a set has no order to keep)"""
    return not isinstance(val, set)


CONTRACTS += [
    Contract(id='K5.remove', target='taskchain.parameter:IgnoreForPersistence.remove',
             props={'C12': 'decisive', 'C02': 'supporting', 'C03': 'supporting'},
             inputs={'val': S(Dyn, 'val')}, requires=['remove_not_set'],
             callees={'taskchain.parameter:IgnoreForPersistence.remove': ByContract(spec='strip_markers')},
             ensures={'defining_equation': 'remove_post'}, l0=['A-dyn'], searchable=False),
]
