"""chain.py: task creation / sharing, forcing, graph queries (C07, C08, C13)."""
from pyvc.dsl import *
from pyvc.prims import same_map, all_of, any_of

TaskU = U('Task')
LoggerU = U('Logger')
# attributes of opaque task objects: functions of the object
U_ATTRS = {'Task': {'slugname': Str, 'name_for_persistence': Str, 'logger': LoggerU, 'fullname': Str, 'is_forced': Bool, 'has_data': Bool,
                    'group': Str}}

U_METHODS = {'Logger': {'addHandler': None, 'removeHandler': None}, 'Task': {'force': TaskU}}

RegKey = Tup(Str, Str)


# ------------------------------------------------------------------------------------------------
# Chain._create_task  (C13.registry, C01/C09 own_config through the registry key)
# ------------------------------------------------------------------------------------------------
def _new_task(ex, ref, args):
    """task_class(config): a new task object"""
    t = ex.run.fresh(TaskU, 'new_task')
    ex.run.inputs['new_task'] = (TaskU, t.t)
    return t


TaskClassIface = Iface('TaskClassIface', methods={'__call__': Meth(ret=_new_task, event=True)})
CtxIface = Iface('CtxIface', props={'name': Prop(Str)})
PCfgIface = Iface('PCfgIface', classes=('taskchain.chain:TaskParameterConfig',),
                  props={'repr_name_without_namespace': Prop(Str), 'context': Prop(Abs(CtxIface, 'config.context')), 'name': Prop(Str), 'namespace': Prop(Opt(Str))})
NCfgIface = Iface('NCfgIface', classes=('taskchain.config:Config',), props={'repr_name': Prop(Str), 'repr_name_without_namespace': Prop(Str)})
ChainLogHandler = U('Handler')


def ct_param_mode(task_class, config, task_registry, old_task_registry, result, trace):
    """C13: in parameter mode the registry is keyed by (slug, storage key): a task for this key is returned if the
    (non-empty) registry has one, else the new task is returned and recorded under exactly that key; nothing else changes"""
    new = trace.ret('__call__')
    k = (new.slugname, new.name_for_persistence)
    hit = len(old_task_registry) > 0 and k in old_task_registry
    return trace.count('__call__') == 1 and \
        ((hit and result == old_task_registry[k] and same_map(task_registry, old_task_registry)) or
         ((not hit) and result == new and task_registry[k] == new and len(task_registry) == len(old_task_registry) + (0 if k in old_task_registry else 1)
          and all(kk == k or (kk in task_registry and task_registry[kk] == old_task_registry[kk]) for kk in old_task_registry)))


def ct_name_mode(task_class, config, task_registry, old_task_registry, result, trace):
    new = trace.ret('__call__')
    k = (new.slugname, config.repr_name)        # the namespace is part of the key: one file mounted twice gives two tasks (F1)
    hit = len(old_task_registry) > 0 and k in old_task_registry
    return (hit and result == old_task_registry[k] and same_map(task_registry, old_task_registry)) or \
           ((not hit) and result == new and task_registry[k] == new)


def ct_no_registry(result, trace):
    return result == trace.ret('__call__')


class _LogHandlerConst:
    pass


CONTRACTS = [
    Contract(
        id='CH.create_task.param', target='taskchain.chain:Chain._create_task', props={'C13': 'decisive', 'C01': 'supporting', 'C09': 'supporting'},
        inputs={'task_class': Abs(TaskClassIface, 'task_class'), 'config': Abs(PCfgIface, 'config'),
                'task_registry': SymDict(RegKey, TaskU, 'registry')},
        ensures={'registry': 'ct_param_mode'}, l0=['A-dict'], searchable=False,
    ),
    Contract(
        id='CH.create_task.name', target='taskchain.chain:Chain._create_task', props={'C13': 'decisive'},
        inputs={'task_class': Abs(TaskClassIface, 'task_class'), 'config': Abs(NCfgIface, 'config'),
                'task_registry': SymDict(RegKey, TaskU, 'registry')},
        ensures={'registry': 'ct_name_mode'}, l0=['A-dict'], searchable=False,
    ),
    Contract(
        id='CH.create_task.noreg', target='taskchain.chain:Chain._create_task', props={'C13': 'decisive'},
        inputs={'task_class': Abs(TaskClassIface, 'task_class'), 'config': Abs(PCfgIface, 'config'), 'task_registry': Const(None)},
        ensures={'new': 'ct_no_registry'}, searchable=False,
    ),
]


# ------------------------------------------------------------------------------------------------
# graph queries and forcing (C07, C08.closures)
# ------------------------------------------------------------------------------------------------
from pyvc.prims import nx_desc, nx_anc, nx_has_path, set_with, set_union, empty_set, seq_fold

U_CLASSES = {'Task': 'taskchain.task:Task'}
GraphU = U('Graph')


def chain_obj():
    return Obj('taskchain.chain:Chain', graph=S(GraphU, 'graph'))


def closure_of(graph, task):
    """the named task and everything downstream of it"""
    return set_with(nx_desc(graph, task), task)


def dep_post(self, task, include_self, result):
    """dependent_tasks = everything downstream (plus the task itself on request)"""
    return result == (set_with(nx_desc(self.graph, task), task) if include_self else nx_desc(self.graph, task))


def req_post(self, task, include_self, result):
    return result == (set_with(nx_anc(self.graph, task), task) if include_self else nx_anc(self.graph, task))


def isdep_post(self, task, dependency_task, result):
    """`task` depends on `dependency_task` iff there is a path dependency_task -> task"""
    return result == nx_has_path(self.graph, dependency_task, task)


def force_inv1(self, done, forced_tasks):
    return forced_tasks == seq_fold(lambda acc, t: set_union(acc, closure_of(self.graph, t)), empty_set('Task'), done)


def force_step2(task, delete_data, trace):
    """each member of the closure is forced exactly once, with the caller's delete_data"""
    return trace.count('force') == 1 and trace.arg('force', 0) == task and trace.arg('force', 1) == delete_data


def force_step3(task, trace):
    return trace.count('value') == 1 and trace.arg('value', 0) == task


def inv_true(done):
    return True


def force_post(self, tasks, recompute, trace):
    return True


def dep_by_contract(self, task, include_self):
    return set_with(nx_desc(self.graph, task), task) if include_self else nx_desc(self.graph, task)


U_ATTRS['Task']['value'] = (U('Val', plain=True), 'event')

CONTRACTS += [
    Contract(id='CH.dependent_tasks', target='taskchain.chain:Chain.dependent_tasks', props={'C07': 'decisive', 'C08': 'decisive'},
             inputs={'self': chain_obj(), 'task': S(TaskU, 'task'), 'include_self': S(Bool, 'include_self')},
             ensures={'closure': 'dep_post'}, l0=['A-nx'], searchable=False),
    Contract(id='CH.required_tasks', target='taskchain.chain:Chain.required_tasks', props={'C08': 'decisive'},
             inputs={'self': chain_obj(), 'task': S(TaskU, 'task'), 'include_self': S(Bool, 'include_self')},
             ensures={'closure': 'req_post'}, l0=['A-nx'], searchable=False),
    Contract(id='CH.is_task_dependent_on', target='taskchain.chain:Chain.is_task_dependent_on', props={'C08': 'decisive'},
             inputs={'self': chain_obj(), 'task': S(TaskU, 'task'), 'dependency_task': S(TaskU, 'dependency_task')},
             ensures={'direction': 'isdep_post'}, l0=['A-nx'], searchable=False),
    Contract(id='CH.force', target='taskchain.chain:Chain.force', props={'C07': 'decisive'},
             inputs={'self': chain_obj(), 'tasks': SymList(TaskU, 'tasks'), 'recompute': S(Bool, 'recompute'), 'delete_data': S(Bool, 'delete_data')},
             callees={'taskchain.chain:Chain.dependent_tasks': ByContract(spec='dep_by_contract')},
             loops={0: Loop('force_inv1', vars={'task': TaskU}, cells={'forced_tasks': SetOf(TaskU)}),
                    1: Loop('inv_true', vars={'task': TaskU}, step={'forced_once_with_flag': 'force_step2'}),
                    2: Loop('inv_true', vars={'task': TaskU, '_': U('Val', plain=True)}, step={'recomputed_once': 'force_step3'})},
             ensures={'post': 'force_post'}, l0=['A-nx', 'A-set'], searchable=False),
]


# ------------------------------------------------------------------------------------------------
# MultiChain.force  (C13.force, C07.multi)
# ------------------------------------------------------------------------------------------------
ChainU = U('Chain')
U_METHODS['Chain'] = {'force': None, 'dependent_tasks': SetOf(TaskU)}
KwVal = U('KwVal')


def mc_fanout(chain, tasks, kwargs, trace):
    """forcing through the MultiChain applies to every chain: each member chain is forced exactly once with the
    caller's tasks and options - but never told to recompute: chains share task objects, and forcing a later chain
    drops what an earlier one recomputed (F7)"""
    return trace.count('force') == 1 and trace.arg('force', 0) == chain and trace.arg('force', 1) == tasks \
        and trace.arg('force', 2) == False and same_map(trace.arg('force', 3), kwargs)      # noqa: E712


def mc_recompute_step(forced_task, trace):
    """recompute: the value of every task in the closure is requested (a task shared by several chains is computed by
    the first request and served from memory afterwards)"""
    return trace.count('value') == 1 and trace.arg('value', 0) == forced_task


def mc_closure(chain, task, include_self):
    return set_with(nx_desc(chain.graph, task), task)


U_ATTRS['Chain'] = {'graph': GraphU}


CONTRACTS += [
    Contract(id='CH.multi_force', target='taskchain.chain:MultiChain.force', props={'C13': 'decisive', 'C07': 'decisive'},
             inputs={'self': Obj('taskchain.chain:MultiChain', chains=SymDict(Str, ChainU, 'chains')),
                     'tasks': SymList(TaskU, 'tasks'), 'recompute': S(Bool, 'recompute'), 'kw': SymDict(Str, Bool, 'kwargs')},
             call=['self', 'tasks', 'recompute'], starstar='kw',
             loops={0: Loop('inv_true', vars={'chain': ChainU}, step={'fanout': 'mc_fanout'}),
                    1: Loop('inv_true', vars={'chain': ChainU}),
                    2: Loop('inv_true', vars={'task': TaskU}),
                    3: Loop('inv_true', vars={'forced_task': TaskU, '_': U('Val', plain=True)}, step={'recomputed': 'mc_recompute_step'})},
             l0=['A-dict', 'A-set', 'A-nx'], searchable=False),
]


# ------------------------------------------------------------------------------------------------
# Chain._expand_tasks  (C08: pattern inputs)
# ------------------------------------------------------------------------------------------------
import re as _re
from pyvc.prims import empty_seq


def ns_of(name):
    return name.split('::')[:-1]


def pattern_hit(input_task, current_task_name, task_name):
    """a task matches a pattern input when its local name (group included) fully matches the pattern and it lives in the
    namespace of the declaring task - or anywhere, for a `~~` pattern"""
    return all_of(_re.fullmatch(input_task.lstrip('~'), task_name.split('::')[-1]),
                  any_of(ns_of(current_task_name) == ns_of(task_name), input_task.startswith('~~')))


def expand_one(input_task, tasks, current_task_name):
    return [input_task] if not input_task.startswith('~') else [t for t in tasks if pattern_hit(input_task, current_task_name, t)]


def expand_spec(input_tasks, tasks, current_task_name):
    """declared inputs in order; every pattern replaced, in place, by the matching tasks in chain order"""
    return seq_fold(lambda acc, it: acc + expand_one(it, tasks, current_task_name), empty_seq('Str'), input_tasks)


def exp_outer(done, expanded_tasks, tasks, current_task_name):
    return expanded_tasks == expand_spec(done, tasks, current_task_name)


def exp_inner(done, expanded_tasks, entry_expanded_tasks, input_task, current_task_name):
    return expanded_tasks == entry_expanded_tasks + [t for t in done if pattern_hit(input_task, current_task_name, t)]


def exp_post(input_tasks, tasks, current_task_name, result):
    return result == expand_spec(input_tasks, tasks, current_task_name)


CONTRACTS += [
    Contract(id='CH.expand_tasks', feas_ms=300, target='taskchain.chain:Chain._expand_tasks', props={'C08': 'decisive'},
             inputs={'input_tasks': S(Seq(Str), 'input_tasks'), 'tasks': S(Seq(Str), 'tasks'), 'current_task_name': S(Str, 'current_task_name')},
             loops={0: Loop('exp_outer', vars={'input_task': Str, 'task_name': Str, 'namespace_check': Bool}, cells={'expanded_tasks': Seq(Str)}),
                    1: Loop('exp_inner', vars={'task_name': Str, 'namespace_check': Bool}, cells={'expanded_tasks': Seq(Str)})},
             ensures={'expansion': 'exp_post'}, l0=['A-re', 'A-split', 'A-str'], searchable=False),
]
