"""task.py: run records (C18): _init_run_info, save_to_run_info, _finish_run_info."""
from pyvc.dsl import *
from pyvc.prims import all_of, any_of, same_map

ParamU = U('RParam')
ReprU = U('ReprText', plain=True)
RecordU = Dyn
InputsU = U('InputKeys', plain=True)
U_ATTRS = {'RParam': {'name': Str}}
U_PURE_METHODS = {'RParam': {'value_repr': ReprU}}

ParamsIface = Iface('RParamsIface', props={'all': Prop(Seq(ParamU))}, methods={'values': Meth(field='all')})
CtxIface = Iface('RCtxIface', props={'name': Prop(Str)})
PCfgIface = Iface('RPCfgIface', classes=('taskchain.chain:TaskParameterConfig',),
                  props={'name': Prop(Str), 'namespace': Prop(Opt(Str)), 'context': Prop(Abs(CtxIface, 'config.context')),
                         'input_tasks': Prop(InputsU)})
NCfgIface = Iface('RNCfgIface', classes=('taskchain.config:Config',),
                  props={'name': Prop(Str), 'namespace': Prop(Opt(Str)), 'context': Prop(Const(None))})


def task_obj(config):
    return Obj('taskchain.task:Task', slugname=S(Str, 'slugname'), parameters=Abs(ParamsIface, 'parameters'), _config=config,
               _run_info=S(U('OldRunInfo', plain=True), 'previous_run_info'))


def ri_task(self):
    """names the task"""
    return self._run_info['task']['name'] == self.slugname


def ri_params(self):
    """the representation of every parameter value used, by parameter name"""
    return same_map(self._run_info['parameters'], {p.name: p.value_repr() for p in self.parameters.all})


def ri_fresh_log(self):
    """records of an earlier run are gone: the log starts empty for every run"""
    return len(self._run_info['log']) == 0


def ri_config_p(self):
    """the config it came from, and the storage key of every input task (parameter mode: the config's input_tasks)"""
    c = self._run_info['config']
    return all_of(c['name'] == self._config.name, c['namespace'] == self._config.namespace, c['context'] == self._config.context.name,
                  self._run_info['input_tasks'] == self._config.input_tasks)


def ri_config_n(self):
    c = self._run_info['config']
    return all_of(c['name'] == self._config.name, c['namespace'] == self._config.namespace, c['context'] is None,
                  'input_tasks' not in self._run_info)


def ri_noconfig(self):
    return 'config' not in self._run_info and 'input_tasks' not in self._run_info


def sri_post(self, record, old_self):
    """records added during run are kept in order: the new one goes last, earlier ones stay"""
    log = self._run_info['log']
    old = old_self._run_info['log']
    return len(log) == len(old) + 1 and log[len(old)] == record and all(log[i] == old[i] for i in range(len(old)))


DataIface = Iface('RDataIface', props={'is_logging': Prop(Bool)}, methods={'save_run_info': Meth(event=True)}, truthy=True)


def fri_saved(self, old_self, trace):
    """the record that is stored is the one of THIS run (the object _init_run_info made), stored exactly once when the data
    object logs, never otherwise"""
    logging_data = self._data is not None and self._data.is_logging
    return trace.count('save_run_info') == (1 if logging_data else 0) and \
        (trace.count('save_run_info') == 0 or trace.arg('save_run_info', 0) is self._run_info)


def fri_keeps(self, old_self):
    """finishing keeps what was recorded: task, parameters, log, config sections untouched"""
    return all_of(self._run_info['task']['name'] == old_self._run_info['task']['name'], self._run_info['log'] == old_self._run_info['log'],
                  same_map(self._run_info['parameters'], old_self._run_info['parameters']))


def run_info_shape():
    return DictOf(task=DictOf(name=S(Str, 'ri_name')), parameters=SymDict(Str, ReprU, 'ri_params'),
                  log=SymList(RecordU, 'ri_log'), started=S(Int, 'ri_started'))


CONTRACTS = [
    Contract(id='T.init_run_info.param', target='taskchain.task:Task._init_run_info', props={'C18': 'decisive'},
             inputs={'self': task_obj(Abs(PCfgIface, 'config'))},
             ensures={'names_task': 'ri_task', 'parameter_reprs': 'ri_params', 'fresh_log': 'ri_fresh_log', 'config_and_inputs': 'ri_config_p'},
             l0=['A-time', 'A-dict'], searchable=False),
    Contract(id='T.init_run_info.name', target='taskchain.task:Task._init_run_info', props={'C18': 'decisive'},
             inputs={'self': task_obj(Abs(NCfgIface, 'config'))},
             ensures={'names_task': 'ri_task', 'parameter_reprs': 'ri_params', 'fresh_log': 'ri_fresh_log', 'config': 'ri_config_n'},
             l0=['A-time', 'A-dict'], searchable=False),
    Contract(id='T.init_run_info.noconfig', target='taskchain.task:Task._init_run_info', props={'C18': 'supporting'},
             inputs={'self': task_obj(Const(None))},
             ensures={'names_task': 'ri_task', 'parameter_reprs': 'ri_params', 'fresh_log': 'ri_fresh_log', 'no_config': 'ri_noconfig'},
             l0=['A-time', 'A-dict'], searchable=False),
    Contract(id='T.save_to_run_info', target='taskchain.task:Task.save_to_run_info', props={'C18': 'decisive'},
             inputs={'self': Obj('taskchain.task:Task', _run_info=DictOf(log=SymList(RecordU, 'ri_log'))), 'record': S(RecordU, 'record')},
             ensures={'appended_in_order': 'sri_post'}, searchable=False),
    Contract(id='T.finish_run_info', target='taskchain.task:Task._finish_run_info', props={'C18': 'decisive'},
             inputs={'self': Obj('taskchain.task:Task', _run_info=run_info_shape(), _data=Abs(DataIface, 'data'))},
             ensures={'stored_this_run': 'fri_saved', 'keeps_records': 'fri_keeps'}, l0=['A-time'], searchable=False),
    Contract(id='T.finish_run_info.nodata', target='taskchain.task:Task._finish_run_info', props={'C18': 'supporting'},
             inputs={'self': Obj('taskchain.task:Task', _run_info=run_info_shape(), _data=Const(None))},
             ensures={'stored_this_run': 'fri_saved'}, l0=['A-time'], searchable=False),
]
