"""Frozen specification of the release-1.4.0 storage key scheme + contracts of the functions that
contribute to a storage location (K1..K14 of DESIGN.md section 4).

The spec functions below were written from the pinned commit (= release 1.4.0 + the unreleased `~~`
input syntax, which does not touch key derivation) and are frozen: any later change of separators,
ordering, hash, truncation, value text, slug derivation or directory layout in /repo fails an
`eq_spec` obligation.  contracts/golden.py pins the spec itself with golden vectors.
"""
from pathlib import Path

from pyvc.dsl import *
from pyvc.prims import sha256_hex, implies
from taskchain.parameter import ParameterObject

# ------------------------------------------------------------------------------------------------
# shapes
# ------------------------------------------------------------------------------------------------
# a Parameter as an element of the registry: what ParameterRegistry.repr needs of it is its `repr`
ParamEntry = Rec('ParamEntry', {'entry': Opt(Str)}, cls='taskchain.parameter:Parameter')

PARAM_FIELDS = dict(_name=Str, _value=Dyn, default=Dyn, ignore_persistence=Bool, dont_persist_default_value=Bool,
                    dtype=Opt(ClsTag))


def ParamObj():
    return Obj('taskchain.parameter:Parameter', **{f: S(k, f'p.{f}') for f, k in PARAM_FIELDS.items()})


def gen_default(g, sofar):
    """bounded search: the default equals the value half of the time (also `==`-equal values of another type)"""
    import copy
    v = sofar.get('p._value')
    c = g.r.random()
    if c < 0.4:
        return copy.deepcopy(v)
    if c < 0.5 and isinstance(v, (bool, int, float)):
        return g.r.choice([int(v), float(v), bool(v)])
    if c < 0.6 and isinstance(v, str):
        from pathlib import Path as P_
        return P_(v)
    return g.dyn()


def gen_namespaced_inputs(g, sofar):
    """bounded search for K9: input names inside (nested, repeated) namespaces"""
    ns = sofar.get('task.cfg.namespace')
    r = g.r
    names = ['a', 'b', 'grp:c', 'm::d', 'm::n::e']
    if ns:
        names = [f'{ns}::{x}' for x in names + [f'{ns}::f', f'q::{ns}::g', ns]]
    out = {}
    for n in r.sample(names, r.choice([0, 1, 2, 3, 4])):
        out[n] = r.choice(['k1', 'k2', 'k3'])
    return out


def gen_namespace(g, sofar):
    return g.r.choice([None, None, 'n', 'a::b', 'x', 'n::n'])


PARAM_GENS = {'p.default': gen_default}


# ------------------------------------------------------------------------------------------------
# spec functions (frozen 1.4.0)
# ------------------------------------------------------------------------------------------------
RECURSIVE = {'enc': ([Dyn], Str)}


def enc(obj):
    """K1  utils.clazz.repr_from_instantiation: the value text."""
    if isinstance(obj, list):
        return '[' + ', '.join([enc(val) for val in obj]) + ']'
    if isinstance(obj, dict):
        return '{' + ', '.join([f'{enc(key)}: {enc(val)}' for key, val in sorted(obj.items())]) + '}'
    if hasattr(obj, 'repr'):
        if callable(obj.repr):
            return obj.repr()
        return obj.repr
    if isinstance(obj, str):
        return f"'{obj}'"
    if hasattr(obj, '_taskchain_instantiate_repr'):
        return obj._taskchain_instantiate_repr
    return repr(obj)


def builtin_isinstance(obj, clazz):
    """assumed contract of utils.clazz.isinstance (K1'): it is the builtin isinstance (classes are
    identified by their full name; two distinct classes never share one).  Conformance: bounded check K1p."""
    return isinstance(obj, clazz)


def param_value(p):
    """K4  Parameter.value (value set)."""
    if p.dtype is Path and p._value is not None:
        return Path(p._value)
    return p._value


def value_text(p):
    """K2  AbstractParameter.value_repr."""
    v = param_value(p)
    if isinstance(v, ParameterObject):
        return v.repr()
    if isinstance(v, Path):
        return repr(p._value)
    return enc(v)


def param_entry(p):
    """K3  AbstractParameter.repr: 'name=value text', or None when excluded from persistence."""
    if p.ignore_persistence:
        return None
    if p.dont_persist_default_value and param_value(p) == p.default:
        return None
    return p._name + '=' + value_text(p)


def param_text(entries):
    """K6  ParameterRegistry.repr: '###'-join of the non-None entries in ascending name order, None if empty."""
    xs = [e for e in [p.entry for n, p in sorted(entries.items())] if e is not None]
    if len(xs) > 0:
        return '###'.join(xs)
    return None


def strip_ns(ns, name):
    if ns:
        return name[len(ns) + 2:]
    return name


def inputs_text(ns, inputs):
    return '###'.join([strip_ns(ns, n) + '=' + k for n, k in sorted(inputs.items())])


def key_text(ptext, ns, inputs):
    return f'{ptext}$$${inputs_text(ns, inputs)}'


def key_of(ptext, ns, inputs):
    """K9  TaskParameterConfig.get_name_for_persistence."""
    return sha256_hex(key_text(ptext, ns, inputs))[:32]


# ------------------------------------------------------------------------------------------------
# clauses
# ------------------------------------------------------------------------------------------------
def k1_eq_spec(obj, result):
    return result == enc(obj)


def k1_canary(result):
    return result == 'None'


def k2_eq_spec(self, result):
    return result == value_text(self)


def k2_canary(result):
    return result == ''


def k3_eq_spec(self, result):
    return result == param_entry(self)


def k3_canary(result):
    return result is None


def k4_eq_spec(self, result):
    return result == param_value(self)


def k4_canary(result):
    return result is None


def k6_eq_spec(self, result):
    return result == param_text(self._parameters)


def k6_inv(done, reprs):
    return reprs == [e for e in [p.entry for n, p in done] if e is not None]


def k6_entry(self):
    return self.entry


def k6_canary(result):
    return result is None


def k9_names_prefixed(self, task):
    """the code asserts it: inside a namespace every input name starts with the namespace"""
    ns = task._cfg.namespace
    return ns is None or ns == '' or all([n.startswith(ns) for n in self.input_tasks])


def k9_eq_spec(self, task, result):
    return result == key_of(task.parameters.repr, task._cfg.namespace, self.input_tasks)


def k9_canary(result):
    return result.startswith('a')


ParamsIface = Iface('ParamsIface', props={'repr': Prop(Opt(Str))})
CfgNsIface = Iface('CfgNsIface', props={'namespace': Prop(Opt(Str))})
TaskForKeyIface = Iface('TaskForKeyIface',
                        props={'parameters': Prop(Abs(ParamsIface, 'task.parameters')), '_cfg': Prop(Abs(CfgNsIface, 'task.cfg'))},
                        methods={'get_config': Meth(field='_cfg')})


CONTRACTS = [
    Contract(
        id='K1', target='taskchain.utils.clazz:repr_from_instantiation',
        props={'C12': 'decisive', 'C02': 'supporting', 'C03': 'supporting', 'C01': 'supporting'},
        inputs={'obj': S(Dyn, 'obj')},
        callees={'taskchain.utils.clazz:repr_from_instantiation': ByContract(spec='enc'),
                 'taskchain.utils.clazz:isinstance': ByContract(spec='builtin_isinstance')},
        ensures={'eq_spec': 'k1_eq_spec'},
        canary='k1_canary', l0=['A-repr', 'A-sorted', "K1' (clazz.isinstance == builtins.isinstance, bounded check)"],
    ),
    Contract(
        id='K4', target='taskchain.parameter:Parameter.value',
        props={'C12': 'decisive', 'C02': 'supporting', 'C03': 'supporting', 'C01': 'supporting'},
        inputs={'self': ParamObj()}, native_gens=PARAM_GENS,
        ensures={'eq_spec': 'k4_eq_spec'}, may_raise=['TypeError'],
        canary='k4_canary',
    ),
    Contract(
        id='K2', target='taskchain.parameter:AbstractParameter.value_repr',
        props={'C12': 'decisive', 'C02': 'supporting', 'C03': 'supporting', 'C01': 'supporting'},
        inputs={'self': ParamObj()}, native_gens=PARAM_GENS,
        callees={'taskchain.parameter:Parameter.value': ByContract(spec='param_value'),
                 'taskchain.utils.clazz:repr_from_instantiation': ByContract(spec='enc')},
        ensures={'eq_spec': 'k2_eq_spec'}, may_raise=['TypeError'],
        canary='k2_canary',
    ),
    Contract(
        id='K3', target='taskchain.parameter:AbstractParameter.repr',
        props={'C12': 'decisive', 'C02': 'supporting', 'C03': 'supporting', 'C01': 'supporting'},
        inputs={'self': ParamObj()}, native_gens=PARAM_GENS,
        callees={'taskchain.parameter:Parameter.value': ByContract(spec='param_value'),
                 'taskchain.parameter:AbstractParameter.value_repr': ByContract(spec='value_text')},
        ensures={'eq_spec': 'k3_eq_spec'}, may_raise=['TypeError'],
        canary='k3_canary',
    ),
    Contract(
        id='K6', target='taskchain.parameter:ParameterRegistry.repr',
        props={'C12': 'decisive', 'C02': 'supporting', 'C03': 'supporting', 'C01': 'supporting'},
        inputs={'self': Obj('taskchain.parameter:ParameterRegistry', _parameters=SymDict(Str, ParamEntry, 'params'))},
        callees={'taskchain.parameter:AbstractParameter.repr': ByContract(spec='k6_entry')},
        ensures={'eq_spec': 'k6_eq_spec'},
        loops={0: Loop('k6_inv', cells={'reprs': Seq(Str)}, vars={'repr': Opt(Str), 'name': Str, 'parameter': ParamEntry})},
        canary='k6_canary',
    ),
    Contract(
        id='K9', target='taskchain.chain:TaskParameterConfig.get_name_for_persistence',
        props={'C12': 'decisive', 'C02': 'supporting', 'C03': 'supporting', 'C13': 'supporting', 'C01': 'supporting', 'C04': 'supporting'},
        inputs={'task': Abs(TaskForKeyIface, 'task'),
                'self': Obj('taskchain.chain:TaskParameterConfig', input_tasks=SymDict(Str, Str, 'inputs'))},
        call=['self', 'task'],
        native_gens={'inputs': gen_namespaced_inputs, 'task.cfg.namespace': gen_namespace},
        requires=['k9_names_prefixed'],
        ensures={'eq_spec': 'k9_eq_spec'}, may_raise=['AssertionError'],
        canary='k9_canary', l0=['A-sha', 'A-sorted'],
    ),
]


# ================================================================================================
# K8  chain.py : TaskParameterConfig.__init__   (C01, C02, C03, C09, C12)
# ================================================================================================
from pyvc.prims import seq_fold, same_map, empty_map

ParamNameRec = Rec('ParamNameRec', {'name_in_config': Str})
KeyCfgRec = Rec('KeyCfgRec', {'key': Str}, cls='taskchain.chain:TaskParameterConfig')
InTaskRec = Rec('InTaskRec', {'_config': KeyCfgRec}, cls='taskchain.task:Task')


def _cfg_contains(ex, ref, args):
    import z3
    from pyvc import pyops as P
    from pyvc.kinds import Sym
    return Sym(Bool, P.ufn('in_cfg', [z3.StringSort()], z3.BoolSort())(P.str_t(ex, args[0])))


def _cfg_getitem(ex, ref, args):
    import z3
    from pyvc import pyops as P
    from pyvc.kinds import Sym
    return Sym(Dyn, P.ufn('cfg_val', [z3.StringSort()], Dyn.sort())(P.str_t(ex, args[0])))


class _NativeOrigConfig:
    def __init__(self, name, source, log, fields):
        self._source = source
        self._t = {}
        self.base_dir = source(f'{name}.base_dir', Opt(PathK))
        self.namespace = source(f'{name}.namespace', Opt(Str))
        self.global_vars = source(f'{name}.global_vars', U('GV'))
        self.context = source(f'{name}.context', U('Ctx'))
        self.name = source(f'{name}.name', Str)

    def _e(self, k):
        if k not in self._t:
            self._t[k] = (bool(self._source(f'in_cfg[{k}]', Bool)), self._source(f'cfg_val[{k}]', Dyn))
        return self._t[k]

    def __contains__(self, k):
        return self._e(k)[0]

    def __getitem__(self, k):
        return self._e(k)[1]


OrigConfigIface = Iface('OrigConfigIface',
                        props={'base_dir': Prop(Opt(PathK)), 'namespace': Prop(Opt(Str)), 'global_vars': Prop(U('GV')), 'context': Prop(U('Ctx')),
                               'name': Prop(Str)},
                        methods={'__contains__': Meth(ret=_cfg_contains, event=False), '__getitem__': Meth(ret=_cfg_getitem, event=False)},
                        native_factory=lambda name, source, log, fields: _NativeOrigConfig(name, source, log, fields))
ParamValuesIface = Iface('ParamValuesIface', props={'all': Prop(Seq(ParamNameRec))},
                         methods={'values': Meth(field='all')})
OrigTaskIface = Iface('OrigTaskIface', props={'_cfg': Prop(Abs(OrigConfigIface, 'orig_config')), 'parameters': Prop(Abs(ParamValuesIface, 'orig_params')),
                                              'fullname': Prop(Str)},
                      methods={'get_config': Meth(field='_cfg'), '__str__': Meth(field='fullname')})


def k8_key_of(self, task):
    return self.key


def k8_step(d, parameter, cfg):
    d2 = dict(d)
    if parameter.name_in_config in cfg:
        d2[parameter.name_in_config] = cfg[parameter.name_in_config]
    return d2


def k8_inv(self, done, original_task):
    cfg = original_task.get_config()
    return same_map(self._data, seq_fold(lambda d, p: k8_step(d, p, cfg), empty_map('Str', 'Dyn'), done))


def k8_post(self, original_task, input_tasks):
    """exactly the entries of the declaring config for the parameters the task declares; the input keys by name;
    namespace / base dir / context / global vars of the declaring config"""
    cfg = original_task.get_config()
    return same_map(self._data, seq_fold(lambda d, p: k8_step(d, p, cfg), empty_map('Str', 'Dyn'), original_task.parameters.values())) \
        and self.input_tasks == {name: task._config.key for name, task in input_tasks.items()} \
        and self.namespace == cfg.namespace and self.base_dir == cfg.base_dir and self.context == cfg.context \
        and self.global_vars == cfg.global_vars and self.original_config is cfg and self._part is None \
        and self._name == f'{cfg.name}/{original_task.fullname}'


CONTRACTS += [
    Contract(
        id='K8', target='taskchain.chain:TaskParameterConfig.__init__',
        props={'C01': 'decisive', 'C02': 'supporting', 'C03': 'supporting', 'C04': 'supporting', 'C09': 'decisive', 'C12': 'decisive', 'C13': 'supporting'},
        inputs={'self': Obj('taskchain.chain:TaskParameterConfig'), 'original_task': Abs(OrigTaskIface, 'original_task'),
                'input_tasks': SymDict(Str, InTaskRec, 'input_tasks')},
        callees={'taskchain.chain:TaskParameterConfig.get_name_for_persistence': ByContract(spec='k8_key_of')},
        ensures={'post': 'k8_post'},
        loops={0: Loop('k8_inv', vars={'parameter': ParamNameRec}, attrs={'self._data': Map(Str, Dyn)})},
        l0=['A-dict'], searchable=False,
    ),
]
