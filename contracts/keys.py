"""Frozen specification of the release-1.4.0 storage key scheme + contracts of the functions that
contribute to a storage location (K1..K14 of DESIGN.md section 4).

The spec functions below were written from the pinned commit (= release 1.4.0 + the unreleased `~~`
input syntax, which does not touch key derivation) and are frozen: any later change of separators,
ordering, hash, truncation, value text, slug derivation or directory layout in /repo fails an
`eq_spec` obligation.  contracts/golden.py pins the spec itself with golden vectors.
"""
from pathlib import Path

from pyvc.dsl import *
from pyvc.prims import sha256_hex, implies
from taskchain.parameter import ParameterObject

# ------------------------------------------------------------------------------------------------
# shapes
# ------------------------------------------------------------------------------------------------
# a Parameter as an element of the registry: what ParameterRegistry.repr needs of it is its `repr`
ParamEntry = Rec('ParamEntry', {'entry': Opt(Str)}, cls='taskchain.parameter:Parameter')

PARAM_FIELDS = dict(_name=Str, _value=Dyn, default=Dyn, ignore_persistence=Bool, dont_persist_default_value=Bool,
                    dtype=Opt(ClsTag))


def ParamObj():
    return Obj('taskchain.parameter:Parameter', **{f: S(k, f'p.{f}') for f, k in PARAM_FIELDS.items()})


def gen_default(g, sofar):
    """bounded search: the default equals the value half of the time (also `==`-equal values of another type)"""
    import copy
    v = sofar.get('p._value')
    c = g.r.random()
    if c < 0.4:
        return copy.deepcopy(v)
    if c < 0.5 and isinstance(v, (bool, int, float)):
        return g.r.choice([int(v), float(v), bool(v)])
    if c < 0.6 and isinstance(v, str):
        from pathlib import Path as P_
        return P_(v)
    return g.dyn()


def gen_namespaced_inputs(g, sofar):
    """bounded search for K9: input names inside (nested, repeated) namespaces"""
    ns = sofar.get('task.cfg.namespace')
    r = g.r
    names = ['a', 'b', 'grp:c', 'm::d', 'm::n::e']
    if ns:
        names = [f'{ns}::{x}' for x in names + [f'{ns}::f', f'q::{ns}::g', ns]]
    out = {}
    for n in r.sample(names, r.choice([0, 1, 2, 3, 4])):
        out[n] = r.choice(['k1', 'k2', 'k3'])
    return out


def gen_namespace(g, sofar):
    return g.r.choice([None, None, 'n', 'a::b', 'x', 'n::n'])


PARAM_GENS = {'p.default': gen_default}


# ------------------------------------------------------------------------------------------------
# spec functions (frozen 1.4.0)
# ------------------------------------------------------------------------------------------------
RECURSIVE = {'enc': ([Dyn], Str)}


def enc(obj):
    """K1  utils.clazz.repr_from_instantiation: the value text."""
    if isinstance(obj, list):
        return '[' + ', '.join([enc(val) for val in obj]) + ']'
    if isinstance(obj, dict):
        return '{' + ', '.join([f'{enc(key)}: {enc(val)}' for key, val in sorted(obj.items())]) + '}'
    if hasattr(obj, 'repr'):
        if callable(obj.repr):
            return obj.repr()
        return obj.repr
    if isinstance(obj, str):
        return f"'{obj}'"
    if hasattr(obj, '_taskchain_instantiate_repr'):
        return obj._taskchain_instantiate_repr
    return repr(obj)


def builtin_isinstance(obj, clazz):
    """assumed contract of utils.clazz.isinstance (K1'): it is the builtin isinstance (classes are
    identified by their full name; two distinct classes never share one).  Conformance: bounded check K1p."""
    return isinstance(obj, clazz)


def param_value(p):
    """K4  Parameter.value (value set)."""
    if p.dtype is Path and p._value is not None:
        return Path(p._value)
    return p._value


def value_text(p):
    """K2  AbstractParameter.value_repr."""
    v = param_value(p)
    if isinstance(v, ParameterObject):
        return v.repr()
    if isinstance(v, Path):
        return repr(p._value)
    return enc(v)


def param_entry(p):
    """K3  AbstractParameter.repr: 'name=value text', or None when excluded from persistence."""
    if p.ignore_persistence:
        return None
    if p.dont_persist_default_value and param_value(p) == p.default:
        return None
    return p._name + '=' + value_text(p)


def param_text(entries):
    """K6  ParameterRegistry.repr: '###'-join of the non-None entries in ascending name order, None if empty."""
    xs = [e for e in [p.entry for n, p in sorted(entries.items())] if e is not None]
    if len(xs) > 0:
        return '###'.join(xs)
    return None


def strip_ns(ns, name):
    if ns:
        return name[len(ns) + 2:]
    return name


def inputs_text(ns, inputs):
    return '###'.join([strip_ns(ns, n) + '=' + k for n, k in sorted(inputs.items())])


def key_text(ptext, ns, inputs):
    return f'{ptext}$$${inputs_text(ns, inputs)}'


def key_of(ptext, ns, inputs):
    """K9  TaskParameterConfig.get_name_for_persistence."""
    return sha256_hex(key_text(ptext, ns, inputs))[:32]


# ------------------------------------------------------------------------------------------------
# clauses
# ------------------------------------------------------------------------------------------------
def k1_eq_spec(obj, result):
    return result == enc(obj)


def k1_canary(result):
    return result == 'None'


def k2_eq_spec(self, result):
    return result == value_text(self)


def k2_canary(result):
    return result == ''


def k3_eq_spec(self, result):
    return result == param_entry(self)


def k3_canary(result):
    return result is None


def k4_eq_spec(self, result):
    return result == param_value(self)


def k4_canary(result):
    return result is None


def k6_eq_spec(self, result):
    return result == param_text(self._parameters)


def k6_inv(done, reprs):
    return reprs == [e for e in [p.entry for n, p in done] if e is not None]


def k6_entry(self):
    return self.entry


def k6_canary(result):
    return result is None


def k9_names_prefixed(self, task):
    """the code asserts it: inside a namespace every input name starts with the namespace"""
    ns = task._cfg.namespace
    return ns is None or ns == '' or all([n.startswith(ns) for n in self.input_tasks])


def k9_eq_spec(self, task, result):
    return result == key_of(task.parameters.repr, task._cfg.namespace, self.input_tasks)


def k9_canary(result):
    return result.startswith('a')


ParamsIface = Iface('ParamsIface', props={'repr': Prop(Opt(Str))})
CfgNsIface = Iface('CfgNsIface', props={'namespace': Prop(Opt(Str))})
TaskForKeyIface = Iface('TaskForKeyIface',
                        props={'parameters': Prop(Abs(ParamsIface, 'task.parameters')), '_cfg': Prop(Abs(CfgNsIface, 'task.cfg'))},
                        methods={'get_config': Meth(field='_cfg')})


CONTRACTS = [
    Contract(
        id='K1', target='taskchain.utils.clazz:repr_from_instantiation',
        props={'C12': 'decisive', 'C02': 'supporting', 'C03': 'supporting'},
        inputs={'obj': S(Dyn, 'obj')},
        callees={'taskchain.utils.clazz:repr_from_instantiation': ByContract(spec='enc'),
                 'taskchain.utils.clazz:isinstance': ByContract(spec='builtin_isinstance')},
        ensures={'eq_spec': 'k1_eq_spec'},
        canary='k1_canary', l0=['A-repr', 'A-sorted', "K1' (clazz.isinstance == builtins.isinstance, bounded check)"],
    ),
    Contract(
        id='K4', target='taskchain.parameter:Parameter.value',
        props={'C12': 'decisive', 'C02': 'supporting', 'C03': 'supporting'},
        inputs={'self': ParamObj()}, native_gens=PARAM_GENS,
        ensures={'eq_spec': 'k4_eq_spec'},
        canary='k4_canary',
    ),
    Contract(
        id='K2', target='taskchain.parameter:AbstractParameter.value_repr',
        props={'C12': 'decisive', 'C02': 'supporting', 'C03': 'supporting'},
        inputs={'self': ParamObj()}, native_gens=PARAM_GENS,
        callees={'taskchain.parameter:Parameter.value': ByContract(spec='param_value'),
                 'taskchain.utils.clazz:repr_from_instantiation': ByContract(spec='enc')},
        ensures={'eq_spec': 'k2_eq_spec'},
        canary='k2_canary',
    ),
    Contract(
        id='K3', target='taskchain.parameter:AbstractParameter.repr',
        props={'C12': 'decisive', 'C02': 'supporting', 'C03': 'supporting'},
        inputs={'self': ParamObj()}, native_gens=PARAM_GENS,
        callees={'taskchain.parameter:Parameter.value': ByContract(spec='param_value'),
                 'taskchain.parameter:AbstractParameter.value_repr': ByContract(spec='value_text')},
        ensures={'eq_spec': 'k3_eq_spec'},
        canary='k3_canary',
    ),
    Contract(
        id='K6', target='taskchain.parameter:ParameterRegistry.repr',
        props={'C12': 'decisive', 'C02': 'supporting', 'C03': 'supporting'},
        inputs={'self': Obj('taskchain.parameter:ParameterRegistry', _parameters=SymDict(Str, ParamEntry, 'params'))},
        callees={'taskchain.parameter:AbstractParameter.repr': ByContract(spec='k6_entry')},
        ensures={'eq_spec': 'k6_eq_spec'},
        loops={0: Loop('k6_inv', cells={'reprs': Seq(Str)}, vars={'repr': Opt(Str), 'name': Str, 'parameter': ParamEntry})},
        canary='k6_canary',
    ),
    Contract(
        id='K9', target='taskchain.chain:TaskParameterConfig.get_name_for_persistence',
        props={'C12': 'decisive', 'C02': 'supporting', 'C03': 'supporting'},
        inputs={'task': Abs(TaskForKeyIface, 'task'),
                'self': Obj('taskchain.chain:TaskParameterConfig', input_tasks=SymDict(Str, Str, 'inputs'))},
        call=['self', 'task'],
        native_gens={'inputs': gen_namespaced_inputs, 'task.cfg.namespace': gen_namespace},
        requires=['k9_names_prefixed'],
        ensures={'eq_spec': 'k9_eq_spec'},
        canary='k9_canary', l0=['A-sha', 'A-sorted'],
    ),
]
