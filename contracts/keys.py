"""Frozen specification of the release-1.4.0 storage key scheme + contracts of the functions that
contribute to a storage location (K1..K14 of DESIGN.md section 4)."""
from pyvc.dsl import *

# ------------------------------------------------------------------------------------------------
# shapes
# ------------------------------------------------------------------------------------------------
# a Parameter as an element of the registry: what ParameterRegistry.repr needs of it is its `repr`
ParamEntry = Rec('ParamEntry', {'entry': Opt(Str)}, cls='taskchain.parameter:Parameter')


# ------------------------------------------------------------------------------------------------
# spec functions (frozen 1.4.0)
# ------------------------------------------------------------------------------------------------
def param_text(entries):
    """ParameterRegistry.repr: '###'-join of the non-None entries in ascending name order, None if empty."""
    xs = [e for e in [p.entry for n, p in sorted(entries.items())] if e is not None]
    if len(xs) > 0:
        return '###'.join(xs)
    return None


# ------------------------------------------------------------------------------------------------
# clauses
# ------------------------------------------------------------------------------------------------
def k6_eq_spec(self, result):
    return result == param_text(self._parameters)


def k6_inv(done, reprs):
    return reprs == [e for e in [p.entry for n, p in done] if e is not None]


def k6_entry(self):
    return self.entry


def k6_canary(result):
    return result is None


CONTRACTS = [
    Contract(
        id='K6', target='taskchain.parameter:ParameterRegistry.repr',
        props={'C12': 'decisive', 'C02': 'supporting', 'C03': 'supporting'},
        inputs={'self': Obj('taskchain.parameter:ParameterRegistry', _parameters=SymDict(Str, ParamEntry, 'params'))},
        callees={'taskchain.parameter:AbstractParameter.repr': ByContract(spec='k6_entry')},
        ensures={'eq_spec': 'k6_eq_spec'},
        loops={0: Loop('k6_inv', cells={'reprs': Seq(Str)}, vars={'repr': Opt(Str), 'name': Str, 'parameter': ParamEntry})},
        canary='k6_canary',
    ),
]
