"""task.py: Task.data and friends -- effect-level contracts (ghost trace, abstract Data interface).

Serves C01 (load-or-run decision), C04 (at most one run, loading touches no upstream), C05 (error
protocol), C07 (forced path), C18 (handler balance, run-info order).
"""
from pyvc.dsl import *
from pyvc.prims import implies

Val = U('Val', plain=True)
Handler = U('Handler')
TypeU = U('Type')


# ------------------------------------------------------------------------------------------------
# interfaces of the abstract collaborators
# ------------------------------------------------------------------------------------------------
def _eff_init_persistence(ex, ref, args, ret):
    cell = ex.run.cell(ref)
    cell.fields['persisting'] = cell.fields['persists_after_init']


def _nat_init_persistence(stub, base_dir, name):
    stub.__dict__['persisting'] = stub.persists_after_init


DataIface = Iface(
    'DataIface',
    props={
        # Data.__init__ sets _persisting False; init_persistence makes it True for every file-backed class
        # and leaves it False for InMemoryData -> `persists_after_init` is a property of the data class
        'persisting': Prop(Bool), 'persists_after_init': Prop(Bool),
        'is_persisting': Prop(fn=lambda ex, ref: ex.run.cell(ref).fields['persisting'], native=lambda stub: stub.persisting),
        'is_logging': Prop(Bool),
        'value': Prop(Val),
    },
    methods={
        'exists': Meth(ret=Bool, pure=True),
        'load': Meth(raises=True, nargs=1),
        'init_persistence': Meth(effect=_eff_init_persistence, native=_nat_init_persistence),
        'get_log_handler': Meth(ret=Handler),
        'on_run_error': Meth(),
        'set_value': Meth(raises=True),
        'save': Meth(raises=True),
    })


def _new_data(ex, ref, args):
    """data_class(): a fresh data object, not persisting (Data.__init__)."""
    from pyvc.contracts import InputBuilder
    from pyvc import dsl as d
    ib = InputBuilder(ex, ex.contracts)
    obj = ib._build(d.Abs(DataIface, 'data', persisting=d.Const(False)), 'data')
    return obj


def _nat_new_data(stub):
    from pyvc.native import Stub
    d = object.__getattribute__(stub, '__dict__')
    s = Stub(DataIface, 'data', d['_source'], d['_log'], {'persisting': False})
    return s


def _native_data_class(name, source, log, fields):
    """a real class for the replay: inspect.signature / inspect.isabstract are the real ones"""
    import abc
    from pyvc.native import Stub
    from pyvc.kinds import Int as KInt, Bool as KBool
    n = source(f'{name}.__sig_len__', KInt)
    n = 0 if n is None or n < 0 else min(n, 3)
    is_abs = bool(source(f'{name}.__isabstract__', KBool))
    params = ''.join(f', p{i}' for i in range(n))
    ns = {'Stub': Stub, 'DataIface': DataIface, 'source': source, 'log': log}
    exec(f"def __new__(cls{params}):\n    log.append(('__call__', (), None, 'ret'))\n    return Stub(DataIface, 'data', source, log, {{'persisting': False}})", ns)
    body = {'__new__': ns['__new__']}
    if is_abs:
        body['_abstract_marker'] = abc.abstractmethod(lambda self: None)
    return abc.ABCMeta('ReplayDataClass', (), body)


DataClassIface = Iface(
    'DataClassIface',
    props={'__sig_len__': Prop(Int), '__isabstract__': Prop(Bool)},
    methods={'__call__': Meth(ret=_new_data, native=_nat_new_data, event=True)},
    native_factory=_native_data_class)


def _eff_add(ex, ref, args, ret):
    cell = ex.run.cell(ref)
    cell.fields['handlers'] = tuple(cell.fields.get('handlers', ())) + (args[0],)


def _eff_remove(ex, ref, args, ret):
    """Logger.removeHandler: removes the handler if present (None / absent: no-op)."""
    from pyvc import pyops as P
    cell = ex.run.cell(ref)
    hs = list(cell.fields.get('handlers', ()))
    for i, h in enumerate(hs):
        if ex.truth(P.eq(ex, h, args[0])):
            del hs[i]
            break
    cell.fields['handlers'] = tuple(hs)


def _nat_add(stub, h):
    stub.__dict__['handlers'] = tuple(stub.handlers) + (h,)


def _nat_remove(stub, h):
    hs = list(stub.handlers)
    if h in hs:
        hs.remove(h)
    stub.__dict__['handlers'] = tuple(hs)


LoggerIface = Iface(
    'LoggerIface', props={'handlers': Prop(const=())},
    methods={'addHandler': Meth(effect=_eff_add, native=_nat_add), 'removeHandler': Meth(effect=_eff_remove, native=_nat_remove),
             'info': Meth(event=False), 'warning': Meth(event=False), 'debug': Meth(event=False)})

ParamsReprIface = Iface('ParamsReprIface', props={'repr': Prop(Opt(Str))})
ConfigIface = Iface('ConfigIface', props={'base_dir': Prop(Opt(PathK))},
                    methods={'get_name_for_persistence': Meth(ret=Str, pure=True, event=False)})


def task_obj(config=True, data=None):
    return Obj('taskchain.task:Task',
               _data=data if data is not None else Const(None),
               _forced=S(Bool, 'forced'),
               _config=Abs(ConfigIface, 'config') if config else Const(None),
               data_class=Abs(DataClassIface, 'data_class'),
               data_type=S(TypeU, 'data_type'),
               logger=Abs(LoggerIface, 'logger'),
               params=Abs(ParamsReprIface, 'params'),
               fullname=S(Str, 'fullname'), slugname=S(Str, 'slugname'))


CALLEES = {
    'taskchain.task:Task._get_run_arguments': ByContract(ret=Seq(Val), raises=['Opaque'], event='_get_run_arguments', pure=False),
    'taskchain.task:Task.run': ByContract(ret=Val, raises=['Opaque'], event='run', pure=False),
    'taskchain.task:Task._process_run_result': ByContract(raises=['Opaque'], event='_process_run_result', pure=False),
    'taskchain.task:Task._init_run_info': ByContract(event='_init_run_info', pure=False),
    'taskchain.task:Task._finish_run_info': ByContract(event='_finish_run_info', pure=False),
}


# ------------------------------------------------------------------------------------------------
# clauses
# ------------------------------------------------------------------------------------------------
def created(trace):
    return trace.has('__call__')


def loadable(self, old_self, trace):
    """a stored result may be loaded: the data object was created, is persisting after init, exists, not forced"""
    return created(trace) and self._data is not None and trace.has('exists') and trace.ret('exists') and not old_self._forced


def d_memo(self, old_self, result, trace):
    return result is self._data and result is not None and trace.length == 0


def d_at_most_one_run(trace):
    return trace.count('run') <= 1


def d_load_touches_nothing(trace):
    """C04: a stored result is loaded without running anything and without touching the upstream"""
    return (not trace.has('load')) or (not trace.has('run') and not trace.has('_get_run_arguments'))


def d_run_only_if_not_loadable(self, old_self, trace):
    """C01/C04: run executes only when no result may be loaded: no data object created, or not persisting,
    or nothing stored, or the task is forced"""
    return (not trace.has('run')) or not created(trace) or not trace.has('exists') or not trace.ret('exists') or old_self._forced


def d_load_only_if_loadable(self, old_self, trace):
    """C01: a stored result is loaded only when it exists under this task's own location and the task is not
    forced; the location given to the data object is this task's path and key"""
    return (not trace.has('load')) or (trace.has('exists') and trace.ret('exists') and not old_self._forced and created(trace)
                                       and trace.count('init_persistence') == 1)


def d_location(self, trace):
    """the data object is told to persist at (task.path, config.get_name_for_persistence(task))"""
    return (not trace.has('init_persistence')) or trace.arg('init_persistence', 1) == self._config.get_name_for_persistence(self)


def d_forced_runs_once(self, old_self, trace, result):
    """C07: forced although a result exists -> run executes exactly once and the result is processed (saved)"""
    return (not old_self._forced) or (trace.count('run') == 1 and trace.count('_process_run_result') == 1
                                      and trace.index('run') < trace.index('_process_run_result') and not trace.has('load'))


def d_returns_data(self, result):
    return result is self._data


def d_run_result_processed(trace):
    """the value handed to the data object is what run returned"""
    return (not trace.has('_process_run_result')) or trace.arg('_process_run_result', 1) == trace.ret('run')


def d_info_after_save(trace):
    """C18: run info is finished only after the result was processed (stored)"""
    return (not trace.has('_finish_run_info')) or (trace.has('_process_run_result')
                                                   and trace.index('_process_run_result') < trace.index('_finish_run_info'))


def d_run_info_fresh(trace):
    return (not trace.has('run')) or (trace.has('_init_run_info') and trace.index('_init_run_info') < trace.index('run'))


def d_no_info_on_error(trace):
    return not trace.has('_finish_run_info')


def d_handler_balanced(self, old_self):
    """C18: whatever happens, the task's logger has the handlers it had before"""
    return self.logger.handlers == old_self.logger.handlers


def d_error_protocol(self, trace, raised):
    """C05: an error while computing resets the task: on_run_error invoked iff a data object existed, _data
    dropped, so that requesting again starts afresh"""
    load_failed = trace.has('load')
    return ((not created(trace)) or (self._data is None and trace.count('on_run_error') == (0 if load_failed else 1))) and \
        (created(trace) or not trace.has('on_run_error'))


def d_failed_attempt_stays_forced(self, old_self):
    """C07: a forced task whose recomputation fails is still forced: the retry must not load the stale result"""
    return (not old_self._forced) or self._forced


def d_error_is_reraised(trace, raised):
    return raised == 'Opaque'


def has_base_dir(self):
    """a task that persists needs a config with a base dir (Task.path raises ValueError otherwise: T.data.nobase)"""
    return self._config.base_dir is not None


def d_nobase(self, raised, trace):
    return raised == 'ValueError' and not trace.has('run') and not trace.has('load')


def no_base_dir(self):
    return self._config.base_dir is None


def d_canary(trace):
    return trace.has('load')


CONTRACTS = [
    Contract(
        id='T.data.memo', target='taskchain.task:Task.data',
        props={'C01': 'decisive', 'C04': 'decisive'},
        inputs={'self': task_obj(data=Abs(DataIface, 'data'))},
        callees=CALLEES, ensures={'memo': 'd_memo'}, searchable=True,
    ),
    Contract(
        id='T.data', target='taskchain.task:Task.data',
        props={'C01': 'decisive', 'C04': 'decisive', 'C05': 'decisive', 'C07': 'decisive', 'C18': 'decisive'},
        inputs={'self': task_obj()}, requires=['has_base_dir'],
        callees=CALLEES,
        ensures={'returns_data': 'd_returns_data', 'forced_runs_once': 'd_forced_runs_once', 'info_after_save': 'd_info_after_save',
                 'run_result_processed': 'd_run_result_processed'},
        ensures_raise={'error_protocol': 'd_error_protocol', 'no_info_on_error': 'd_no_info_on_error',
                       'failed_attempt_stays_forced': 'd_failed_attempt_stays_forced'},
        ensures_all={'at_most_one_run': 'd_at_most_one_run', 'load_touches_nothing': 'd_load_touches_nothing',
                     'run_only_if_not_loadable': 'd_run_only_if_not_loadable', 'load_only_if_loadable': 'd_load_only_if_loadable',
                     'location': 'd_location', 'run_info_fresh': 'd_run_info_fresh', 'handler_balanced': 'd_handler_balanced'},
        clause_props={'returns_data': ['C01'], 'forced_runs_once': ['C07'], 'info_after_save': ['C18'],
                      'run_result_processed': ['C01', 'C06'], 'error_protocol': ['C05', 'C01'], 'no_info_on_error': ['C18'],
                      'at_most_one_run': ['C04', 'C07'], 'load_touches_nothing': ['C04'], 'run_only_if_not_loadable': ['C01', 'C04'],
                      'load_only_if_loadable': ['C01', 'C07'], 'location': ['C01'], 'run_info_fresh': ['C18'],
                      'handler_balanced': ['C18'], 'failed_attempt_stays_forced': ['C07']},
        canary='d_canary', l0=['A-inspect', 'A-log'],
    ),
    Contract(
        id='T.data.nobase', target='taskchain.task:Task.data', props={'C04': 'supporting'},
        inputs={'self': task_obj()}, requires=['no_base_dir'], callees=CALLEES,
        ensures_all={'at_most_one_run': 'd_at_most_one_run', 'load_touches_nothing': 'd_load_touches_nothing'},
    ),
    Contract(
        id='T.data.noconfig', target='taskchain.task:Task.data',
        props={'C01': 'decisive', 'C04': 'decisive', 'C05': 'decisive', 'C18': 'decisive'},
        inputs={'self': task_obj(config=False)},
        callees=CALLEES,
        ensures={'returns_data': 'd_returns_data', 'info_after_save': 'd_info_after_save'},
        ensures_raise={'error_protocol': 'd_error_protocol'},
        ensures_all={'at_most_one_run': 'd_at_most_one_run', 'load_touches_nothing': 'd_load_touches_nothing',
                     'handler_balanced': 'd_handler_balanced'},
        clause_props={'returns_data': ['C01'], 'info_after_save': ['C18'], 'error_protocol': ['C05', 'C01'], 'at_most_one_run': ['C04'],
                      'load_touches_nothing': ['C04'], 'handler_balanced': ['C18']},
        l0=['A-inspect', 'A-log'],
    ),
]
