"""Bounded stand-ins (never counted as proved): native checks of the REAL code on an enumerated / sampled
domain, used (a) as conformance tests of the assumed library contracts (A-json, A-np, A-pd ...) that the
proofs rest on, (b) where a function is outside the executor's subset.  Each reports its bound."""
import hashlib
import json
import os
import random
import shutil
import tempfile


def _hash_tree(root):
    out = {}
    for dp, dn, fn in os.walk(root):
        for f in fn:
            p = os.path.join(dp, f)
            out[os.path.relpath(p, root)] = hashlib.sha256(open(p, 'rb').read()).hexdigest()
        for d in dn:
            out[os.path.relpath(os.path.join(dp, d), root) + '/'] = 'dir'
    return out


def _json_values(r, n):
    base = [None, True, False, 0, 1, -1, 2**63 - 1, -2**63, 2**64 - 1, 0.5, -0.0, 1e-13, 1e300, 5e-324, '', 'a', 'ünï', ' x ', 'a\u0085b',
            'line\nbreak', 'tab\t', '"q"', '\\', [], {}, [[]], {'a': {}}, [1, [2, [3]]], {'b': 1, 'a': 2}, {'k': [1, 2, {'z': None}]},
            'x' * 300, list(range(20)), {'': ''}, [0.1 + 0.2, 0.3], {'ä': 'ö'}, '\x00', '\x1f', '퟿', '😀']
    out = [v for v in base if v is not None and not isinstance(v, bool) or True]

    def rnd(depth=0):
        c = r.random()
        if depth > 2 or c < 0.4:
            return r.choice(base)
        if c < 0.7:
            return [rnd(depth + 1) for _ in range(r.randrange(4))]
        return {r.choice(['a', 'b', 'ü', '', 'k ']): rnd(depth + 1) for _ in range(r.randrange(4))}
    out += [rnd() for _ in range(n)]
    return out


def _eq(a, b):
    import numpy as np
    import pandas as pd
    if isinstance(a, np.ndarray) or isinstance(b, np.ndarray):
        return isinstance(a, np.ndarray) and isinstance(b, np.ndarray) and a.dtype == b.dtype and a.shape == b.shape and \
            bool(np.array_equal(a, b, equal_nan=(a.dtype.kind in 'fc')))
    if isinstance(a, (pd.DataFrame, pd.Series)):
        return type(a) is type(b) and a.equals(b) and list(a.index) == list(b.index) and \
            (not isinstance(a, pd.DataFrame) or (list(a.columns) == list(b.columns) and list(a.dtypes) == list(b.dtypes)))
    if isinstance(a, float) and isinstance(b, float):
        return a == b or (a != a and b != b)
    if type(a) is not type(b):
        return False
    if isinstance(a, list):
        return len(a) == len(b) and all(_eq(x, y) for x, y in zip(a, b))
    if isinstance(a, dict):
        return list(sorted(a)) == list(sorted(b)) and all(_eq(a[k], b[k]) for k in a)
    return a == b


def c06_roundtrip(table, reg, tier, seed):
    """C06 stand-in: for each data class, the real save() then a fresh object's real load() on values of the storable
    domain, in a real temporary directory; loading must not change the stored files."""
    import numpy as np
    import pandas as pd
    from pathlib import Path
    from taskchain import data as D
    r = random.Random(seed)
    n = 30 if tier == 'quick' else 400
    jvals = [v for v in _json_values(r, n) if v is not None]
    arrays = [np.array(3.5), np.array(7), np.array(True), np.array('s'), np.zeros((0,)), np.zeros((2, 0, 3)), np.arange(6).reshape(2, 3),
              np.arange(6).reshape(2, 3).T, np.asfortranarray(np.arange(6.0).reshape(2, 3)), np.array([1, 2, 3], dtype=np.int8),
              np.array([1.5, float('nan'), float('inf')]), np.array([True, False]), np.array(['a', 'bcd', 'ü']), np.arange(10)[::2],
              np.array([[1 + 2j]]), np.array([2**63], dtype=np.uint64), np.float32([1.1]), np.array(b'x')]
    frames = [pd.DataFrame({'a': [1, 2], 'b': ['x', 'y']}), pd.DataFrame(), pd.Series([1.5, 2.5], index=['i', 'j'], name='s'),
              pd.DataFrame({'z': [1.0]}, index=pd.Index([5], name='idx')), pd.DataFrame({0: [1], 'c': [None]}),
              pd.DataFrame({'a': pd.Categorical(['p', 'q'])}), pd.Series([], dtype='float64')]
    gens = [[], [1], [{'a': 1}, 'x', None, [1, 2]], [' ', 'a b', 'c\u0085'], ['line'] * 3, [{'k': 'ü'}], list(range(12)),
            ['NaN', 'NaNoWriMo', {'NaN': 4, 'k': 'Infinity'}, 'null', '-Infinity', 'true', {'null': None}]]
    lists = [[], [np.arange(3)], [np.array(i) for i in range(12)], [np.zeros((2, 2)), np.array(['a'])], [np.array(5.5)] * 11]
    cases = [('JSONData', v) for v in jvals] + [('NumpyData', a) for a in arrays] + [('PandasData', f) for f in frames] + \
            [('GeneratedData', g) for g in gens] + [('GeneratedDataLazy', g) for g in gens] + [('ListOfNumpyData', l) for l in lists]
    violations = []
    tried = 0
    tmp = Path(tempfile.mkdtemp(prefix='c06_'))
    import contextlib
    import io
    quiet = contextlib.redirect_stderr(io.StringIO())     # tqdm progress bars
    quiet.__enter__()
    try:
        for i, (cls, v) in enumerate(cases):
            X = getattr(D, cls)
            base = tmp / f'c{i}'
            d = X()
            d.init_persistence(base, 'k')
            try:
                d.set_value(iter(v) if cls.startswith('Generated') else v)
                d.save()
            except Exception as e:
                # outside the storable domain (e.g. 2**64-1 is accepted by orjson; others may not be): not a round-trip case
                continue
            tried += 1
            before = _hash_tree(base)
            d2 = X()
            d2.init_persistence(base, 'k')
            try:
                loaded = d2.load(None)
                if cls == 'GeneratedDataLazy':
                    loaded = list(loaded())
            except Exception as e:
                violations.append({'obligation': f'C06.standin.{cls}.roundtrip', 'kind': 'extra', 'check': 'c06_roundtrip',
                                   'what': f'{cls}: load of a saved value raised {type(e).__name__}: {e}', 'witness': repr(v)[:300], 'case': i})
                continue
            after = _hash_tree(base)
            expect = list(v) if cls.startswith('Generated') else v
            if not _eq(expect, loaded):
                violations.append({'obligation': f'C06.standin.{cls}.roundtrip', 'kind': 'extra', 'check': 'c06_roundtrip',
                                   'what': f'{cls}: loaded value differs from the saved one', 'witness': repr(v)[:300],
                                   'loaded': repr(loaded)[:300], 'case': i})
            elif before != after:
                violations.append({'obligation': f'C06.standin.{cls}.load_readonly', 'kind': 'extra', 'check': 'c06_roundtrip',
                                   'what': f'{cls}: load changed the stored files', 'witness': repr(v)[:300], 'case': i})
            # what the computing chain itself holds equals what was handed in
            held = d.value
            if cls == 'GeneratedDataLazy':
                held = list(held())
            if not _eq(expect, held):
                violations.append({'obligation': f'C06.standin.{cls}.same_as_computed', 'kind': 'extra', 'check': 'c06_roundtrip',
                                   'what': f'{cls}: the value held after save differs from the run result', 'witness': repr(v)[:300], 'case': i})
        # a recomputed result REPLACES the stored one: a shorter / smaller value over a longer one (same location, no delete in between)
        over = [('ListOfNumpyData', [np.array(i) for i in range(5)], [np.array(10 + i) for i in range(3)]),
                ('ListOfNumpyData', [np.arange(3)] * 12, [np.arange(2)]),
                ('GeneratedData', list(range(8)), [1]), ('GeneratedDataLazy', list(range(8)), ['x', 'y']),
                ('JSONData', {'k': list(range(50))}, {'k': 1}), ('NumpyData', np.arange(100), np.arange(2))]
        for j, (cls, first, second) in enumerate(over):
            X = getattr(D, cls)
            base = tmp / f'over{j}'
            for v in (first, second):
                d = X()
                d.init_persistence(base, 'k')
                d.set_value(iter(v) if cls.startswith('Generated') else v)
                d.save()
            tried += 1
            d2 = X()
            d2.init_persistence(base, 'k')
            loaded = d2.load(None)
            if cls == 'GeneratedDataLazy':
                loaded = list(loaded())
            if not _eq(second, loaded):
                violations.append({'obligation': f'C06.standin.{cls}.overwrite', 'kind': 'extra', 'check': 'c06_roundtrip',
                                   'what': f'{cls}: after a recomputation stored over an earlier, larger result, a later load gives neither exactly the new value',
                                   'witness': repr((first, second))[:300], 'loaded': repr(loaded)[:300], 'case': f'over{j}'})
        # directory data: publish, reload, overwrite with a smaller tree
        for rep in range(2):
            base = tmp / f'dir{rep}'
            d = D.DirData()
            d.init_persistence(base, 'k')
            (d.dir / 'a.txt').write_text('1')
            (d.dir / 'sub').mkdir()
            (d.dir / 'sub' / 'b.txt').write_text('2')
            d.save()
            d3 = D.DirData()
            d3.init_persistence(base, 'k')
            (d3.dir / 'only.txt').write_text('3')
            d3.save()
            tried += 1
            got = _hash_tree(base / 'k')
            if sorted(got) != ['only.txt']:
                violations.append({'obligation': 'C06.standin.DirData.replace', 'kind': 'extra', 'check': 'c06_roundtrip',
                                   'what': 'DirData: a recomputed directory result contains entries of the previous result',
                                   'witness': sorted(got), 'case': 'dir'})
    finally:
        quiet.__exit__(None, None, None)
        shutil.rmtree(tmp, ignore_errors=True)
    return {'name': 'c06_roundtrip', 'bounded': [{'what': 'real save()/load() round trips of every data class in a temporary directory',
                                                   'bound': f'{tried} values (fixed edge cases + {n} random JSON trees, seed {seed})',
                                                   'tried': tried}],
            'violations': violations}


def replay_c06(doc):
    out = c06_roundtrip(None, None, 'quick', 0)
    bad = [v for v in out['violations'] if v['obligation'] == doc['obligation']]
    for v in bad[:3]:
        print('  ', v['what'], v.get('witness'))
    return not bad


def c17_parallel_map(table, reg, tier, seed):
    """C17 stand-in (bounded): the real utils.threading.parallel_map with asyncio.as_completed replaced by a
    shim that delivers the futures of a chunk in every permutation (n <= 4) or in seeded random permutations,
    over lengths around multiples of the chunk size, several thread counts, iterable kinds, sort on/off."""
    import asyncio
    import itertools
    import contextlib
    import io
    from taskchain.utils import threading as T
    r = random.Random(seed)
    violations = []
    tried = 0
    real_as_completed = asyncio.as_completed

    # chunked: every element is kept, None and other falsy ones included
    from taskchain.utils.iter import chunked as _chunked
    for xs in ([1, None, 3, 4, 5], [None, None, None, None], [0, '', None, [], False, 7], list(range(7)), [], [None]):
        for c in (1, 2, 3, 10):
            tried += 1
            got = [list(ch) for ch in _chunked(iter(xs), c)]
            want = [xs[i:i + c] for i in range(0, len(xs), c)]
            if got != want:
                violations.append({'obligation': 'C17.standin.chunked', 'kind': 'extra', 'check': 'c17_parallel_map',
                                   'what': f'chunked({xs!r}, {c}) = {got!r}, expected {want!r}', 'witness': repr((xs, c))})

    def run_with_order(order_fn, fun, iterable, **kw):
        def fake_as_completed(futs, *a, **k):
            futs = list(futs)
            perm = order_fn(len(futs))

            async def wait_all():
                await asyncio.gather(*futs, return_exceptions=True)

            async def get(i):
                return await futs[i]
            # make sure all are done, then hand them out in the chosen order
            first = True
            for i in perm:
                yield_first = first
                first = False

                async def one(i=i, yield_first=yield_first):
                    if yield_first:
                        await asyncio.gather(*futs, return_exceptions=True)
                    return await futs[i]
                yield one()
        T.asyncio.as_completed = fake_as_completed
        try:
            with contextlib.redirect_stderr(io.StringIO()):
                return T.parallel_map(fun, iterable, **kw)
        finally:
            T.asyncio.as_completed = real_as_completed

    def check(xs_factory, n, threads, chunksize, sort, order_fn, label):
        nonlocal tried
        calls = []

        def f(x):
            calls.append(x)
            return ('out', x)
        tried += 1
        try:
            res = run_with_order(order_fn, f, xs_factory(), threads=threads, chunksize=chunksize, sort=sort, use_tqdm=False)
        except Exception as e:
            violations.append({'obligation': 'C17.standin.parallel_map', 'kind': 'extra', 'check': 'c17_parallel_map',
                               'what': f'parallel_map raised {type(e).__name__}: {e}', 'witness': label})
            return
        expect = [('out', x) for x in range(n)]
        ok = res == expect if (sort or threads == 1) else all(
            sorted(res[i:i + chunksize]) == sorted(expect[i:i + chunksize]) for i in range(0, n, chunksize)) and len(res) == n
        if not ok:
            violations.append({'obligation': 'C17.standin.parallel_map', 'kind': 'extra', 'check': 'c17_parallel_map',
                               'what': 'parallel_map result differs from [f(x) for x in xs]' + ('' if sort else ' (per-chunk permutation)'),
                               'witness': label, 'result': repr(res)[:200]})
        elif sorted(calls) != list(range(n)):
            violations.append({'obligation': 'C17.standin.parallel_map.once', 'kind': 'extra', 'check': 'c17_parallel_map',
                               'what': 'f was not called exactly once per element', 'witness': label, 'calls': repr(sorted(calls))[:200]})

    kinds = {'list': lambda n: (lambda: list(range(n))), 'gen': lambda n: (lambda: (i for i in range(n))),
             'range': lambda n: (lambda: range(n)), 'tuple': lambda n: (lambda: tuple(range(n)))}
    for chunksize in (1, 2, 3, 1000):
        ns = sorted({0, 1, 2, chunksize - 1, chunksize, chunksize + 1, 2 * chunksize, 2 * chunksize + 1, 7} - {-1}) if chunksize < 1000 else [0, 1, 3, 5]
        for n in ns:
            for threads in (1, 2, 3):
                for sort in (True, False):
                    for kind in ('list', 'gen') if tier == 'quick' else kinds:
                        per_chunk = min(n, chunksize)
                        if per_chunk <= 3 and threads != 1:
                            orders = list(itertools.permutations(range(per_chunk)))
                            fns = [lambda m, o=o: [i for i in o if i < m] + [i for i in range(m) if i not in o] for o in orders]
                        else:
                            fns = [lambda m: r.sample(range(m), m) for _ in range(2 if tier == 'quick' else 8)]
                        for k, fn in enumerate(fns[:6 if tier == 'quick' else 24]):
                            check(kinds[kind](n), n, threads, chunksize, sort, fn, f'n={n} threads={threads} chunksize={chunksize} sort={sort} iterable={kind} order#{k}')
    # an exception raised by f propagates
    for threads in (1, 2):
        tried += 1
        try:
            run_with_order(lambda m: list(range(m)), lambda x: 1 // (x - 2), list(range(5)), threads=threads, chunksize=2, use_tqdm=False)
            violations.append({'obligation': 'C17.standin.parallel_map.raises', 'kind': 'extra', 'check': 'c17_parallel_map',
                               'what': 'an exception raised by f did not propagate', 'witness': f'threads={threads}'})
        except ZeroDivisionError:
            pass
        except Exception as e:
            violations.append({'obligation': 'C17.standin.parallel_map.raises', 'kind': 'extra', 'check': 'c17_parallel_map',
                               'what': f'f raised ZeroDivisionError but parallel_map raised {type(e).__name__}', 'witness': f'threads={threads}'})
    # utils.iter.parallel_map (the older variant): order of input, every completion order
    from taskchain.utils import iter as I
    for n in (0, 1, 2, 3, 5):
        for threads in (1, 2):
            orders = list(itertools.permutations(range(n))) if n <= 3 else [tuple(r.sample(range(n), n)) for _ in range(4)]
            for o in orders:
                tried += 1

                def fake(futs, *a, **k):
                    futs = list(futs)
                    for idx, i in enumerate(o):
                        async def one(i=i, idx=idx):
                            if idx == 0:
                                await asyncio.gather(*futs, return_exceptions=True)
                            return await futs[i]
                        yield one()
                I.asyncio.as_completed = fake
                try:
                    with contextlib.redirect_stderr(io.StringIO()):
                        res = I.parallel_map(lambda x: x * 10, list(range(n)), threads=threads)
                except Exception as e:
                    res = f'raised {type(e).__name__}: {e}'
                finally:
                    I.asyncio.as_completed = real_as_completed
                if res != [x * 10 for x in range(n)]:
                    violations.append({'obligation': 'C17.standin.iter_parallel_map', 'kind': 'extra', 'check': 'c17_parallel_map',
                                       'what': 'utils.iter.parallel_map result differs from [f(x) for x in xs]', 'witness': f'n={n} threads={threads} order={o}',
                                       'result': repr(res)[:200]})
    # keep one witness per obligation
    seen = set()
    uniq = []
    for v in violations:
        if v['obligation'] not in seen:
            seen.add(v['obligation'])
            uniq.append(v)
    return {'name': 'c17_parallel_map', 'bounded': [{'what': 'real parallel_map under a completion-order shim (all permutations of a chunk of <= 3, seeded random ones above)',
                                                      'bound': f'{tried} runs: lengths around multiples of chunk sizes 1,2,3,1000; threads 1-3; sort on/off; list/generator inputs',
                                                      'tried': tried}],
            'violations': uniq}


def replay_c17(doc):
    out = c17_parallel_map(None, None, 'quick', 0)
    bad = [v for v in out['violations'] if v['obligation'] == doc['obligation']]
    for v in bad[:3]:
        print('  ', v['what'], v.get('witness'))
    return not bad


def c14_caches(table, reg, tier, seed):
    """C14 stand-in (bounded): the real JsonCache / NumpyArrayCache / DataFrameCache / InMemoryCache in a temp dir:
    round trips, key verification, every truncation of a stored file, distinct keys / sub-caches, force, raising computer."""
    import contextlib
    import io
    import numpy as np
    import pandas as pd
    from pathlib import Path
    from taskchain import cache as C
    r = random.Random(seed)
    violations = []
    tried = 0

    def viol(ob, what, witness):
        violations.append({'obligation': f'C14.standin.{ob}', 'kind': 'extra', 'check': 'c14_caches', 'what': what, 'witness': repr(witness)[:300]})
    tmp = Path(tempfile.mkdtemp(prefix='c14_'))
    quiet_out, quiet_err = contextlib.redirect_stdout(io.StringIO()), contextlib.redirect_stderr(io.StringIO())
    quiet_out.__enter__()
    quiet_err.__enter__()
    import logging
    logging.getLogger('cache').disabled = True
    try:
        # InMemoryCache (and a sub-cache of it) against a dictionary model: None is a value like any other
        for label, cache in (('mem', C.InMemoryCache()), ('mem.sub', C.InMemoryCache().subcache('s'))):
            model = {}
            for step in range(40 if tier == 'quick' else 400):
                k = r.choice(['a', 'b', 'c'])
                v = r.choice([None, 0, '', [], 1, 'x', None])
                force = r.random() < 0.2
                calls = []
                tried += 1
                got = cache.get_or_compute(k, lambda v=v: calls.append(1) or v, force=force)
                want_calls = 1 if (k not in model or force) else 0
                if want_calls:
                    model[k] = v
                if len(calls) != want_calls or got != model[k] or type(got) is not type(model[k]):
                    viol(f'{label}.model', f'InMemoryCache step {step}: key {k!r} (force={force}) computed {len(calls)} times, returned {got!r}; '
                         f'the dictionary model computes {want_calls} times and returns {model[k]!r}', (k, v, force))
                    break
        keys = ['', 'a', 'b', 'ab', 'café', 'café', 'k' * 300, ' ', 'a/b', '{"x": 1}', 'A', ' ', '0', 'key\n']
        jvals = [v for v in _json_values(r, 10 if tier == 'quick' else 100)]
        makers = [('json', lambda d: C.JsonCache(d), jvals, _eq),
                  ('npy', lambda d: C.NumpyArrayCache(d), [np.arange(3), np.array(2.5), np.zeros((2, 2)), np.array(['a', 'b']),
                                                            np.array([[1, 2], [3]], dtype=object), np.array([None, 'x', 1.5], dtype=object)], _eq),
                  ('pd', lambda d: C.DataFrameCache(d), [pd.DataFrame({'a': [1, 2]}), pd.DataFrame()], _eq)]
        for name, mk, vals, eq in makers:
            cache = mk(tmp / name)
            # distinct keys never share entries; values round trip; second call does not compute
            stored = {}
            for i, k in enumerate(keys):
                v = vals[i % len(vals)]
                calls = []
                tried += 1
                try:
                    got = cache.get_or_compute(k, lambda v=v: calls.append(1) or v)
                except Exception as e:
                    viol(f'{name}.miss', f'get_or_compute on a fresh key raised {type(e).__name__}: {e}', k)
                    continue
                if len(calls) != 1 or not eq(got, v):
                    viol(f'{name}.miss', 'a fresh key did not compute exactly once and return the computed value', (k, len(calls)))
                stored[k] = v
            for k, v in stored.items():
                calls = []
                tried += 1
                try:
                    got = cache.get_or_compute(k, lambda: calls.append(1) or 'OTHER')
                    got2 = cache.get(k)
                except Exception as e:
                    viol(f'{name}.hit', f'reading a stored key raised {type(e).__name__}: {e}', k)
                    continue
                if calls or not eq(got, v) or not eq(got2, v):
                    viol(f'{name}.hit', 'a stored key was recomputed or returned another value (entries shared between keys?)', (k, len(calls)))
            # force replaces
            k = 'a'
            tried += 1
            newv = vals[-1]
            got = cache.get_or_compute(k, lambda: newv, force=True)
            again = cache.get_or_compute(k, lambda: 'OTHER')
            if not eq(got, newv) or not eq(again, newv):
                viol(f'{name}.force', 'force=True did not recompute and replace the stored value', k)
            # a raising computer stores nothing
            tried += 1
            try:
                cache.get_or_compute('fresh-raise', lambda: 1 // 0)
                viol(f'{name}.raises', 'an exception of the computer did not propagate', 'fresh-raise')
            except ZeroDivisionError:
                pass
            if cache.get('fresh-raise') is not C.NO_VALUE:
                viol(f'{name}.raises', 'a raising computation left a value behind', 'fresh-raise')
            # never computes
            if cache.get('never-stored') is not C.NO_VALUE:
                viol(f'{name}.get', 'get of an unknown key did not return NO_VALUE', 'never-stored')
            # sub-caches are separate
            sub = cache.subcache('sub')
            tried += 1
            calls = []
            sub.get_or_compute('a', lambda: calls.append(1) or vals[0])
            if not calls:
                viol(f'{name}.subcache', 'a sub-cache shares an entry with its parent', 'a')
            # every truncation of a stored file is recomputed, never returned
            fp = cache.filepath('b')
            data = fp.read_bytes()
            cuts = sorted(set(list(range(0, min(len(data), 40))) + [len(data) // 2, len(data) - 1])) if tier == 'thorough' else \
                sorted({0, 1, len(data) // 2, len(data) - 1})
            for cut in cuts:
                if cut >= len(data):
                    continue
                fp.write_bytes(data[:cut])
                calls = []
                tried += 1
                try:
                    got = cache.get_or_compute('b', lambda: calls.append(1) or stored['b'])
                    if not calls or not eq(got, stored['b']):
                        # (a prefix that still decodes to the same value would be fine; none does for these formats)
                        viol(f'{name}.damaged', f'a file truncated to {cut} of {len(data)} bytes was returned as a value instead of recomputed', cut)
                except C.CacheException:
                    pass
                except Exception as e:
                    viol(f'{name}.damaged', f'a file truncated to {cut} of {len(data)} bytes made get_or_compute raise {type(e).__name__}', cut)
                fp.write_bytes(data[:cut])
                try:
                    g = cache.get('b')
                    if g is not C.NO_VALUE and not eq(g, stored['b']):
                        viol(f'{name}.damaged_get', f'get returned a value from a file truncated to {cut} bytes', cut)
                except C.CacheException:
                    pass
                except Exception as e:
                    viol(f'{name}.damaged_get', f'get raised {type(e).__name__} on a truncated file', cut)
                fp.write_bytes(data)
        # JsonCache verifies the stored key
        jc = C.JsonCache(tmp / 'jk')
        jc.get_or_compute('k1', lambda: 1)
        fp1, fp2 = jc.filepath('k1'), jc.filepath('k2')
        fp2.parent.mkdir(exist_ok=True, parents=True)
        shutil.copyfile(fp1, fp2)
        tried += 1
        try:
            jc.get_or_compute('k2', lambda: 2)
            viol('json.wrong_key', 'a file recorded for another key was not reported', 'k2')
        except C.CacheException:
            pass
        # in-memory cache
        mc = C.InMemoryCache()
        calls = []
        mc.get_or_compute('x', lambda: calls.append(1) or 5)
        mc.get_or_compute('x', lambda: calls.append(1) or 6)
        tried += 1
        if len(calls) != 1 or mc.get('x') != 5 or mc.get('y') is not C.NO_VALUE or mc.subcache('s') is not mc.subcache('s') or mc.subcache('s') is mc.subcache('t'):
            viol('memory', 'InMemoryCache: hit / miss / sub-cache identity violated', 'x')
    finally:
        quiet_err.__exit__(None, None, None)
        quiet_out.__exit__(None, None, None)
        shutil.rmtree(tmp, ignore_errors=True)
    seen, uniq = set(), []
    for v in violations:
        if v['obligation'] not in seen:
            seen.add(v['obligation'])
            uniq.append(v)
    return {'name': 'c14_caches', 'bounded': [{'what': 'real file caches in a temporary directory: round trips, distinct keys incl. unicode normalisation pairs, force, raising computer, key verification, truncations of stored files, sub-caches',
                                                'bound': f'{tried} operations; truncations at 4 (quick) / up to 42 (thorough) cut points per cache type', 'tried': tried}],
            'violations': uniq}


def replay_c14(doc):
    out = c14_caches(None, None, 'thorough', 0)
    bad = [v for v in out['violations'] if v['obligation'] == doc['obligation']]
    for v in bad[:3]:
        print('  ', v['what'], v.get('witness'))
    return not bad


def c16_cached(table, reg, tier, seed):
    """C16 stand-in (bounded): the real `cached` decorator on methods of every accepted signature shape, all call
    spellings of one binding, differing bindings, ignored arguments, versions, control keywords."""
    import itertools
    from taskchain import cache as C
    r = random.Random(seed)
    violations = []
    tried = 0

    def viol(ob, what, witness):
        violations.append({'obligation': f'C16.standin.{ob}', 'kind': 'extra', 'check': 'c16_cached', 'what': what, 'witness': repr(witness)[:300]})

    def make(sig, body_ret='(a, b, c, d)', **deco):
        ns = {'cached': C.cached, 'InMemoryCache': C.InMemoryCache}
        src = f'''
class K:
    def __init__(self):
        self.cache = InMemoryCache()
        self.calls = []
    @cached(**DECO)
    def m(self, {sig}):
        self.calls.append({body_ret})
        return {body_ret}
    @cached(**DECO)
    def other(self, {sig}):
        self.calls.append(('other',) + {body_ret})
        return ('other',) + {body_ret}
'''
        ns['DECO'] = deco
        exec(src, ns)
        return ns['K']
    values = [None, 0, 1, '', 'x', [1, 2], {'p': 1, 'q': [2]}, {'q': [2], 'p': 1}, True, 1.5]
    shapes = [('a, b=10, c=None, *, d=20', {'b': 10, 'c': None, 'd': 20}),
              ('a, b=0, c="s", d=None', {'b': 0, 'c': 's', 'd': None}),
              ('a, b, c=[1], *, d', {'c': [1]})]
    for sig, defaults in shapes:
        K = make(sig)
        kwonly = '*' in sig and sig.split('*')[1]
        names = ['a', 'b', 'c', 'd']
        for trial in range(6 if tier == 'quick' else 60):
            binding = {n: r.choice(values) for n in names}
            for n, dv in defaults.items():
                if r.random() < 0.5:
                    binding[n] = dv
            # all spellings of this binding
            pos_names = [n for n in names if not (kwonly and n == 'd' and '* , d' in sig.replace('*,', '* ,')) and not (sig.split('*')[-1].strip().startswith('d') and '*' in sig and n == 'd')]
            spellings = []
            for npos in range(0, len(pos_names) + 1):
                args = [binding[n] for n in pos_names[:npos]]
                rest = [n for n in names if n not in pos_names[:npos]]
                for omit in itertools.product([False, True], repeat=len(rest)):
                    kw = {}
                    ok = True
                    for n, o in zip(rest, omit):
                        if o:
                            if n in defaults and _eq_plain(defaults[n], binding[n]):
                                continue
                            ok = False
                            break
                        kw[n] = binding[n]
                    if ok:
                        for perm in ([list(kw.items())] + ([list(reversed(list(kw.items())))] if len(kw) > 1 else [])):
                            spellings.append((args, dict(perm)))
            # an equal mapping value written with another key order is the same binding
            def reorder(v):
                if isinstance(v, dict):
                    return {k_: reorder(v[k_]) for k_ in reversed(list(v))}
                if isinstance(v, list):
                    return [reorder(x) for x in v]
                return v
            spellings = spellings + [([reorder(a) for a in args], {k_: reorder(v_) for k_, v_ in kw.items()}) for args, kw in spellings[:3]]
            k = K()
            results = []
            for args, kw in spellings:
                tried += 1
                try:
                    results.append(k.m(*args, **kw))
                except Exception as e:
                    viol('spelling', f'a valid spelling raised {type(e).__name__}: {e}', (sig, args, kw))
                    break
            else:
                if len(k.calls) != 1:
                    viol('same_binding', f'{len(spellings)} spellings of one binding executed the method {len(k.calls)} times', (sig, binding, spellings[:4]))
            # a differing binding uses a different entry
            other = dict(binding)
            n = r.choice(names)
            other[n] = r.choice([v for v in values if not _eq_plain(v, binding[n]) and _json_distinct(v, binding[n])])
            before = len(k.calls)
            tried += 1
            try:
                k.m(**other)
                if len(k.calls) != before + 1:
                    viol('diff_binding', 'a call differing in one argument was served from the other call\'s entry', (sig, binding, other))
            except TypeError:
                pass
            # different methods never share entries
            before = len(k.calls)
            k.other(**binding)
            if len(k.calls) != before + 1:
                viol('methods', 'two methods of one object shared a cache entry', (sig, binding))
    # call history: a non-default argument of an earlier call must not leak into a later call that omits it (every decorator form)
    for deco in ({}, {'version': 'v'}):
        K = make('a, b=10, c=None, d=20', **deco)
        k = K()
        tried += 3
        r1 = k.m(3, b=99)
        r2 = k.m(3)
        r3 = k.m(3, b=10)
        if r1 != (3, 99, None, 20) or r2 != (3, 10, None, 20) or r3 != r2 or len(k.calls) != 2:
            viol('history', f'after m(3, b=99) the call m(3) returned {r2!r} ({len(k.calls)} executions for 2 bindings): arguments of an earlier call leaked into a later one',
                 ('m(3, b=99); m(3); m(3, b=10)', deco))
    # only_cache only looks up: a miss creates no entry and the next ordinary call computes
    K = make('a, b=1, c=2, d=3')
    k = K()
    tried += 3
    miss = k.m(7, only_cache=True)
    n_entries = sum(len(sc) for sc in [k.cache.subcache(n) for n in list(k.cache._subcaches[__import__('threading').get_ident()])]) if hasattr(k.cache, '_subcaches') else 0
    val = k.m(7)
    if val != (7, 1, 2, 3) or len(k.calls) != 1 or n_entries != 0:
        viol('only_cache_miss', f'm(7, only_cache=True) on an empty cache returned {miss!r}, left {n_entries} entries; the following m(7) returned {val!r} after {len(k.calls)} executions',
             'only_cache miss then call')
    # ignored arguments, versions, control keywords
    K = make('a, b=1, c=2, d=3', ignore_kwargs=['d'])
    k = K()
    k.m(1, d=5)
    k.m(1, d=6)
    tried += 2
    if len(k.calls) != 1:
        viol('ignored', 'an ignored argument changed the cache entry', 'd')
    K1, K2 = make('a, b=1, c=2, d=3', version='v1'), make('a, b=1, c=2, d=3', version='v2')
    k1 = K1()
    k2 = K2()
    k2.cache = k1.cache
    k1.m(1)
    k2.m(1)
    tried += 2
    if len(k1.calls) != 1 or len(k2.calls) != 1:
        viol('versions', 'two versions of a method shared a cache entry', 'v1/v2')
    K = make('a, b=1, c=2, d=3')
    k = K()
    tried += 6
    if k.m(1, only_cache=True) is not C.NO_VALUE or k.calls:
        viol('only_cache', 'only_cache=True computed or returned something for an unknown entry', 1)
    for sv in (None, 0, 'v', [], False):
        k = K()
        got = k.m(1, store_cache_value=sv)
        if k.calls or not _eq_plain(got, sv) or not _eq_plain(k.m(1), sv) or k.calls:
            viol('store_cache_value', f'store_cache_value={sv!r} did not supply the value in place of calling the method', sv)
    k = K()
    k.m(1)
    k.m(1, force_cache=True)
    if len(k.calls) != 2:
        viol('force_cache', 'force_cache=True did not recompute', 1)
    seen, uniq = set(), []
    for v in violations:
        if v['obligation'] not in seen:
            seen.add(v['obligation'])
            uniq.append(v)
    return {'name': 'c16_cached', 'bounded': [{'what': 'real `cached` decorator: all spellings (positional prefix x omitted defaults x keyword order) of random bindings over 3 signature shapes; differing bindings; ignored args; versions; control keywords',
                                                'bound': f'{tried} calls (seed {seed})', 'tried': tried}],
            'violations': uniq}


def _eq_plain(a, b):
    return type(a) is type(b) and a == b


def _json_distinct(a, b):
    return json.dumps(a, sort_keys=True) != json.dumps(b, sort_keys=True)


def replay_c16(doc):
    out = c16_cached(None, None, 'thorough', 0)
    bad = [v for v in out['violations'] if v['obligation'] == doc['obligation']]
    for v in bad[:3]:
        print('  ', v['what'], v.get('witness'))
    return not bad


def c11_placeholders(table, reg, tier, seed):
    """C11 stand-in (bounded): the real search_and_replace_placeholders (recursive in-place traversal - outside the
    executor's subset) on JSON-like trees of depth <= 3 against a reference scanner: every string leaf substituted
    once, undefined placeholders and non-strings untouched, idempotent, representation keeps the placeholder form,
    also after copying."""
    import copy
    import re
    from taskchain.utils.data import search_and_replace_placeholders, ReprStr
    r = random.Random(seed)
    violations = []
    tried = 0

    def viol(ob, what, witness):
        violations.append({'obligation': f'C11.standin.{ob}', 'kind': 'extra', 'check': 'c11_placeholders', 'what': what, 'witness': repr(witness)[:300]})

    def ref_subst(s, env_get):
        out, i, n = [], 0, 0
        for m in re.finditer(r'{(.*?)}', s):
            out.append(s[i:m.start()])
            name = m.group(1)
            ok, val = env_get(name)
            out.append(str(val) if ok else '{' + name + '}')
            i = m.end()
            n += 1
        out.append(s[i:])
        return ''.join(out), n

    class GV:
        A = 'alpha'
        ZERO = 0
        EMPTY = ''
        NONE = None
        NEST = 'runs/{B}'
        B = 'beta'
    envs = [({'A': 'alpha', 'B': 'beta', 'ZERO': 0, 'EMPTY': '', 'NONE': None, 'FALSE': False, 'NEST': 'runs/{B}', 'X Y': 'sp'}, 'mapping'),
            (GV, 'object')]
    strings = ['plain', '{A}', 'x{A}y', '{A}{B}', '{A} and {B}', '{A}{A}', '{UNDEF}', '{A}{UNDEF}', '{{A}}', '{A', 'A}', '{}', '{ZERO}', 'p{EMPTY}q',
               '{NONE}', '{FALSE}', '{NEST}/{B}', '{NEST}', '{X Y}', 'a\n{A}', '', '{A}' * 3, '{a}', '{B}/{A}/{B}']
    leaves = strings + [0, 1, None, True, 2.5]

    def tree(depth):
        c = r.random()
        if depth >= 3 or c < 0.35:
            return r.choice(leaves)
        if c < 0.7:
            return [tree(depth + 1) for _ in range(r.randrange(4))]
        return {r.choice(['k', '{A}', 'uses', 'x']): tree(depth + 1) for _ in range(r.randrange(4))}

    def check_tree(orig, got, env_get, path='$'):
        if isinstance(orig, str):
            exp, n = ref_subst(orig, env_get)
            if not isinstance(got, str) or str(got) != exp:
                return f'{path}: {orig!r} -> {got!r}, expected {exp!r}'
            if n and (not isinstance(got, ReprStr) or repr(got) != repr(orig)):
                return f'{path}: representation of substituted {orig!r} is {got!r:}'.replace('\n', ' ')
            if not n and type(got) is not str:
                return f'{path}: a string without placeholders changed its type'
            return None
        if isinstance(orig, list):
            if not isinstance(got, list) or len(got) != len(orig):
                return f'{path}: list changed'
            for i, (a, b) in enumerate(zip(orig, got)):
                e = check_tree(a, b, env_get, f'{path}[{i}]')
                if e:
                    return e
            return None
        if isinstance(orig, dict):
            if not isinstance(got, dict) or list(got) != list(orig):
                return f'{path}: mapping keys changed'
            for k_ in orig:
                e = check_tree(orig[k_], got[k_], env_get, f'{path}[{k_!r}]')
                if e:
                    return e
            return None
        if got is not orig and got != orig or type(got) is not type(orig):
            return f'{path}: non-string {orig!r} became {got!r}'
        return None
    n = 60 if tier == 'quick' else 1500
    for env, kind in envs:
        if kind == 'mapping':
            env_get = lambda name, env=env: (name in env, env.get(name))
        else:
            env_get = lambda name, env=env: (hasattr(env, name), getattr(env, name, None))
        cases = [[s_] for s_ in strings] + [{'v': s_} for s_ in strings] + [tree(0) for _ in range(n)]
        for orig in cases:
            if not isinstance(orig, (list, dict)):
                orig = [orig]
            tried += 1
            work = copy.deepcopy(orig)
            try:
                res = search_and_replace_placeholders(work, env)
            except Exception as e:
                viol('traversal', f'search_and_replace_placeholders raised {type(e).__name__}: {e} ({kind} global_vars)', orig)
                continue
            e = check_tree(orig, res, env_get)
            if e:
                viol('substitution', f'{e} ({kind} global_vars)', orig)
                continue
            before = copy.deepcopy(res)
            again = search_and_replace_placeholders(res, env)
            e = check_tree(orig, again, env_get)
            if e or repr(before) != repr(again):
                viol('idempotent', f'applying the substitution again changed the data: {e} ({kind} global_vars)', orig)
                continue
            cp = copy.deepcopy(again)
            if repr(cp) != repr(again) or cp != again:
                viol('copy', 'a deep copy of substituted data has another value or representation', orig)
        # a bare string
        for s_ in strings:
            tried += 1
            got = search_and_replace_placeholders(s_, env)
            e = check_tree(s_, got, env_get)
            if e:
                viol('substitution', f'{e} ({kind} global_vars, bare string)', s_)
    seen, uniq = set(), []
    for v in violations:
        if v['obligation'] not in seen:
            seen.add(v['obligation'])
            uniq.append(v)
    return {'name': 'c11_placeholders', 'bounded': [{'what': 'real search_and_replace_placeholders on JSON-like trees against a reference scanner (leftmost, shortest, non-overlapping `{name}`)',
                                                      'bound': f'{tried} trees of depth <= 3 over {len(strings)} placeholder strings, mapping and object global_vars (seed {seed})', 'tried': tried}],
            'violations': uniq}


def replay_c11(doc):
    out = c11_placeholders(None, None, 'thorough', 0)
    bad = [v for v in out['violations'] if v['obligation'] == doc['obligation']]
    for v in bad[:3]:
        print('  ', v['what'], v.get('witness'))
    return not bad
