"""Bounded stand-ins (never counted as proved): native checks of the REAL code on an enumerated / sampled
domain, used (a) as conformance tests of the assumed library contracts (A-json, A-np, A-pd ...) that the
proofs rest on, (b) where a function is outside the executor's subset.  Each reports its bound."""
import hashlib
import json
import os
import random
import shutil
import tempfile


def _hash_tree(root):
    out = {}
    for dp, dn, fn in os.walk(root):
        for f in fn:
            p = os.path.join(dp, f)
            out[os.path.relpath(p, root)] = hashlib.sha256(open(p, 'rb').read()).hexdigest()
        for d in dn:
            out[os.path.relpath(os.path.join(dp, d), root) + '/'] = 'dir'
    return out


def _json_values(r, n):
    base = [None, True, False, 0, 1, -1, 2**63 - 1, -2**63, 2**64 - 1, 0.5, -0.0, 1e-13, 1e300, 5e-324, '', 'a', 'ünï', ' x ', 'a\u0085b',
            'line\nbreak', 'tab\t', '"q"', '\\', [], {}, [[]], {'a': {}}, [1, [2, [3]]], {'b': 1, 'a': 2}, {'k': [1, 2, {'z': None}]},
            'x' * 300, list(range(20)), {'': ''}, [0.1 + 0.2, 0.3], {'ä': 'ö'}, '\x00', '\x1f', '퟿', '😀']
    out = [v for v in base if v is not None and not isinstance(v, bool) or True]

    def rnd(depth=0):
        c = r.random()
        if depth > 2 or c < 0.4:
            return r.choice(base)
        if c < 0.7:
            return [rnd(depth + 1) for _ in range(r.randrange(4))]
        return {r.choice(['a', 'b', 'ü', '', 'k ']): rnd(depth + 1) for _ in range(r.randrange(4))}
    out += [rnd() for _ in range(n)]
    return out


def _eq(a, b):
    import numpy as np
    import pandas as pd
    if isinstance(a, np.ndarray) or isinstance(b, np.ndarray):
        return isinstance(a, np.ndarray) and isinstance(b, np.ndarray) and a.dtype == b.dtype and a.shape == b.shape and \
            bool(np.array_equal(a, b, equal_nan=(a.dtype.kind in 'fc')))
    if isinstance(a, (pd.DataFrame, pd.Series)):
        return type(a) is type(b) and a.equals(b) and list(a.index) == list(b.index) and \
            (not isinstance(a, pd.DataFrame) or (list(a.columns) == list(b.columns) and list(a.dtypes) == list(b.dtypes)))
    if isinstance(a, float) and isinstance(b, float):
        return a == b or (a != a and b != b)
    if type(a) is not type(b):
        return False
    if isinstance(a, list):
        return len(a) == len(b) and all(_eq(x, y) for x, y in zip(a, b))
    if isinstance(a, dict):
        return list(sorted(a)) == list(sorted(b)) and all(_eq(a[k], b[k]) for k in a)
    return a == b


def c06_roundtrip(table, reg, tier, seed):
    """C06 stand-in: for each data class, the real save() then a fresh object's real load() on values of the storable
    domain, in a real temporary directory; loading must not change the stored files."""
    import numpy as np
    import pandas as pd
    from pathlib import Path
    from taskchain import data as D
    r = random.Random(seed)
    n = 30 if tier == 'quick' else 400
    jvals = [v for v in _json_values(r, n) if v is not None]
    arrays = [np.array(3.5), np.array(7), np.array(True), np.array('s'), np.zeros((0,)), np.zeros((2, 0, 3)), np.arange(6).reshape(2, 3),
              np.arange(6).reshape(2, 3).T, np.asfortranarray(np.arange(6.0).reshape(2, 3)), np.array([1, 2, 3], dtype=np.int8),
              np.array([1.5, float('nan'), float('inf')]), np.array([True, False]), np.array(['a', 'bcd', 'ü']), np.arange(10)[::2],
              np.array([[1 + 2j]]), np.array([2**63], dtype=np.uint64), np.float32([1.1]), np.array(b'x')]
    frames = [pd.DataFrame({'a': [1, 2], 'b': ['x', 'y']}), pd.DataFrame(), pd.Series([1.5, 2.5], index=['i', 'j'], name='s'),
              pd.DataFrame({'z': [1.0]}, index=pd.Index([5], name='idx')), pd.DataFrame({0: [1], 'c': [None]}),
              pd.DataFrame({'a': pd.Categorical(['p', 'q'])}), pd.Series([], dtype='float64')]
    gens = [[], [1], [{'a': 1}, 'x', None, [1, 2]], [' ', 'a b', 'c\u0085'], ['line'] * 3, [{'k': 'ü'}], list(range(12))]
    lists = [[], [np.arange(3)], [np.array(i) for i in range(12)], [np.zeros((2, 2)), np.array(['a'])], [np.array(5.5)] * 11]
    cases = [('JSONData', v) for v in jvals] + [('NumpyData', a) for a in arrays] + [('PandasData', f) for f in frames] + \
            [('GeneratedData', g) for g in gens] + [('GeneratedDataLazy', g) for g in gens] + [('ListOfNumpyData', l) for l in lists]
    violations = []
    tried = 0
    tmp = Path(tempfile.mkdtemp(prefix='c06_'))
    import contextlib
    import io
    quiet = contextlib.redirect_stderr(io.StringIO())     # tqdm progress bars
    quiet.__enter__()
    try:
        for i, (cls, v) in enumerate(cases):
            X = getattr(D, cls)
            base = tmp / f'c{i}'
            d = X()
            d.init_persistence(base, 'k')
            try:
                d.set_value(iter(v) if cls.startswith('Generated') else v)
                d.save()
            except Exception as e:
                # outside the storable domain (e.g. 2**64-1 is accepted by orjson; others may not be): not a round-trip case
                continue
            tried += 1
            before = _hash_tree(base)
            d2 = X()
            d2.init_persistence(base, 'k')
            try:
                loaded = d2.load(None)
                if cls == 'GeneratedDataLazy':
                    loaded = list(loaded())
            except Exception as e:
                violations.append({'obligation': f'C06.standin.{cls}.roundtrip', 'kind': 'extra', 'check': 'c06_roundtrip',
                                   'what': f'{cls}: load of a saved value raised {type(e).__name__}: {e}', 'witness': repr(v)[:300], 'case': i})
                continue
            after = _hash_tree(base)
            expect = list(v) if cls.startswith('Generated') else v
            if not _eq(expect, loaded):
                violations.append({'obligation': f'C06.standin.{cls}.roundtrip', 'kind': 'extra', 'check': 'c06_roundtrip',
                                   'what': f'{cls}: loaded value differs from the saved one', 'witness': repr(v)[:300],
                                   'loaded': repr(loaded)[:300], 'case': i})
            elif before != after:
                violations.append({'obligation': f'C06.standin.{cls}.load_readonly', 'kind': 'extra', 'check': 'c06_roundtrip',
                                   'what': f'{cls}: load changed the stored files', 'witness': repr(v)[:300], 'case': i})
            # what the computing chain itself holds equals what was handed in
            held = d.value
            if cls == 'GeneratedDataLazy':
                held = list(held())
            if not _eq(expect, held):
                violations.append({'obligation': f'C06.standin.{cls}.same_as_computed', 'kind': 'extra', 'check': 'c06_roundtrip',
                                   'what': f'{cls}: the value held after save differs from the run result', 'witness': repr(v)[:300], 'case': i})
        # directory data: publish, reload, overwrite with a smaller tree
        for rep in range(2):
            base = tmp / f'dir{rep}'
            d = D.DirData()
            d.init_persistence(base, 'k')
            (d.dir / 'a.txt').write_text('1')
            (d.dir / 'sub').mkdir()
            (d.dir / 'sub' / 'b.txt').write_text('2')
            d.save()
            d3 = D.DirData()
            d3.init_persistence(base, 'k')
            (d3.dir / 'only.txt').write_text('3')
            d3.save()
            tried += 1
            got = _hash_tree(base / 'k')
            if sorted(got) != ['only.txt']:
                violations.append({'obligation': 'C06.standin.DirData.replace', 'kind': 'extra', 'check': 'c06_roundtrip',
                                   'what': 'DirData: a recomputed directory result contains entries of the previous result',
                                   'witness': sorted(got), 'case': 'dir'})
    finally:
        quiet.__exit__(None, None, None)
        shutil.rmtree(tmp, ignore_errors=True)
    return {'name': 'c06_roundtrip', 'bounded': [{'what': 'real save()/load() round trips of every data class in a temporary directory',
                                                   'bound': f'{tried} values (fixed edge cases + {n} random JSON trees, seed {seed})',
                                                   'tried': tried}],
            'violations': violations}


def replay_c06(doc):
    out = c06_roundtrip(None, None, 'quick', 0)
    bad = [v for v in out['violations'] if v['obligation'] == doc['obligation']]
    for v in bad[:3]:
        print('  ', v['what'], v.get('witness'))
    return not bad


def c17_parallel_map(table, reg, tier, seed):
    """C17 stand-in (bounded): the real utils.threading.parallel_map with asyncio.as_completed replaced by a
    shim that delivers the futures of a chunk in every permutation (n <= 4) or in seeded random permutations,
    over lengths around multiples of the chunk size, several thread counts, iterable kinds, sort on/off."""
    import asyncio
    import itertools
    import contextlib
    import io
    from taskchain.utils import threading as T
    r = random.Random(seed)
    violations = []
    tried = 0
    real_as_completed = asyncio.as_completed

    def run_with_order(order_fn, fun, iterable, **kw):
        def fake_as_completed(futs, *a, **k):
            futs = list(futs)
            perm = order_fn(len(futs))

            async def wait_all():
                await asyncio.gather(*futs, return_exceptions=True)

            async def get(i):
                return await futs[i]
            # make sure all are done, then hand them out in the chosen order
            first = True
            for i in perm:
                yield_first = first
                first = False

                async def one(i=i, yield_first=yield_first):
                    if yield_first:
                        await asyncio.gather(*futs, return_exceptions=True)
                    return await futs[i]
                yield one()
        T.asyncio.as_completed = fake_as_completed
        try:
            with contextlib.redirect_stderr(io.StringIO()):
                return T.parallel_map(fun, iterable, **kw)
        finally:
            T.asyncio.as_completed = real_as_completed

    def check(xs_factory, n, threads, chunksize, sort, order_fn, label):
        nonlocal tried
        calls = []

        def f(x):
            calls.append(x)
            return ('out', x)
        tried += 1
        try:
            res = run_with_order(order_fn, f, xs_factory(), threads=threads, chunksize=chunksize, sort=sort, use_tqdm=False)
        except Exception as e:
            violations.append({'obligation': 'C17.standin.parallel_map', 'kind': 'extra', 'check': 'c17_parallel_map',
                               'what': f'parallel_map raised {type(e).__name__}: {e}', 'witness': label})
            return
        expect = [('out', x) for x in range(n)]
        ok = res == expect if (sort or threads == 1) else all(
            sorted(res[i:i + chunksize]) == sorted(expect[i:i + chunksize]) for i in range(0, n, chunksize)) and len(res) == n
        if not ok:
            violations.append({'obligation': 'C17.standin.parallel_map', 'kind': 'extra', 'check': 'c17_parallel_map',
                               'what': 'parallel_map result differs from [f(x) for x in xs]' + ('' if sort else ' (per-chunk permutation)'),
                               'witness': label, 'result': repr(res)[:200]})
        elif sorted(calls) != list(range(n)):
            violations.append({'obligation': 'C17.standin.parallel_map.once', 'kind': 'extra', 'check': 'c17_parallel_map',
                               'what': 'f was not called exactly once per element', 'witness': label, 'calls': repr(sorted(calls))[:200]})

    kinds = {'list': lambda n: (lambda: list(range(n))), 'gen': lambda n: (lambda: (i for i in range(n))),
             'range': lambda n: (lambda: range(n)), 'tuple': lambda n: (lambda: tuple(range(n)))}
    for chunksize in (1, 2, 3, 1000):
        ns = sorted({0, 1, 2, chunksize - 1, chunksize, chunksize + 1, 2 * chunksize, 2 * chunksize + 1, 7} - {-1}) if chunksize < 1000 else [0, 1, 3, 5]
        for n in ns:
            for threads in (1, 2, 3):
                for sort in (True, False):
                    for kind in ('list', 'gen') if tier == 'quick' else kinds:
                        per_chunk = min(n, chunksize)
                        if per_chunk <= 3 and threads != 1:
                            orders = list(itertools.permutations(range(per_chunk)))
                            fns = [lambda m, o=o: [i for i in o if i < m] + [i for i in range(m) if i not in o] for o in orders]
                        else:
                            fns = [lambda m: r.sample(range(m), m) for _ in range(2 if tier == 'quick' else 8)]
                        for k, fn in enumerate(fns[:6 if tier == 'quick' else 24]):
                            check(kinds[kind](n), n, threads, chunksize, sort, fn, f'n={n} threads={threads} chunksize={chunksize} sort={sort} iterable={kind} order#{k}')
    # an exception raised by f propagates
    for threads in (1, 2):
        tried += 1
        try:
            run_with_order(lambda m: list(range(m)), lambda x: 1 // (x - 2), list(range(5)), threads=threads, chunksize=2, use_tqdm=False)
            violations.append({'obligation': 'C17.standin.parallel_map.raises', 'kind': 'extra', 'check': 'c17_parallel_map',
                               'what': 'an exception raised by f did not propagate', 'witness': f'threads={threads}'})
        except ZeroDivisionError:
            pass
        except Exception as e:
            violations.append({'obligation': 'C17.standin.parallel_map.raises', 'kind': 'extra', 'check': 'c17_parallel_map',
                               'what': f'f raised ZeroDivisionError but parallel_map raised {type(e).__name__}', 'witness': f'threads={threads}'})
    # utils.iter.parallel_map (the older variant): order of input, every completion order
    from taskchain.utils import iter as I
    for n in (0, 1, 2, 3, 5):
        for threads in (1, 2):
            orders = list(itertools.permutations(range(n))) if n <= 3 else [tuple(r.sample(range(n), n)) for _ in range(4)]
            for o in orders:
                tried += 1

                def fake(futs, *a, **k):
                    futs = list(futs)
                    for idx, i in enumerate(o):
                        async def one(i=i, idx=idx):
                            if idx == 0:
                                await asyncio.gather(*futs, return_exceptions=True)
                            return await futs[i]
                        yield one()
                I.asyncio.as_completed = fake
                try:
                    with contextlib.redirect_stderr(io.StringIO()):
                        res = I.parallel_map(lambda x: x * 10, list(range(n)), threads=threads)
                except Exception as e:
                    res = f'raised {type(e).__name__}: {e}'
                finally:
                    I.asyncio.as_completed = real_as_completed
                if res != [x * 10 for x in range(n)]:
                    violations.append({'obligation': 'C17.standin.iter_parallel_map', 'kind': 'extra', 'check': 'c17_parallel_map',
                                       'what': 'utils.iter.parallel_map result differs from [f(x) for x in xs]', 'witness': f'n={n} threads={threads} order={o}',
                                       'result': repr(res)[:200]})
    # keep one witness per obligation
    seen = set()
    uniq = []
    for v in violations:
        if v['obligation'] not in seen:
            seen.add(v['obligation'])
            uniq.append(v)
    return {'name': 'c17_parallel_map', 'bounded': [{'what': 'real parallel_map under a completion-order shim (all permutations of a chunk of <= 3, seeded random ones above)',
                                                      'bound': f'{tried} runs: lengths around multiples of chunk sizes 1,2,3,1000; threads 1-3; sort on/off; list/generator inputs',
                                                      'tried': tried}],
            'violations': uniq}


def replay_c17(doc):
    out = c17_parallel_map(None, None, 'quick', 0)
    bad = [v for v in out['violations'] if v['obligation'] == doc['obligation']]
    for v in bad[:3]:
        print('  ', v['what'], v.get('witness'))
    return not bad
