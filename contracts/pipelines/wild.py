"""A task module that imports a task class of a sibling module in order to reference it as an input: a wildcard declaration
`contracts.pipelines.wild.*` declares Peek only - not the imported Src."""
from taskchain import Task
from contracts.pipelines.lib import Src, RUNS


class Peek(Task):
    class Meta:
        input_tasks = [Src]

    def run(self, src) -> int:
        RUNS.append(self.fullname)
        return len(src)
