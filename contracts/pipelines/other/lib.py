"""A second module with a parameter-object class of the same NAME as contracts.pipelines.lib.Weights but a different meaning."""
from taskchain.parameter import AutoParameterObject


class Weights(AutoParameterObject):
    def __init__(self, scale, bias=0, verbose=False):
        self._scale = scale
        self._bias = bias
        self.verbose = verbose

    @property
    def scale(self):
        return -self._scale          # a different computation than lib.Weights

    @staticmethod
    def dont_persist_default_value_args():
        return ['bias']
