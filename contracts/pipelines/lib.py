"""Synthetic task library used by the bounded integration stand-ins (contracts/integration.py).
Every run records itself in RUNS; results are deterministic functions of the declared parameters and inputs."""
from pathlib import Path
import typing

from taskchain import Task, Parameter, InMemoryData, DirData
from taskchain.parameter import InputTaskParameter, AutoParameterObject

RUNS = []


class Weights(AutoParameterObject):
    def __init__(self, scale, bias=0, verbose=False):
        self.scale = scale
        self._bias = bias
        self.verbose = verbose

    @staticmethod
    def dont_persist_default_value_args():
        return ['bias']


class Src(Task):
    class Meta:
        task_group = 'data'
        parameters = [Parameter('n'), Parameter('noise', default=0, dont_persist_default_value=True),
                      Parameter('verbose', default=False, ignore_persistence=True)]

    def run(self, n, noise) -> list:
        RUNS.append(self.fullname)
        return [i + noise for i in range(n)]


class Dbl(Task):
    class Meta:
        task_group = 'data'
        input_tasks = [Src]
        parameters = [Parameter('factor', default=2)]

    def run(self, src, factor) -> list:
        RUNS.append(self.fullname)
        return [x * factor for x in src]


class Total(Task):
    class Meta:
        task_group = 'model:agg'
        input_tasks = ['dbl']
        parameters = [Parameter('offset', name_in_config='total_offset', default=0), Parameter('tags', default=None)]

    def run(self, dbl, offset, tags) -> dict:
        RUNS.append(self.fullname)
        return {'total': sum(dbl) + offset, 'tags': tags}


class Mem(Task):
    class Meta:
        data_class = InMemoryData
        input_tasks = [Total]
        parameters = [Parameter('w', default=None)]

    def run(self, total, w) -> dict:
        RUNS.append(self.fullname)
        return {'mem': total['total'] * (w.scale if w is not None else 1) + (w._bias if w is not None else 0)}


class Report(Task):
    class Meta:
        input_tasks = [Mem, InputTaskParameter('extra', default='no-extra')]
        parameters = [Parameter('title', default='t')]

    def run(self, mem, extra, title) -> dict:
        RUNS.append(self.fullname)
        return {'report': mem['mem'], 'extra': extra, 'title': title}


class Extra(Task):
    class Meta:
        parameters = [Parameter('e', default=7)]

    def run(self, e) -> int:
        RUNS.append(self.fullname)
        return e


class Gen(Task):
    class Meta:
        input_tasks = [Src]

    def run(self, src) -> typing.Generator:
        RUNS.append(self.fullname)
        for x in src:
            yield {'x': x}


class Tree(Task):
    class Meta:
        input_tasks = [Src]

    def run(self, src) -> DirData:
        RUNS.append(self.fullname)
        d = self.get_data_object()
        for x in src:
            (d.dir / f'{x}.txt').write_text(str(x))
        return d


class Collect(Task):
    class Meta:
        input_tasks = ['~data:.*']
        parameters = []

    def run(self) -> list:
        RUNS.append(self.fullname)
        return sorted(self.input_tasks.keys())


def reference(params):
    """the value each task must have, as a function of the effective parameter values (the oracle)"""
    n, noise, factor = params['n'], params.get('noise', 0), params.get('factor', 2)
    src = [i + noise for i in range(n)]
    dbl = [x * factor for x in src]
    total = {'total': sum(dbl) + params.get('total_offset', 0), 'tags': params.get('tags')}
    w = params.get('w')
    mem = {'mem': total['total'] * (w['scale'] if w else 1) + (w.get('bias', 0) if w else 0)}
    return {'data:src': src, 'data:dbl': dbl, 'model:agg:total': total, 'mem': mem,
            'report': {'report': mem['mem'], 'extra': params.get('e') if params.get('with_extra') else 'no-extra', 'title': params.get('title', 't')}}


class TagSet(AutoParameterObject):
    """a parameter object that normalises its argument into a set (used by the hash-seed scenario)"""

    def __init__(self, tags):
        self.tags = set(tags)


class Loc(Task):
    """a path-typed parameter with a string default that is not persisted when it has its default value"""

    class Meta:
        parameters = [Parameter('p', dtype=Path, default='/x', dont_persist_default_value=True), Parameter('ts', default=None)]

    def run(self, p, ts) -> str:
        RUNS.append(self.fullname)
        return str(p)


class NsScore(Task):
    """used by the namespace-prefix scenario: the value shows which x / y the task was configured with"""

    class Meta:
        parameters = [Parameter('x'), Parameter('y')]

    def run(self, x, y) -> int:
        RUNS.append(self.fullname)
        return 1000 * x + y


class Const(Task):
    """no parameters, no inputs"""

    def run(self) -> int:
        RUNS.append(self.fullname)
        return 42


class UsesConst(Task):
    class Meta:
        input_tasks = [Const]

    def run(self, const) -> int:
        RUNS.append(self.fullname)
        return const + 1


COUNTER = {'n': 0}


class Counter(Task):
    """each execution yields a new value: shows whether a stored result was really replaced"""

    def run(self) -> int:
        RUNS.append(self.fullname)
        COUNTER['n'] += 1
        return COUNTER['n']


class AfterCounter(Task):
    class Meta:
        input_tasks = [Counter]

    def run(self, counter) -> int:
        RUNS.append(self.fullname)
        return counter * 10


class Vocab(Task):
    """in-memory task with a parameter"""

    class Meta:
        data_class = InMemoryData
        parameters = [Parameter('lang', default='en')]

    def run(self, lang) -> str:
        RUNS.append(self.fullname)
        return f'vocab-{lang}'


class Feats(Task):
    class Meta:
        input_tasks = [Vocab]

    def run(self, vocab) -> str:
        RUNS.append(self.fullname)
        return f'feats({vocab})'


from taskchain import ModuleTask


class Emb(ModuleTask):
    """a ModuleTask whose Meta carries a task_group: release 1.4.0 ignores it, the group is the module name"""

    class Meta:
        task_group = 'nlp'

    def run(self) -> int:
        RUNS.append(self.fullname)
        return 1


class UsesEmb(Task):
    class Meta:
        input_tasks = [Emb]
        parameters = [Parameter('w', default=None)]

    def run(self, emb, w) -> int:
        RUNS.append(self.fullname)
        return emb


class StrLoc(Task):
    """a str-typed parameter (placeholders keep their un-substituted text in the key) and a non-persisted one"""

    class Meta:
        parameters = [Parameter('s', dtype=str, default='x'), Parameter('workers', default=1, ignore_persistence=True)]

    def run(self, s, workers) -> str:
        RUNS.append(self.fullname)
        return f'{s}/{workers}'
