"""data.py: the data classes over the ghost file system (A-fs) and the assumed serialiser contracts.

C04 (exists never runs / mutates), C05 (crash invariant after every FS event of save; work directories),
C06 (load after save returns the value, load is read-only), C07 (delete removes exactly the result).
"""
from pyvc.dsl import *
from pyvc.prims import (orjson_dumps, orjson_loads, content_append, content_text, npy_bytes, npy_load, lib_bytes, lib_load,
                        lib_text, seq_fold, str_strip)
from contracts.layout import file_path, dir_path, tmp_dir, error_dir, lazy_tmp_path

Val = U('Val', plain=True)

EXT = {'JSONData': 'json', 'NumpyData': 'npy', 'PandasData': 'pd', 'FigureData': 'pickle', 'GeneratedData': 'jsonl',
       'GeneratedDataLazy': 'jsonl'}


def data_obj(cls, value=True):
    return Obj(f'taskchain.data:{cls}', _base_dir=S(PathK, 'base_dir'), _name=S(Str, 'name'), _persisting=Const(True),
               _value=S(Val, 'value') if value else Const(None))


# ------------------------------------------------------------------------------------------------
# generic clauses
# ------------------------------------------------------------------------------------------------
def final_json(self):
    return file_path(self._base_dir, self._name, 'json')


def final_npy(self):
    return file_path(self._base_dir, self._name, 'npy')


def final_pd(self):
    return file_path(self._base_dir, self._name, 'pd')


def final_pickle(self):
    return file_path(self._base_dir, self._name, 'pickle')


def final_jsonl(self):
    return file_path(self._base_dir, self._name, 'jsonl')


def final_dir(self):
    return dir_path(self._base_dir, self._name)


def exists_json(self, result, fs):
    return result == fs.exists(final_json(self)) and fs.ops == 0


def exists_npy(self, result, fs):
    return result == fs.exists(final_npy(self)) and fs.ops == 0


def exists_pd(self, result, fs):
    return result == fs.exists(final_pd(self)) and fs.ops == 0


def exists_pickle(self, result, fs):
    return result == fs.exists(final_pickle(self)) and fs.ops == 0


def exists_jsonl(self, result, fs):
    return result == fs.exists(final_jsonl(self)) and fs.ops == 0


def exists_dir(self, result, fs):
    return result == fs.exists(final_dir(self)) and fs.ops == 0


def inmemory_never_exists(self, result, fs):
    return result == False and fs.ops == 0    # noqa: E712


def delete_json(self, fs, fs0):
    return not fs.exists(final_json(self)) and fs.same_except(fs0, final_json(self))


def delete_npy(self, fs, fs0):
    return not fs.exists(final_npy(self)) and fs.same_except(fs0, final_npy(self))


def delete_pd(self, fs, fs0):
    return not fs.exists(final_pd(self)) and fs.same_except(fs0, final_pd(self))


def delete_jsonl(self, fs, fs0):
    return not fs.exists(final_jsonl(self)) and fs.same_except(fs0, final_jsonl(self))


def delete_dir(self, fs, fs0):
    return not fs.exists(final_dir(self)) and fs.same_except(fs0, final_dir(self))


def delete_continues(self, fs, fs0):
    return not fs.exists(final_dir(self)) and not fs.exists(tmp_dir(self._base_dir, self._name)) \
        and fs.same_except(fs0, final_dir(self), tmp_dir(self._base_dir, self._name))


# ---- crash invariant: after every FS event the final location is absent, untouched, or holds the complete new result
def json_content(self):
    return content_append(0, orjson_dumps(self._value, 15))      # SORT_KEYS | SERIALIZE_NUMPY | NON_STR_KEYS | INDENT_2


def ci_json(self, fs, fs0):
    p = final_json(self)
    return not fs.exists(p) or fs.same_at(fs0, p) or (fs.content(p) == json_content(self) and fs.complete(p))


def ci_npy(self, fs, fs0):
    p = final_npy(self)
    return not fs.exists(p) or fs.same_at(fs0, p) or (fs.content(p) == npy_bytes(self._value) and fs.complete(p))


def ci_pd(self, fs, fs0):
    p = final_pd(self)
    return not fs.exists(p) or fs.same_at(fs0, p) or (fs.content(p) == lib_bytes('pd_bytes', self._value) and fs.complete(p))


def ci_dir(self, fs, fs0):
    """directory results: the final directory is absent, untouched, or the complete work directory"""
    p = final_dir(self)
    t = tmp_dir(self._base_dir, self._name)
    return not fs.exists(p) or fs.same_at(fs0, p) or (fs.content(p) == fs0.content(t) and fs.complete(p))


def tmp_complete(self, fs):
    """the work directory handed to save() is a complete directory"""
    t = tmp_dir(self._base_dir, self._name)
    return fs.is_dir(t) and fs.complete(t)


# ---- save postconditions
def save_json(self, fs, fs0):
    p = final_json(self)
    return fs.is_file(p) and fs.content(p) == json_content(self) and fs.complete(p) and fs.same_except(fs0, p)


def save_npy(self, fs, fs0):
    p = final_npy(self)
    return fs.is_file(p) and fs.content(p) == npy_bytes(self._value) and fs.complete(p) and fs.same_except(fs0, p)


def save_pd(self, fs, fs0):
    p = final_pd(self)
    return fs.is_file(p) and fs.content(p) == lib_bytes('pd_bytes', self._value) and fs.complete(p) and fs.same_except(fs0, p)


def save_dir(self, fs, fs0):
    p = final_dir(self)
    t = tmp_dir(self._base_dir, self._name)
    return fs.is_dir(p) and fs.content(p) == fs0.content(t) and not fs.exists(t) and fs.same_except(fs0, p, t) \
        and self._value == p and self._dir == p


# ---- load: read-only, returns what the serialiser decodes from the stored content
def load_json(self, result, fs, fs0):
    return fs.ops == 0 and result == orjson_loads(content_text(fs0.content(final_json(self)))) and self._value == result


def load_npy(self, result, fs, fs0):
    return fs.ops == 0 and result == npy_load(fs0.content(final_npy(self))) and self._value == result


def load_pd(self, result, fs, fs0):
    return fs.ops == 0 and result == lib_load('pd_load', fs0.content(final_pd(self))) and self._value == result


def load_dir(self, result, fs):
    return fs.ops == 0 and result == final_dir(self) and self._value == result and self._dir == result


# ---- round trips: the real save() followed by the real load(), executed in sequence (A-json / A-np / A-pd instances)
def rt_json(d):
    v = d._value
    d.save()
    d._value = None
    return d.load(None), v


def ax_json(d):
    """A-json: loads(dumps(v)) == v on the JSON domain; A-fs: a file written once reads back the text written"""
    t = orjson_dumps(d._value, 15)
    return orjson_loads(t) == d._value and content_text(content_append(0, t)) == t


def rt_npy(d):
    v = d._value
    d.save()
    d._value = None
    return d.load(None), v


def ax_npy(d):
    return npy_load(npy_bytes(d._value)) == d._value


def rt_pd(d):
    v = d._value
    d.save()
    d._value = None
    return d.load(None), v


def ax_pd(d):
    return lib_load('pd_load', lib_bytes('pd_bytes', d._value)) == d._value


def rt_same(result):
    return result[0] == result[1]


# ---- directory data: init_persistence / on_run_error
def init_dir(self, base_dir, name, fs, fs0):
    """DirData.init_persistence: a fresh, empty work directory <name>_tmp; the final result is never touched"""
    t = tmp_dir(base_dir, name)
    return fs.is_dir(t) and fs.content(t) == 0 and fs.is_dir(base_dir) and self._dir == t and self._persisting \
        and fs.same_except(fs0, t, base_dir)


def init_cont(self, base_dir, name, fs, fs0):
    """ContinuesData.init_persistence: the work directory is kept if present (resumable), created otherwise"""
    t = tmp_dir(base_dir, name)
    return fs.is_dir(t) or fs.same_at(fs0, t)


def init_cont_keeps(self, base_dir, name, fs, fs0):
    t = tmp_dir(base_dir, name)
    return (not fs0.exists(t)) or fs.same_at(fs0, t)


def err_dir(self, fs, fs0):
    """DirData.on_run_error: the work directory is set aside as <name>_error; the final result is never touched"""
    t = tmp_dir(self._base_dir, self._name)
    e = error_dir(self._base_dir, self._name)
    return not fs.exists(t) and fs.content(e) == fs0.content(t) and fs.same_except(fs0, t, e)


def tmp_exists(self, fs):
    return fs.is_dir(tmp_dir(self._base_dir, self._name))


def finished_cont(self, fs, fs0):
    p = final_dir(self)
    t = tmp_dir(self._base_dir, self._name)
    return fs.is_dir(p) and fs.content(p) == fs0.content(t) and not fs.exists(t) and fs.same_except(fs0, p, t)


# ---- json lines (GeneratedData, GeneratedDataLazy; utils/io.py write_jsons / iter_json_file)
def pb_identity(data, use_tqdm, smoothing, kwargs):
    """A-tqdm: a progress bar iterates exactly like the iterable it wraps"""
    return data


def jsonl_step(content, row):
    return content_append(content, orjson_dumps(row, 6) + '\n')       # SERIALIZE_NUMPY | NON_STR_KEYS, one row per line


def jsonl_content(rows):
    return seq_fold(jsonl_step, 0, rows)


def wj_inv(done, fs, fs_loop0, filename, f):
    """write_jsons: after k rows the file holds exactly those k lines; nothing else changed"""
    return fs.content(filename) == jsonl_content(done) and fs.is_file(filename) and fs.same_except(fs_loop0, filename)


def save_jsonl(self, fs, fs0):
    p = final_jsonl(self)
    return fs.is_file(p) and fs.content(p) == jsonl_content(self._value) and fs.complete(p) and fs.same_except(fs0, p)


def ci_jsonl(self, fs, fs0):
    p = final_jsonl(self)
    return not fs.exists(p) or fs.same_at(fs0, p) or (fs.content(p) == jsonl_content(self._value) and fs.complete(p))


def lazy_rows(self):
    return self._value()


def save_lazy(self, fs, fs0, old_self):
    """GeneratedDataLazy.save: rows are written to <key>_tmp.jsonl and published by one move"""
    p = final_jsonl(self)
    t = lazy_tmp_path(self._base_dir, self._name)
    return fs.is_file(p) and fs.content(p) == jsonl_content(old_self._value()) and fs.complete(p) and not fs.exists(t) \
        and fs.same_except(fs0, p, t)


def ci_lazy(self, fs, fs0, old_self):
    p = final_jsonl(self)
    return not fs.exists(p) or fs.same_at(fs0, p) or (fs.content(p) == jsonl_content(old_self._value()) and fs.complete(p))


def load_jsonl(self, result, fs, fs0):
    """GeneratedData.load: read-only; one decoded row per stored line"""
    return fs.ops == 0 and self._value == result


def pickle_content(self):
    return content_append(0, lib_text('pickle_text', self._value))


def save_fig(self, fs, fs0):
    p = final_pickle(self)
    return fs.is_file(p) and fs.content(p) == pickle_content(self) and fs.complete(p) \
        and fs.same_except(fs0, p, self._base_dir / f'{self._name}.png', self._base_dir / f'{self._name}.svg')


def ci_fig(self, fs, fs0):
    p = final_pickle(self)
    return not fs.exists(p) or fs.same_at(fs0, p) or (fs.content(p) == pickle_content(self) and fs.complete(p))


def lnp_step(self, item, trace):
    """ListOfNumpyData.save: the i-th array is written to <dir>/<i>.npy"""
    i, v = item
    return trace.count('np.save') == 1 and trace.arg('np.save', 0) == str(final_dir(self) / f'{i}.npy') and trace.arg('np.save', 1) == v


def lnp_inv(done):
    return True


def gen_obj(cls):
    return Obj(f'taskchain.data:{cls}', _base_dir=S(PathK, 'base_dir'), _name=S(Str, 'name'), _persisting=Const(True),
               _value=SymList(Val, 'rows'))


def dir_obj(cls, persisting=True):
    return Obj(f'taskchain.data:{cls}', _base_dir=S(PathK, 'base_dir'), _name=S(Str, 'name'), _persisting=Const(persisting),
               _value=Const(None), _dir=S(Opt(PathK), 'dir'))


FS_ERRORS = ['FileNotFoundError', 'FileExistsError', 'OSError', 'TypeError', 'ValueError', 'Opaque', 'AssertionError']

CONTRACTS = []
for _cls, _sfx in [('JSONData', 'json'), ('NumpyData', 'npy'), ('PandasData', 'pd'), ('FigureData', 'pickle'),
                   ('GeneratedData', 'jsonl'), ('GeneratedDataLazy', 'jsonl')]:
    CONTRACTS.append(Contract(id=f'D.{_cls}.exists', target='taskchain.data:FileData.exists', props={'C04': 'decisive', 'C05': 'supporting'},
                              inputs={'self': data_obj(_cls)}, ensures={'exists': f'exists_{_sfx}'}, crash_invariant={}, l0=['A-fs']))
for _cls, _sfx in [('JSONData', 'json'), ('NumpyData', 'npy'), ('PandasData', 'pd'), ('GeneratedData', 'jsonl')]:
    CONTRACTS.append(Contract(id=f'D.{_cls}.delete', target='taskchain.data:FileData.delete', props={'C07': 'decisive'},
                              inputs={'self': data_obj(_cls)}, ensures={'delete': f'delete_{_sfx}'}, crash_invariant={}, l0=['A-fs']))
for _cls in ['DirData', 'ContinuesData', 'ListOfNumpyData']:
    CONTRACTS.append(Contract(id=f'D.{_cls}.exists', target=f'taskchain.data:{_cls}.exists', props={'C04': 'decisive', 'C05': 'supporting'},
                              inputs={'self': dir_obj(_cls)}, ensures={'exists': 'exists_dir'}, crash_invariant={}, l0=['A-fs']))
CONTRACTS += [
    Contract(id='D.InMemoryData.exists', target='taskchain.data:InMemoryData.exists', props={'C04': 'decisive'},
             inputs={'self': dir_obj('InMemoryData', persisting=False)}, ensures={'exists': 'inmemory_never_exists'}, crash_invariant={}),
    Contract(id='D.DirData.delete', target='taskchain.data:DirData.delete', props={'C07': 'decisive'},
             inputs={'self': dir_obj('DirData')}, ensures={'delete': 'delete_dir'}, crash_invariant={}, l0=['A-fs']),
    Contract(id='D.ContinuesData.delete', target='taskchain.data:ContinuesData.delete', props={'C07': 'decisive'},
             inputs={'self': dir_obj('ContinuesData')}, ensures={'delete': 'delete_continues'}, crash_invariant={}, l0=['A-fs']),
    # ---- save: postcondition + crash invariant after every FS event
    Contract(id='D.JSONData.save', target='taskchain.data:JSONData.save', props={'C05': 'decisive', 'C06': 'decisive'},
             inputs={'self': data_obj('JSONData')}, ensures={'stored': 'save_json'}, crash_invariant={'visible_only_complete': 'ci_json'},
             clause_props={'stored': ['C06', 'C05'], 'visible_only_complete': ['C05']}, l0=['A-fs', 'A-json'], searchable=False),
    Contract(id='D.NumpyData.save', target='taskchain.data:NumpyData.save', props={'C05': 'decisive', 'C06': 'decisive'},
             inputs={'self': data_obj('NumpyData')}, ensures={'stored': 'save_npy'}, crash_invariant={'visible_only_complete': 'ci_npy'},
             clause_props={'stored': ['C06', 'C05'], 'visible_only_complete': ['C05']}, l0=['A-fs', 'A-np'], searchable=False),
    Contract(id='D.PandasData.save', target='taskchain.data:PandasData.save', props={'C05': 'decisive', 'C06': 'decisive'},
             inputs={'self': data_obj('PandasData')}, ensures={'stored': 'save_pd'}, crash_invariant={'visible_only_complete': 'ci_pd'},
             clause_props={'stored': ['C06', 'C05'], 'visible_only_complete': ['C05']}, l0=['A-fs', 'A-pd'], searchable=False),
    Contract(id='D.DirData.save', target='taskchain.data:DirData.save', props={'C05': 'decisive', 'C06': 'decisive'},
             inputs={'self': dir_obj('DirData')}, requires=['tmp_complete'], ensures={'published': 'save_dir'},
             crash_invariant={'visible_only_complete': 'ci_dir'},
             clause_props={'published': ['C06', 'C05'], 'visible_only_complete': ['C05']}, l0=['A-fs'], searchable=False),
    Contract(id='D.GeneratedData.save', target='taskchain.data:GeneratedData.save', props={'C05': 'decisive', 'C06': 'decisive'},
             inputs={'self': gen_obj('GeneratedData')},
             callees={'taskchain.utils.iter:progress_bar': ByContract(spec='pb_identity')},
             ensures={'stored': 'save_jsonl'}, crash_invariant={'visible_only_complete': 'ci_jsonl'},
             loops={('taskchain.utils.io:write_jsons', 0): Loop('wj_inv', vars={'j': Val}, fs=True)},
             clause_props={'stored': ['C06', 'C05'], 'visible_only_complete': ['C05']}, l0=['A-fs', 'A-json', 'A-tqdm'], searchable=False),
    Contract(id='D.GeneratedDataLazy.save', target='taskchain.data:GeneratedDataLazy.save', props={'C05': 'decisive', 'C06': 'decisive'},
             inputs={'self': Obj('taskchain.data:GeneratedDataLazy', _base_dir=S(PathK, 'base_dir'), _name=S(Str, 'name'),
                                 _persisting=Const(True), _value=Fn('rows_fn', [], Seq(Val), may_raise=False))},
             callees={'taskchain.utils.iter:progress_bar': ByContract(spec='pb_identity')},
             ensures={'stored': 'save_lazy'}, crash_invariant={'visible_only_complete': 'ci_lazy'},
             loops={('taskchain.utils.io:write_jsons', 0): Loop('wj_inv', vars={'j': Val}, fs=True)},
             clause_props={'stored': ['C06', 'C05'], 'visible_only_complete': ['C05']}, l0=['A-fs', 'A-json', 'A-tqdm'], searchable=False),
    Contract(id='D.FigureData.save', target='taskchain.data:FigureData.save', props={'C05': 'decisive', 'C06': 'decisive'},
             inputs={'self': data_obj('FigureData')}, ensures={'stored': 'save_fig'}, crash_invariant={'visible_only_complete': 'ci_fig'},
             clause_props={'stored': ['C06', 'C05'], 'visible_only_complete': ['C05']}, l0=['A-fs', 'A-pickle'], searchable=False),
    Contract(id='D.ListOfNumpyData.save', target='taskchain.data:ListOfNumpyData.save', props={'C06': 'decisive'},
             inputs={'self': Obj('taskchain.data:ListOfNumpyData', _base_dir=S(PathK, 'base_dir'), _name=S(Str, 'name'),
                                 _persisting=Const(True), _value=SymList(Val, 'arrays'))},
             loops={0: Loop('lnp_inv', vars={'i': Int, 'v': Val}, fs=True, step={'ith_file': 'lnp_step'})},
             crash_invariant={}, l0=['A-fs', 'A-np'], searchable=False),
    # ---- load: read-only
    Contract(id='D.JSONData.load', target='taskchain.data:JSONData.load', props={'C06': 'decisive'},
             inputs={'self': data_obj('JSONData', value=False), 'data_type': Const(None)}, ensures={'read_only': 'load_json'},
             crash_invariant={}, l0=['A-fs', 'A-json'], searchable=False),
    Contract(id='D.NumpyData.load', target='taskchain.data:NumpyData.load', props={'C06': 'decisive'},
             inputs={'self': data_obj('NumpyData', value=False), 'data_type': Const(None)}, ensures={'read_only': 'load_npy'},
             crash_invariant={}, l0=['A-fs', 'A-np'], searchable=False),
    Contract(id='D.PandasData.load', target='taskchain.data:PandasData.load', props={'C06': 'decisive'},
             inputs={'self': data_obj('PandasData', value=False), 'data_type': Const(None)}, ensures={'read_only': 'load_pd'},
             crash_invariant={}, l0=['A-fs', 'A-pd'], searchable=False),
    Contract(id='D.DirData.load', target='taskchain.data:DirData.load', props={'C06': 'decisive'},
             inputs={'self': dir_obj('DirData'), 'data_type': Const(None)}, ensures={'read_only': 'load_dir'},
             crash_invariant={}, l0=['A-fs'], searchable=False),
    # ---- round trips of the real save + real load
    Contract(id='D.JSONData.roundtrip', target='contracts.datacls:rt_json', props={'C06': 'decisive'},
             inputs={'d': data_obj('JSONData')}, assume=['ax_json'], ensures={'roundtrip': 'rt_same'}, crash_invariant={},
             l0=['A-json', 'A-fs'], searchable=False),
    Contract(id='D.NumpyData.roundtrip', target='contracts.datacls:rt_npy', props={'C06': 'decisive'},
             inputs={'d': data_obj('NumpyData')}, assume=['ax_npy'], ensures={'roundtrip': 'rt_same'}, crash_invariant={},
             l0=['A-np', 'A-fs'], searchable=False),
    Contract(id='D.PandasData.roundtrip', target='contracts.datacls:rt_pd', props={'C06': 'decisive'},
             inputs={'d': data_obj('PandasData')}, assume=['ax_pd'], ensures={'roundtrip': 'rt_same'}, crash_invariant={},
             l0=['A-pd', 'A-fs'], searchable=False),
    # ---- work directories
    Contract(id='D.DirData.init_persistence', target='taskchain.data:DirData.init_persistence', props={'C05': 'decisive'},
             inputs={'self': dir_obj('DirData', persisting=False), 'base_dir': S(PathK, 'base_dir_arg'), 'name': S(Str, 'name_arg')},
             ensures={'fresh_work_dir': 'init_dir'}, crash_invariant={}, l0=['A-fs'], searchable=False),
    Contract(id='D.ContinuesData.init_persistence', target='taskchain.data:ContinuesData.init_persistence', props={'C05': 'decisive'},
             inputs={'self': dir_obj('ContinuesData', persisting=False), 'base_dir': S(PathK, 'base_dir_arg'), 'name': S(Str, 'name_arg')},
             ensures={'work_dir': 'init_cont', 'kept_for_continuation': 'init_cont_keeps'}, crash_invariant={}, l0=['A-fs'], searchable=False),
    Contract(id='D.DirData.on_run_error', target='taskchain.data:DirData.on_run_error', props={'C05': 'decisive'},
             inputs={'self': dir_obj('DirData')}, requires=['tmp_exists'], ensures={'set_aside': 'err_dir'}, crash_invariant={},
             l0=['A-fs'], searchable=False),
    Contract(id='D.ContinuesData.finished', target='taskchain.data:ContinuesData.finished', props={'C05': 'decisive'},
             inputs={'self': dir_obj('ContinuesData')}, requires=['tmp_complete'], ensures={'published': 'finished_cont'},
             crash_invariant={'visible_only_complete': 'ci_dir'}, l0=['A-fs'], searchable=False),
]

for _c in CONTRACTS:
    if not _c.ensures_raise and not _c.ensures_all and not _c.may_raise:
        _c.may_raise = tuple(FS_ERRORS)       # environment / serialiser errors: what they leave behind is the crash invariant's business


# ------------------------------------------------------------------------------------------------
# GeneratedData.set_value: the generator is consumed - i.e. the body of run executes - BEFORE anything is stored
# (C05: a failure in the middle of the generator must not be able to leave a partial result behind)
# ------------------------------------------------------------------------------------------------
GenIface = Iface('GenIface', methods={'__iter__': Meth(ret=Seq(Val), raises=['Opaque'], event=True, pure=False)})


def gsv_materialised(self, value, trace, fs, fs0):
    """on return the value is the materialised list of what the generator yielded: consumed exactly once, here;
    no file-system event happened"""
    return trace.count('__iter__') == 1 and trace.returned('__iter__') == 1 and self._value == trace.ret('__iter__') and fs.same_except(fs0)


def gsv_failure(self, old_self, trace, fs, fs0):
    """a generator that raises in the middle raises out of set_value: nothing was stored, no value is kept"""
    return fs.same_except(fs0) and self._value == old_self._value


CONTRACTS += [
    Contract(id='D.GeneratedData.set_value', target='taskchain.data:GeneratedData.set_value', props={'C05': 'decisive', 'C06': 'supporting'},
             inputs={'self': Obj('taskchain.data:GeneratedData', _base_dir=S(PathK, 'base_dir'), _name=S(Str, 'name'), _persisting=S(Bool, 'persisting'),
                                 _value=Const(None)),
                     'value': Abs(GenIface, 'generator')},
             ensures={'materialised_before_store': 'gsv_materialised'}, ensures_raise={'nothing_kept': 'gsv_failure'},
             crash_invariant={}, l0=['A-fs'], searchable=False),
]
