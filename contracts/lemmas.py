"""L2 lemmas discharged by Lean 4 (Mathlib): statements about the frozen specification functions, not about code paths.

C03.L2.enc_injective  (lemmas/lean/EncFull.lean, 331 lines, axioms: propext)
    On the domain D0 (no quote character inside strings and mapping keys) the value text of
    repr_from_instantiation is uniquely readable (prefix-free with delimiter-led rests), hence injective:
    different JSON-like values have different texts.  Atoms (None/True/False/ints/floats, parameter objects) enter
    through the hypothesis that their text is injective, non-empty and free of structural characters (A-repr).

Binding (trusted, by inspection - listed as assumption A-lean-binding): the Lean functions enc / encl / encd are a
transcription of the frozen Python specification `enc` in contracts/keys.py, which contract K1 proves equal to the
real repr_from_instantiation on every path; mappings are taken with ascending keys (A-sorted)."""
import os
import subprocess
import time

VERIF = os.path.dirname(os.path.dirname(os.path.abspath(__file__)))
LEAN_FILE = os.path.join(VERIF, 'lemmas', 'lean', 'EncFull.lean')
EXPECT = ["'enc_injective' depends on axioms: [propext]", "'AtomText.ofTokens' depends on axioms: [propext]"]


def lean_c03(table, reg, tier, seed):
    t0 = time.time()
    src = open(LEAN_FILE).read()
    out = {'name': 'lean[C03.L2.enc_injective]', 'obligations': 1, 'discharged': 0, 'violations': [], 'bounded': [],
           'by_backend': {}, 'lemma': 'C03.L2.enc_injective', 'file': 'lemmas/lean/EncFull.lean',
           'assumptions': ['A-lean-binding: Lean enc/encl/encd transcribe the frozen spec enc of contracts/keys.py (by inspection)',
                           'A-repr: atom texts are injective, non-empty and contain no structural character',
                           'domain D0: no quote character inside strings and mapping keys (outside D0: known finding F3.quote)']}
    if 'sorry' in src or 'admit' in src or '\naxiom ' in src:
        out['detail'] = 'the Lean file contains sorry / admit / axiom'
        return out
    try:
        r = subprocess.run(['lean', LEAN_FILE], capture_output=True, text=True, timeout=1500, cwd=os.path.dirname(LEAN_FILE))
    except Exception as e:      # lean missing or too slow: the lemma is simply not discharged this run
        out['detail'] = f'lean did not run: {e}'
        return out
    text = r.stdout + r.stderr
    ok = r.returncode == 0 and 'error' not in text.lower() and all(e in text for e in EXPECT)
    out['discharged'] = 1 if ok else 0
    out['by_backend'] = {'lean': 1} if ok else {}
    out['solver_time_s'] = round(time.time() - t0, 1)
    out['detail'] = text.strip()[-300:]
    return out
