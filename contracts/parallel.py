"""C17: chunked and parallel_map (utils/iter.py, utils/threading.py)."""
from pyvc.dsl import *
from pyvc.prims import lemma, all_of, any_of, seq_take, seq_drop, seq_slice

Val = U('Val', plain=True)

RECURSIVE = {'chunks': ([Seq(Val), Int], Seq(Seq(Val)), 2)}


def chunks(xs, c):
    """consecutive chunks of exactly c elements, except a shorter, non-empty last one"""
    if len(xs) == 0:
        return []
    return [seq_take(xs, c)] + chunks(seq_drop(xs, c), c)


def chunksize_positive(chunksize):
    return chunksize >= 1


def chunked_eq_spec(iterable, chunksize, result):
    return result == chunks(iterable, chunksize)


def chunked_inv(xs, k, result, result_size, __yields__, chunksize):
    base = k - result_size
    rest = seq_drop(xs, base)
    # proof hints: slicing identities the sequence solvers do not find inside the larger obligation
    lemma(any_of(base < 0, base > len(xs), chunksize < 1, seq_drop(rest, chunksize) == seq_drop(xs, base + chunksize)))
    lemma(any_of(base < 0, base > len(xs), chunksize < 1, seq_take(rest, chunksize) == seq_slice(xs, base, base + chunksize)))
    lemma(any_of(base < 0, k >= len(xs), base > k, seq_slice(xs, base, k) + seq_slice(xs, k, k + 1) == seq_slice(xs, base, k + 1)))
    return all_of(result_size == len(result), 0 <= result_size, result_size < chunksize, result == seq_slice(xs, base, k),
                  __yields__ + chunks(rest, chunksize) == chunks(xs, chunksize))


def chunked_canary(result):
    return len(result) == 0


CONTRACTS = [
    Contract(
        id='C17.chunked', target='taskchain.utils.iter:chunked', props={'C17': 'decisive'},
        inputs={'iterable': S(Seq(Val), 'xs'), 'chunksize': S(Int, 'chunksize')},
        requires=['chunksize_positive'], ensures={'eq_spec': 'chunked_eq_spec'},
        loops={0: Loop('chunked_inv', vars={'val': Val, 'result_size': Int}, cells={'result': Seq(Val), '__yields__': Seq(Seq(Val))})},
        canary='chunked_canary',
    ),
]
