"""chain.py: MultiChain._prepare (C13: every member chain is built over ONE shared task registry)."""
from pyvc.dsl import *
from pyvc.prims import all_of, any_of, same_map

MCfgU = U('MCfg')
MChainU = U('MChain')
U_ATTRS = {'MCfg': {'name': Str, 'chain': MChainU}}        # config.chain: the Chain built for that config (ghost function of the config)
RegKey = Tup(Str, Str)
RegTaskU = U('RegTask')


def _chain_ctor(ex, cv, args, kwargs):
    """Chain(config, task_registry, parameter_mode=...): the member chain of that config; the call is recorded"""
    from pyvc import pyops as P_
    from pyvc.values import Event
    cfg = args[0]
    ch = P_.getattr_(ex, cfg, 'chain')
    ex.run.trace.append(Event('Chain', None, list(args) + [kwargs.get('parameter_mode')], 'ret', ch))
    return ch


def mc_obj():
    return Obj('taskchain.chain:MultiChain', _tasks=SymDict(RegKey, RegTaskU, 'registry'), chains=DictOf(),
               _base_configs=S(Seq(MCfgU), 'configs'), parameter_mode=S(Bool, 'parameter_mode'))


def mcp_inv(self, done):
    """one member chain per config so far, under the config's name"""
    return same_map(self.chains, {c.name: c.chain for c in done})


def mcp_step(self, config, trace):
    """every member chain is constructed over the SAME registry object - the MultiChain's own - and in the MultiChain's mode:
    this is what makes identical computations one shared task object across the chains"""
    return all_of(trace.count('Chain') == 1, trace.arg('Chain', 0) == config, trace.arg('Chain', 1) is self._tasks,
                  trace.arg('Chain', 2) == self.parameter_mode)


def mcp_post(self):
    return same_map(self.chains, {c.name: c.chain for c in self._base_configs})


def mcp_dup(self, raised):
    """two configs of the same name are refused, not silently merged"""
    names = [c.name for c in self._base_configs]
    return raised == 'AssertionError' and any(names[i] == names[j] for i in range(len(names)) for j in range(len(names)) if i < j)


CONTRACTS = [
    Contract(id='CH.multi_prepare', target='taskchain.chain:MultiChain._prepare', props={'C13': 'decisive'},
             inputs={'self': mc_obj()}, constructors={'taskchain.chain:Chain': _chain_ctor},
             loops={0: Loop('mcp_inv', vars={'config': MCfgU}, attrs={'self.chains': Map(Str, MChainU)}, step={'one_shared_registry': 'mcp_step'})},
             ensures={'chains_by_name': 'mcp_post'}, may_raise=['AssertionError'], l0=['A-dict'], searchable=False),
]


# ------------------------------------------------------------------------------------------------
# MultiChain.__init__ / __getitem__ (C13: "a MultiChain is its chains")
# ------------------------------------------------------------------------------------------------
def mci_post(self, configs, parameter_mode, trace):
    """the shared registry starts EMPTY (tasks are shared among this MultiChain's chains only - nothing leaks in from an earlier
    MultiChain or a default argument), configs and mode are kept as given, and the chains are prepared exactly once"""
    return all_of(len(self._tasks) == 0, len(self.chains) == 0, self._base_configs == configs, self.parameter_mode == parameter_mode,
                  trace.count('_prepare') == 1, trace.arg('_prepare', 0) == self)


def mcg_post(self, chain_name, result):
    """mc[name] is the member chain built for the config of that name"""
    return all_of(chain_name in self.chains, result == self.chains[chain_name])


def mcg_raise(self, chain_name, raised):
    return all_of(raised == 'ValueError', chain_name not in self.chains)


def mcg_frame(self, old_self):
    return same_map(self.chains, old_self.chains)


CONTRACTS += [
    Contract(id='CH.multi_init', target='taskchain.chain:MultiChain.__init__', props={'C13': 'decisive'},
             inputs={'self': Obj('taskchain.chain:MultiChain'), 'configs': S(Seq(MCfgU), 'configs'), 'parameter_mode': S(Bool, 'parameter_mode')},
             callees={'taskchain.chain:MultiChain._prepare': ByContract(event='_prepare', pure=False)},
             ensures={'fresh_registry': 'mci_post'}, searchable=False),
    Contract(id='CH.multi_getitem', target='taskchain.chain:MultiChain.__getitem__', props={'C13': 'decisive'},
             inputs={'self': Obj('taskchain.chain:MultiChain', chains=SymDict(Str, MChainU, 'chains')), 'chain_name': S(Str, 'chain_name')},
             ensures={'member': 'mcg_post', 'frame': 'mcg_frame'}, ensures_raise={'unknown_name': 'mcg_raise', 'frame': 'mcg_frame'}, l0=['A-dict'], searchable=False),
]
