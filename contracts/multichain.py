"""chain.py: MultiChain._prepare (C13: every member chain is built over ONE shared task registry)."""
from pyvc.dsl import *
from pyvc.prims import all_of, any_of, same_map

MCfgU = U('MCfg')
MChainU = U('MChain')
U_ATTRS = {'MCfg': {'name': Str, 'chain': MChainU}}        # config.chain: the Chain built for that config (ghost function of the config)
RegKey = Tup(Str, Str)
RegTaskU = U('RegTask')


def _chain_ctor(ex, cv, args, kwargs):
    """Chain(config, task_registry, parameter_mode=...): the member chain of that config; the call is recorded"""
    from pyvc import pyops as P_
    from pyvc.values import Event
    cfg = args[0]
    ch = P_.getattr_(ex, cfg, 'chain')
    ex.run.trace.append(Event('Chain', None, list(args) + [kwargs.get('parameter_mode')], 'ret', ch))
    return ch


def mc_obj():
    return Obj('taskchain.chain:MultiChain', _tasks=SymDict(RegKey, RegTaskU, 'registry'), chains=DictOf(),
               _base_configs=S(Seq(MCfgU), 'configs'), parameter_mode=S(Bool, 'parameter_mode'))


def mcp_inv(self, done):
    """one member chain per config so far, under the config's name"""
    return same_map(self.chains, {c.name: c.chain for c in done})


def mcp_step(self, config, trace):
    """every member chain is constructed over the SAME registry object - the MultiChain's own - and in the MultiChain's mode:
    this is what makes identical computations one shared task object across the chains"""
    return all_of(trace.count('Chain') == 1, trace.arg('Chain', 0) == config, trace.arg('Chain', 1) is self._tasks,
                  trace.arg('Chain', 2) == self.parameter_mode)


def mcp_post(self):
    return same_map(self.chains, {c.name: c.chain for c in self._base_configs})


def mcp_dup(self, raised):
    """two configs of the same name are refused, not silently merged"""
    names = [c.name for c in self._base_configs]
    return raised == 'AssertionError' and any(names[i] == names[j] for i in range(len(names)) for j in range(len(names)) if i < j)


CONTRACTS = [
    Contract(id='CH.multi_prepare', target='taskchain.chain:MultiChain._prepare', props={'C13': 'decisive'},
             inputs={'self': mc_obj()}, constructors={'taskchain.chain:Chain': _chain_ctor},
             loops={0: Loop('mcp_inv', vars={'config': MCfgU}, attrs={'self.chains': Map(Str, MChainU)}, step={'one_shared_registry': 'mcp_step'})},
             ensures={'chains_by_name': 'mcp_post'}, may_raise=['AssertionError'], l0=['A-dict'], searchable=False),
]
