#!/bin/bash
# Builds the overlay interpreter used by every check: Python 3.12 from /venv (which has taskchain
# installed in development mode from /repo/src, plus its third-party deps) + the solver wheels from
# the offline wheelhouse.  Idempotent, offline, ~5 s.  ./check calls it when .venv is missing.
set -e
cd "$(dirname "$0")"
if [ -x .venv/bin/python ] && .venv/bin/python -c "import z3, taskchain" 2>/dev/null; then
  exit 0
fi
rm -rf .venv
/venv/bin/python -m venv .venv
PIP_NO_INDEX=1 .venv/bin/pip install -q --no-index --find-links /opt/veriftools/wheels z3-solver jsonschema >/dev/null
SP=$(.venv/bin/python -c "import site; print(site.getsitepackages()[0])")
echo "import site; site.addsitedir('/venv/lib/python3.12/site-packages')" > "$SP/zz_venv_overlay.pth"
.venv/bin/python -W ignore -c "import z3, taskchain; print('overlay ok', z3.get_version_string(), taskchain.__file__)"
