#!/usr/bin/env python3
"""Apply each seeded change to /repo, run the given checks (quick), undo the change straight afterwards.
usage: tools/run_seeded.py [--props C12,C02] [ids...]   (default: the property each seed breaks)"""
import json, os, subprocess, sys, time
VERIF = os.path.dirname(os.path.dirname(os.path.abspath(__file__)))
args = sys.argv[1:]
props = None
record = False
if args and args[0] == '--record':
    record = True; args = args[1:]
if args and args[0] == '--props':
    props = args[1].split(','); args = args[2:]
ids = args or sorted(d for d in os.listdir(f'{VERIF}/seeded') if os.path.isdir(f'{VERIF}/seeded/{d}'))
assert subprocess.run(['git', '-C', '/repo', 'status', '--porcelain'], capture_output=True, text=True).stdout.strip() == '', '/repo not clean'
rows = []
for sid in ids:
    meta = json.load(open(f'{VERIF}/seeded/{sid}/meta.json'))
    ps = props or [meta['breaks_property']]
    patch = f'{VERIF}/seeded/{sid}/patch.diff'
    r = subprocess.run(['git', '-C', '/repo', 'apply', patch], capture_output=True, text=True)
    if r.returncode != 0:
        # the seed was made before a fix: commit touched neighbouring lines: retry with reduced context
        r = subprocess.run(['git', '-C', '/repo', 'apply', '-C1', '--recount', patch], capture_output=True, text=True)
    if r.returncode != 0:
        print(sid, 'patch does not apply:', r.stderr.strip()[:200], flush=True)
        rows.append((sid, '-', 'patch does not apply', '')); continue
    try:
        for p in ps:
            t0 = time.time()
            c = subprocess.run([f'{VERIF}/check', p, 'quick'], capture_output=True, text=True, timeout=1800)
            lines = [l for l in c.stdout.splitlines() if l.startswith(('VIOLATION', 'PROOF-LOST', 'CHECKER-FAULT', 'KNOWN'))]
            rows.append((sid, p, f'exit={c.returncode}', ' | '.join(lines)[:300]))
            print(sid, p, f'exit={c.returncode}', f'{time.time()-t0:.0f}s', ' | '.join(lines)[:400], flush=True)
            if record:
                viol = [l.split('replay=')[1].split()[0].split('/')[-1].replace('.json', '') + (' (no-failing-input-found)' if l.rstrip().endswith('no-failing-input-found') else '')
                        for l in lines if l.startswith('VIOLATION')]
                lost = [l.split('contract=')[1].split()[0] for l in lines if l.startswith('PROOF-LOST')]
                kind = lambda v: 'bounded stand-in' if ('.integration.' in v or '.standin' in v or v.split('.')[0].lower().startswith(('c06_', 'c11_', 'c14_', 'c16_', 'c17_'))) else 'contract obligation'
                cb = meta.get('caught_by') if isinstance(meta.get('caught_by'), dict) else {}
                cb[p] = {'check': f'./check {p} quick', 'exit': c.returncode, 'caught': c.returncode == 1,
                         'violations': [{'obligation': v, 'by': kind(v)} for v in viol], 'proof_lost_contracts': lost,
                         'faults': [l for l in lines if l.startswith('CHECKER-FAULT')]}
                meta['caught_by'] = cb
                json.dump(meta, open(f'{VERIF}/seeded/{sid}/meta.json', 'w'), indent=1)
    finally:
        subprocess.run(['git', '-C', '/repo', 'checkout', '--', '.'], check=True)
assert subprocess.run(['git', '-C', '/repo', 'status', '--porcelain'], capture_output=True, text=True).stdout.strip() == ''
# evidence files were rewritten by runs on changed trees: put the committed ones (unchanged tree) back
subprocess.run(['git', '-C', VERIF, 'checkout', '--', 'evidence'], check=False)
