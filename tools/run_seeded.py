#!/usr/bin/env python3
"""Apply each seeded change to /repo, run the given checks (quick), undo the change straight afterwards.
usage: tools/run_seeded.py [--props C12,C02] [ids...]   (default: the property each seed breaks)"""
import json, os, subprocess, sys, time
VERIF = os.path.dirname(os.path.dirname(os.path.abspath(__file__)))
args = sys.argv[1:]
props = None
if args and args[0] == '--props':
    props = args[1].split(','); args = args[2:]
ids = args or sorted(d for d in os.listdir(f'{VERIF}/seeded') if os.path.isdir(f'{VERIF}/seeded/{d}'))
assert subprocess.run(['git', '-C', '/repo', 'status', '--porcelain'], capture_output=True, text=True).stdout.strip() == '', '/repo not clean'
rows = []
for sid in ids:
    meta = json.load(open(f'{VERIF}/seeded/{sid}/meta.json'))
    ps = props or [meta['breaks_property']]
    patch = f'{VERIF}/seeded/{sid}/patch.diff'
    r = subprocess.run(['git', '-C', '/repo', 'apply', patch], capture_output=True, text=True)
    if r.returncode != 0:
        # the seed was made before a fix: commit touched neighbouring lines: retry with reduced context
        r = subprocess.run(['git', '-C', '/repo', 'apply', '-C1', '--recount', patch], capture_output=True, text=True)
    if r.returncode != 0:
        print(sid, 'patch does not apply:', r.stderr.strip()[:200], flush=True)
        rows.append((sid, '-', 'patch does not apply', '')); continue
    try:
        for p in ps:
            t0 = time.time()
            c = subprocess.run([f'{VERIF}/check', p, 'quick'], capture_output=True, text=True, timeout=1800)
            lines = [l for l in c.stdout.splitlines() if l.startswith(('VIOLATION', 'PROOF-LOST', 'CHECKER-FAULT', 'KNOWN'))]
            rows.append((sid, p, f'exit={c.returncode}', ' | '.join(lines)[:300]))
            print(sid, p, f'exit={c.returncode}', f'{time.time()-t0:.0f}s', ' | '.join(lines)[:400], flush=True)
    finally:
        subprocess.run(['git', '-C', '/repo', 'checkout', '--', '.'], check=True)
assert subprocess.run(['git', '-C', '/repo', 'status', '--porcelain'], capture_output=True, text=True).stdout.strip() == ''
