#!/bin/bash
# Confirm sub-agent mutants in their scratch worktrees: patch applies, 128 tests pass with it, demo fails with it,
# demo passes without it.  Confirmed ones are copied to /verif/seeded/<prop>-<k>/.
for wt in "$@"; do
  prop=$(basename $wt)
  for d in $wt/mutants/*/; do
    k=$(basename $d)
    [ -f $d/patch.diff ] || continue
    out=/verif/seeded/$prop-$k
    [ -f $out/meta.json ] && continue
    git -C $wt checkout -q -- src
    if ! git -C $wt apply --check $d/patch.diff 2>/dev/null; then echo "$prop-$k: patch does not apply"; continue; fi
    (cd $wt && PYTHONPATH=$wt/src timeout 120 /venv/bin/python mutants/$k/demo.py >/dev/null 2>&1); clean=$?
    git -C $wt apply $d/patch.diff
    tests=$(cd $wt && PYTHONPATH=$wt/src timeout 600 /venv/bin/python -m pytest -q -p no:cacheprovider 2>&1 | tail -1)
    (cd $wt && PYTHONPATH=$wt/src timeout 120 /venv/bin/python mutants/$k/demo.py >/tmp/demo_$prop_$k.out 2>&1); mut=$?
    git -C $wt checkout -q -- src
    ok=no
    if [ $clean -eq 0 ] && [ $mut -ne 0 ] && echo "$tests" | grep -q "128 passed"; then ok=yes; fi
    echo "$prop-$k: clean_demo=$clean mutated_demo=$mut tests='$tests' confirmed=$ok"
    if [ $ok = yes ]; then
      mkdir -p $out
      cp $d/patch.diff $d/demo.py $out/
      [ -f $d/notes.md ] && cp $d/notes.md $out/
      python3 - "$prop" "$k" "$out" "$tests" <<'PY'
import json,sys,re
prop,k,out,tests=sys.argv[1:5]
notes=open(out+'/notes.md').read() if __import__('os').path.exists(out+'/notes.md') else ''
files=sorted(set(re.findall(r'^\+\+\+ b/(\S+)',open(out+'/patch.diff').read(),re.M)))
json.dump({'id':f'{prop}-{k}','breaks_property':prop,'files':files,
 'needs_to_manifest':notes.strip()[:1500],
 'confirmed':{'patch_applies':True,'tests_with_change':tests,'demo_with_change':'fails (non-zero exit)','demo_without_change':'passes (exit 0)',
              'how':'tools/confirm_mutants.sh in a scratch worktree of /repo (PYTHONPATH=<worktree>/src)'},
 'caught_by':None},open(out+'/meta.json','w'),indent=1)
PY
    fi
  done
done
