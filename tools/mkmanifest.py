#!/usr/bin/env python3
"""Regenerate MANIFEST.json from the table below (claimed checks) + properties.jsonl (everything else -> not_applicable)."""
import json, os
V = os.path.dirname(os.path.dirname(os.path.abspath(__file__)))
props = [json.loads(l) for l in open(f'{V}/properties.jsonl')]
BASE = "cd /repo && /venv/bin/python -m pytest -ra -q -p no:cacheprovider --timeout=900 --continue-on-collection-errors"
TB = ("Trusted: pyvc executor and SMT encoding; cvc5 1.0.3 / z3 5.1 (an unsat counts only from cvc5, or from two z3 configurations together with no sat anywhere - "
      "z3 alone was seen to be unsound on sequence + quantifier problems, DESIGN.md 8.3); Lean 4.33 + Mathlib for the L2 lemma of C03; assumed (L0) contracts of builtins / "
      "stdlib / third-party libraries as listed in the evidence file (A-repr, A-sorted, A-split, A-sha, A-path, A-fs, A-dict, A-re, A-json, A-np, A-pd, A-nx, A-time ...); "
      "callees taken by contract are verified under their own contract id unless the evidence lists them as assumed; Python ints mathematical, floats opaque; single thread. "
      "Bounded stand-ins (native runs of the real code) are listed under coverage.bounded / extra_checks in the evidence and are never counted as proved.")
CLAIMED = json.load(open(f'{V}/tools/claimed.json'))
NA = json.load(open(f'{V}/tools/not_applicable.json'))
checks = []
for pid, c in CLAIMED.items():
    checks.append({
        "property_id": pid,
        "quick_cmd": f"./check {pid} quick",
        "thorough_cmd": f"./check {pid} thorough",
        "evidence_file": f"evidence/{pid}.json",
        "replay_cmd_template": "./check --replay {path}",
        "engine": "pyvc",
        "level_claimed": {"category": c.get("category", "proof"), "text": c["text"], "design_ref": c.get("design_ref", f"DESIGN.md section 4 ({pid}) and section 8")},
        "level_note": c.get("note", TB),
        "technique": c.get("technique", "contract-based deductive verification: sidecar contracts (pre/postconditions, loop invariants, frames over a ghost file system, ghost call traces) on the real functions of /repo; verification conditions generated from the current source by symbolic execution of the AST on every run, one per path x clause, discharged by cvc5 / z3 (an unsat needs cvc5 or two z3 configurations); failing obligations are replayed on the real code; bounded native stand-ins only where labelled"),
    })
na = []
for p in props:
    if p['id'] in CLAIMED:
        continue
    na.append({"property_id": p['id'], "reason": NA.get(p['id'], "engine does not reach the anchored functions yet (build in progress)")})
m = {"version": 1, "setup_cmd": "./setup.sh",
     "hooks": {"guard": "TASKCHAIN_VERIF", "enable": "no source hooks: contracts are sidecar files under /verif, replays stub callees from outside",
               "baseline_off_cmd": BASE, "source_commits": [], "add_only": True},
     "engines": [{"name": "pyvc", "path": "pyvc/", "serves_properties": sorted(CLAIMED),
                  "kind_free_text": "ast -> symbolic execution of the real /repo functions against sidecar contracts (contracts/*.py) -> per-path verification conditions -> z3 || cvc5; native replay / bounded search on the real code"}],
     "checks": checks, "not_applicable": na,
     "notes": "fix: commits in /repo are listed in known_findings.json (status fixed). See DESIGN.md section 8 for what is proved, bounded or assumed per property."}
json.dump(m, open(f'{V}/MANIFEST.json', 'w'), indent=1)
print('claimed', sorted(CLAIMED), 'n/a', [n['property_id'] for n in na])
