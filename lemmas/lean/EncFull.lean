import Mathlib.Data.List.Basic

/-!
Unique readability of the taskchain value text (`repr_from_instantiation`, release 1.4.0 scheme)
on the domain D₀: strings and mapping keys contain no quote character.

  atoms  : None / True / False / int / float / parameter objects — abstract, with a prefix-free text (hypothesis `pf`)
  str    : ' s '
  list   : [ x, y, … ]
  dict   : { 'k': v, 'k2': v2, … }            (entries in the order given; the real code sorts keys, A-sorted)
-/

variable {A : Type}

mutual
inductive J (A : Type) : Type
  | atom : A → J A
  | str  : List Char → J A
  | list : JL A → J A
  | dict : JD A → J A
inductive JL (A : Type) : Type
  | nil  : JL A
  | cons : J A → JL A → JL A
inductive JD (A : Type) : Type
  | nil  : JD A
  | cons : List Char → J A → JD A → JD A
end

/-- rest is empty or starts with one of the characters that can follow a value -/
def Delim (r : List Char) : Prop :=
  r = [] ∨ ∃ c rs, r = c :: rs ∧ (c = ',' ∨ c = ']' ∨ c = '}' ∨ c = '#' ∨ c = '$')

/-- first characters an atom text may not start with -/
def atomHead (c : Char) : Prop := c ≠ '[' ∧ c ≠ ']' ∧ c ≠ '{' ∧ c ≠ '}' ∧ c ≠ ',' ∧ c ≠ '\''

structure AtomText (A : Type) where
  text : A → List Char
  head : ∀ a, ∃ c cs, text a = c :: cs ∧ atomHead c
  pf   : ∀ a b r s, text a ++ r = text b ++ s → Delim r → Delim s → a = b ∧ r = s

def q (s : List Char) : List Char := '\'' :: (s ++ ['\''])

mutual
def enc (T : AtomText A) : J A → List Char
  | .atom a  => T.text a
  | .str s   => q s
  | .list xs => '[' :: (encl T xs ++ [']'])
  | .dict kv => '{' :: (encd T kv ++ ['}'])
def encl (T : AtomText A) : JL A → List Char
  | .nil => []
  | .cons x .nil => enc T x
  | .cons x (.cons y ys) => enc T x ++ (',' :: ' ' :: encl T (.cons y ys))
def encd (T : AtomText A) : JD A → List Char
  | .nil => []
  | .cons k v .nil => q k ++ (':' :: ' ' :: enc T v)
  | .cons k v (.cons k2 v2 r) => q k ++ (':' :: ' ' :: (enc T v ++ (',' :: ' ' :: encd T (.cons k2 v2 r))))
end

/-- the domain D₀ -/
def NoQuote (s : List Char) : Prop := ∀ c ∈ s, c ≠ '\''
mutual
def D0 : J A → Prop
  | .atom _ => True
  | .str s => NoQuote s
  | .list xs => D0l xs
  | .dict kv => D0d kv
def D0l : JL A → Prop
  | .nil => True
  | .cons x xs => D0 x ∧ D0l xs
def D0d : JD A → Prop
  | .nil => True
  | .cons k v r => NoQuote k ∧ D0 v ∧ D0d r
end

theorem token_split (tok : Char → Prop) :
    ∀ (t₁ t₂ r s : List Char), (∀ c ∈ t₁, tok c) → (∀ c ∈ t₂, tok c) →
      (∀ c rs, r = c :: rs → ¬ tok c) → (∀ c rs, s = c :: rs → ¬ tok c) → t₁ ++ r = t₂ ++ s → t₁ = t₂ ∧ r = s := by
  intro t₁
  induction t₁ with
  | nil =>
    intro t₂ r s _ h₂ hr hs h
    cases t₂ with
    | nil => exact ⟨rfl, by simpa using h⟩
    | cons c t₂ =>
      exfalso
      have h' : r = c :: (t₂ ++ s) := by simpa using h
      exact hr c _ h' (h₂ c (by simp))
  | cons a t₁ ih =>
    intro t₂ r s h₁ h₂ hr hs h
    cases t₂ with
    | nil =>
      exfalso
      have h' : s = a :: (t₁ ++ r) := by simpa using h.symm
      exact hs a _ h' (h₁ a (by simp))
    | cons c t₂ =>
      have hh : a = c ∧ t₁ ++ r = t₂ ++ s := by simpa using h
      obtain ⟨hac, ht⟩ := hh
      have := ih t₂ r s (fun x hx => h₁ x (by simp [hx])) (fun x hx => h₂ x (by simp [hx])) hr hs ht
      exact ⟨by rw [hac, this.1], this.2⟩

/-- quoted strings over quote-free contents are prefix-free, whatever follows -/
theorem q_pf (s₁ s₂ r₁ r₂ : List Char) (h₁ : NoQuote s₁) (h₂ : NoQuote s₂)
    (h : q s₁ ++ r₁ = q s₂ ++ r₂) : s₁ = s₂ ∧ r₁ = r₂ := by
  simp only [q, List.cons_append, List.append_assoc, List.cons.injEq, true_and] at h
  have := token_split (fun c => c ≠ '\'') s₁ s₂ ('\'' :: r₁) ('\'' :: r₂) h₁ h₂
    (by intro c rs hc; injection hc with hc1 _; simp [← hc1])
    (by intro c rs hc; injection hc with hc1 _; simp [← hc1]) h
  obtain ⟨a, b⟩ := this
  injection b with _ b'
  exact ⟨a, b'⟩

def kind : J A → Nat
  | .atom _ => 0 | .str _ => 1 | .list _ => 2 | .dict _ => 3

def HeadOK : J A → Char → Prop
  | .atom _, c => atomHead c
  | .str _,  c => c = '\''
  | .list _, c => c = '['
  | .dict _, c => c = '{'

theorem head_char (T : AtomText A) (v : J A) : ∃ c cs, enc T v = c :: cs ∧ HeadOK v c := by
  cases v with
  | atom a => obtain ⟨c, cs, h, hc⟩ := T.head a; exact ⟨c, cs, by simp [enc, h], hc⟩
  | str s => exact ⟨'\'', s ++ ['\''], by simp [enc, q], rfl⟩
  | list xs => exact ⟨'[', encl T xs ++ [']'], by simp [enc], rfl⟩
  | dict kv => exact ⟨'{', encd T kv ++ ['}'], by simp [enc], rfl⟩

theorem headOK_kind {v w : J A} {c : Char} (hv : HeadOK v c) (hw : HeadOK w c) : kind v = kind w := by
  cases v <;> cases w <;> simp only [HeadOK, atomHead, kind] at * <;> first | rfl | (exfalso; simp_all)

theorem head_not_close {v : J A} {c : Char} (h : HeadOK v c) : c ≠ ']' ∧ c ≠ '}' ∧ c ≠ ',' := by
  cases v <;> simp only [HeadOK, atomHead] at h
  · exact ⟨h.2.1, h.2.2.2.1, h.2.2.2.2.1⟩
  all_goals (subst h; decide)

theorem kind_eq_of_eq (T : AtomText A) (v w : J A) (r s : List Char)
    (h : enc T v ++ r = enc T w ++ s) : kind v = kind w := by
  obtain ⟨c, cs, hc, hv⟩ := head_char T v
  obtain ⟨d, ds, hd, hw⟩ := head_char T w
  rw [hc, hd] at h
  simp only [List.cons_append, List.cons.injEq] at h
  exact headOK_kind hv (h.1 ▸ hw)

theorem delim_close_sq (r' : List Char) : Delim (']' :: r') := Or.inr ⟨']', r', rfl, by simp⟩
theorem delim_close_br (r' : List Char) : Delim ('}' :: r') := Or.inr ⟨'}', r', rfl, by simp⟩
theorem delim_comma (r' : List Char) : Delim (',' :: r') := Or.inr ⟨',', r', rfl, by simp⟩

mutual
theorem enc_pf (T : AtomText A) : ∀ (v w : J A) (r s : List Char), D0 v → D0 w →
    enc T v ++ r = enc T w ++ s → Delim r → Delim s → v = w ∧ r = s
  | .atom a, .atom b, r, s, _, _, h, hr, hs => by
    simp only [enc] at h
    have := T.pf a b r s h hr hs
    exact ⟨by rw [this.1], this.2⟩
  | .str s₁, .str s₂, r, s, d₁, d₂, h, _, _ => by
    simp only [enc] at h
    simp only [D0] at d₁ d₂
    have := q_pf s₁ s₂ r s d₁ d₂ h
    exact ⟨by rw [this.1], this.2⟩
  | .list xs, .list ys, r, s, d₁, d₂, h, _, _ => by
    simp only [enc, List.cons_append, List.append_assoc, List.cons.injEq, true_and] at h
    simp only [D0] at d₁ d₂
    have := encl_pf T xs ys (']' :: r) (']' :: s) d₁ d₂ h ⟨r, rfl⟩ ⟨s, rfl⟩
    obtain ⟨h1, h2⟩ := this
    injection h2 with _ h3
    exact ⟨by rw [h1], h3⟩
  | .dict xs, .dict ys, r, s, d₁, d₂, h, _, _ => by
    simp only [enc, List.cons_append, List.append_assoc, List.cons.injEq, true_and] at h
    simp only [D0] at d₁ d₂
    have := encd_pf T xs ys ('}' :: r) ('}' :: s) d₁ d₂ h ⟨r, rfl⟩ ⟨s, rfl⟩
    obtain ⟨h1, h2⟩ := this
    injection h2 with _ h3
    exact ⟨by rw [h1], h3⟩
  | .atom _, .str _,  r, s, _, _, h, _, _ => absurd (kind_eq_of_eq T _ _ r s h) (by simp [kind])
  | .atom _, .list _, r, s, _, _, h, _, _ => absurd (kind_eq_of_eq T _ _ r s h) (by simp [kind])
  | .atom _, .dict _, r, s, _, _, h, _, _ => absurd (kind_eq_of_eq T _ _ r s h) (by simp [kind])
  | .str _,  .atom _, r, s, _, _, h, _, _ => absurd (kind_eq_of_eq T _ _ r s h) (by simp [kind])
  | .str _,  .list _, r, s, _, _, h, _, _ => absurd (kind_eq_of_eq T _ _ r s h) (by simp [kind])
  | .str _,  .dict _, r, s, _, _, h, _, _ => absurd (kind_eq_of_eq T _ _ r s h) (by simp [kind])
  | .list _, .atom _, r, s, _, _, h, _, _ => absurd (kind_eq_of_eq T _ _ r s h) (by simp [kind])
  | .list _, .str _,  r, s, _, _, h, _, _ => absurd (kind_eq_of_eq T _ _ r s h) (by simp [kind])
  | .list _, .dict _, r, s, _, _, h, _, _ => absurd (kind_eq_of_eq T _ _ r s h) (by simp [kind])
  | .dict _, .atom _, r, s, _, _, h, _, _ => absurd (kind_eq_of_eq T _ _ r s h) (by simp [kind])
  | .dict _, .str _,  r, s, _, _, h, _, _ => absurd (kind_eq_of_eq T _ _ r s h) (by simp [kind])
  | .dict _, .list _, r, s, _, _, h, _, _ => absurd (kind_eq_of_eq T _ _ r s h) (by simp [kind])

theorem encl_pf (T : AtomText A) : ∀ (xs ys : JL A) (r s : List Char), D0l xs → D0l ys →
    encl T xs ++ r = encl T ys ++ s → (∃ r', r = ']' :: r') → (∃ s', s = ']' :: s') → xs = ys ∧ r = s
  | .nil, .nil, r, s, _, _, h, _, _ => by simp only [encl, List.nil_append] at h; exact ⟨rfl, h⟩
  | .nil, .cons y ys, r, s, _, _, h, ⟨r', hr⟩, _ => by
    exfalso
    obtain ⟨c, cs, hc, hk⟩ := head_char T y
    have hn := (head_not_close hk).1
    cases ys with
    | nil => simp only [encl, List.nil_append, hc, hr, List.cons_append] at h; injection h with h1 _; exact hn h1.symm
    | cons z zs => simp only [encl, List.nil_append, hc, hr, List.cons_append] at h; injection h with h1 _; exact hn h1.symm
  | .cons x xs, .nil, r, s, _, _, h, _, ⟨s', hs⟩ => by
    exfalso
    obtain ⟨c, cs, hc, hk⟩ := head_char T x
    have hn := (head_not_close hk).1
    cases xs with
    | nil => simp only [encl, List.nil_append, hc, hs, List.cons_append] at h; injection h with h1 _; exact hn h1
    | cons z zs => simp only [encl, List.nil_append, hc, hs, List.cons_append] at h; injection h with h1 _; exact hn h1
  | .cons x .nil, .cons y .nil, r, s, d₁, d₂, h, ⟨r', hr⟩, ⟨s', hs⟩ => by
    simp only [encl] at h
    simp only [D0l] at d₁ d₂
    have := enc_pf T x y r s d₁.1 d₂.1 h (hr ▸ delim_close_sq r') (hs ▸ delim_close_sq s')
    exact ⟨by rw [this.1], this.2⟩
  | .cons x .nil, .cons y (.cons z zs), r, s, d₁, d₂, h, ⟨r', hr⟩, _ => by
    exfalso
    simp only [encl, List.append_assoc, List.cons_append] at h
    simp only [D0l] at d₁ d₂
    have := enc_pf T x y r _ d₁.1 d₂.1 h (hr ▸ delim_close_sq r') (delim_comma _)
    rw [hr] at this
    have h2 := this.2
    injection h2 with h3 _
    exact absurd h3 (by decide)
  | .cons x (.cons z zs), .cons y .nil, r, s, d₁, d₂, h, _, ⟨s', hs⟩ => by
    exfalso
    simp only [encl, List.append_assoc, List.cons_append] at h
    simp only [D0l] at d₁ d₂
    have := enc_pf T x y _ s d₁.1 d₂.1 h (delim_comma _) (hs ▸ delim_close_sq s')
    rw [hs] at this
    have h2 := this.2
    injection h2 with h3 _
    exact absurd h3 (by decide)
  | .cons x (.cons x2 xs), .cons y (.cons y2 ys), r, s, d₁, d₂, h, hr, hs => by
    simp only [encl, List.append_assoc, List.cons_append] at h
    simp only [D0l] at d₁ d₂
    have h1 := enc_pf T x y _ _ d₁.1 d₂.1 h (delim_comma _) (delim_comma _)
    obtain ⟨hxy, hrest⟩ := h1
    simp only [List.cons.injEq, true_and] at hrest
    have h2 := encl_pf T (.cons x2 xs) (.cons y2 ys) r s (by simpa [D0l] using d₁.2) (by simpa [D0l] using d₂.2) hrest hr hs
    obtain ⟨ht, hrs⟩ := h2
    exact ⟨by rw [hxy, ht], hrs⟩

theorem encd_pf (T : AtomText A) : ∀ (xs ys : JD A) (r s : List Char), D0d xs → D0d ys →
    encd T xs ++ r = encd T ys ++ s → (∃ r', r = '}' :: r') → (∃ s', s = '}' :: s') → xs = ys ∧ r = s
  | .nil, .nil, r, s, _, _, h, _, _ => by simp only [encd, List.nil_append] at h; exact ⟨rfl, h⟩
  | .nil, .cons k v ys, r, s, _, _, h, ⟨r', hr⟩, _ => by
    exfalso
    cases ys with
    | nil => simp only [encd, q, List.nil_append, hr, List.cons_append] at h; injection h with h1 _; exact absurd h1 (by decide)
    | cons k2 v2 zs => simp only [encd, q, List.nil_append, hr, List.cons_append] at h; injection h with h1 _; exact absurd h1 (by decide)
  | .cons k v xs, .nil, r, s, _, _, h, _, ⟨s', hs⟩ => by
    exfalso
    cases xs with
    | nil => simp only [encd, q, List.nil_append, hs, List.cons_append] at h; injection h with h1 _; exact absurd h1 (by decide)
    | cons k2 v2 zs => simp only [encd, q, List.nil_append, hs, List.cons_append] at h; injection h with h1 _; exact absurd h1 (by decide)
  | .cons k v .nil, .cons k' v' .nil, r, s, d₁, d₂, h, ⟨r', hr⟩, ⟨s', hs⟩ => by
    simp only [encd, List.append_assoc, List.cons_append] at h
    simp only [D0d] at d₁ d₂
    have hq := q_pf k k' _ _ d₁.1 d₂.1 h
    obtain ⟨hk, hrest⟩ := hq
    simp only [List.cons.injEq, true_and] at hrest
    have := enc_pf T v v' r s d₁.2.1 d₂.2.1 hrest (hr ▸ delim_close_br r') (hs ▸ delim_close_br s')
    exact ⟨by rw [hk, this.1], this.2⟩
  | .cons k v .nil, .cons k' v' (.cons k2 v2 zs), r, s, d₁, d₂, h, ⟨r', hr⟩, _ => by
    exfalso
    simp only [encd, List.append_assoc, List.cons_append] at h
    simp only [D0d] at d₁ d₂
    have hq := q_pf k k' _ _ d₁.1 d₂.1 h
    obtain ⟨_, hrest⟩ := hq
    simp only [List.cons.injEq, true_and] at hrest
    have := enc_pf T v v' r _ d₁.2.1 d₂.2.1 hrest (hr ▸ delim_close_br r') (delim_comma _)
    rw [hr] at this
    have h2 := this.2
    injection h2 with h3 _
    exact absurd h3 (by decide)
  | .cons k v (.cons k2 v2 zs), .cons k' v' .nil, r, s, d₁, d₂, h, _, ⟨s', hs⟩ => by
    exfalso
    simp only [encd, List.append_assoc, List.cons_append] at h
    simp only [D0d] at d₁ d₂
    have hq := q_pf k k' _ _ d₁.1 d₂.1 h
    obtain ⟨_, hrest⟩ := hq
    simp only [List.cons.injEq, true_and] at hrest
    have := enc_pf T v v' _ s d₁.2.1 d₂.2.1 hrest (delim_comma _) (hs ▸ delim_close_br s')
    rw [hs] at this
    have h2 := this.2
    injection h2 with h3 _
    exact absurd h3 (by decide)
  | .cons k v (.cons k2 v2 xs), .cons k' v' (.cons k2' v2' ys), r, s, d₁, d₂, h, hr, hs => by
    simp only [encd, List.append_assoc, List.cons_append] at h
    simp only [D0d] at d₁ d₂
    have hq := q_pf k k' _ _ d₁.1 d₂.1 h
    obtain ⟨hk, hrest⟩ := hq
    simp only [List.cons.injEq, true_and] at hrest
    have h1 := enc_pf T v v' _ _ d₁.2.1 d₂.2.1 hrest (delim_comma _) (delim_comma _)
    obtain ⟨hv, hrest2⟩ := h1
    simp only [List.cons.injEq, true_and] at hrest2
    have h2 := encd_pf T (.cons k2 v2 xs) (.cons k2' v2' ys) r s (by simpa [D0d] using d₁.2.2) (by simpa [D0d] using d₂.2.2) hrest2 hr hs
    obtain ⟨ht, hrs⟩ := h2
    exact ⟨by rw [hk, hv, ht], hrs⟩
end

/-- C03.inj.enc : on D₀ the value text is injective -/
theorem enc_injective (T : AtomText A) (v w : J A) (dv : D0 v) (dw : D0 w) (h : enc T v = enc T w) : v = w := by
  have := enc_pf T v w [] [] dv dw (by simpa using h) (Or.inl rfl) (Or.inl rfl)
  exact this.1
#print axioms enc_injective

/-- Scalar atoms (None / True / False / int / float): an injective, non-empty text over characters that are
    neither structural nor separators yields the `AtomText` hypotheses.  (A-repr supplies exactly these facts.) -/
def tokc (c : Char) : Prop := atomHead c ∧ c ≠ '#' ∧ c ≠ '$'

theorem delim_not_tokc {r : List Char} (h : Delim r) : ∀ c rs, r = c :: rs → ¬ tokc c := by
  intro c rs hc ht
  rcases h with h | ⟨d, ds, h, hd⟩
  · simp [h] at hc
  · rw [h] at hc; injection hc with h1 _; subst h1
    obtain ⟨⟨_, h2, _, h4, h5, _⟩, h7, h8⟩ := ht
    rcases hd with hd | hd | hd | hd | hd
    · exact h5 hd
    · exact h2 hd
    · exact h4 hd
    · exact h7 hd
    · exact h8 hd

def AtomText.ofTokens (text : A → List Char) (inj : ∀ a b, text a = text b → a = b)
    (ne : ∀ a, text a ≠ []) (tok : ∀ a, ∀ c ∈ text a, tokc c) : AtomText A where
  text := text
  head := by
    intro a
    cases h : text a with
    | nil => exact absurd h (ne a)
    | cons c cs => exact ⟨c, cs, rfl, (tok a c (by simp [h])).1⟩
  pf := by
    intro a b r s h hr hs
    have := token_split tokc (text a) (text b) r s (tok a) (tok b) (delim_not_tokc hr) (delim_not_tokc hs) h
    exact ⟨inj a b this.1, this.2⟩
#print axioms AtomText.ofTokens
