"""Run-time values of the symbolic executor and the per-path state."""
import z3
from . import kinds as K
from .kinds import Sym


class Ref:
    """Reference to a heap cell (object, list, dict, set)."""
    __slots__ = ('addr',)

    def __init__(self, addr):
        self.addr = addr

    def __repr__(self):
        return f'&{self.addr}'

    def __eq__(self, o):
        return isinstance(o, Ref) and o.addr == self.addr

    def __hash__(self):
        return hash(('ref', self.addr))


class HObj:
    """Heap object of a /repo class (cls: ClassInfo) or of an external class (cls: ('ext', name))."""

    def __init__(self, cls, fields=None, payload=None):
        self.cls = cls
        self.fields = fields if fields is not None else {}
        self.payload = payload      # for str / dict subclasses: the underlying value
        self.ghost = {}

    def copy(self):
        o = HObj(self.cls, dict(self.fields), self.payload)
        o.ghost = dict(self.ghost)
        return o


class HList:
    """A Python list: concrete spine (items: list of values) or symbolic (sym: Sym of kind Seq)."""

    def __init__(self, items=None, sym=None):
        self.items = items
        self.sym = sym
        self.ghost = {}

    def copy(self):
        o = HList(list(self.items) if self.items is not None else None, self.sym)
        o.ghost = dict(self.ghost)
        return o


class HDict:
    """A Python dict: concrete keys (items: dict python-key -> value, insertion ordered) or symbolic
    (sym: Sym of kind Map)."""

    def __init__(self, items=None, sym=None):
        self.items = items
        self.sym = sym
        self.ghost = {}

    def copy(self):
        o = HDict(dict(self.items) if self.items is not None else None, self.sym)
        o.ghost = dict(self.ghost)
        return o


class HSet:
    def __init__(self, items=None, sym=None):
        self.items = items          # list of values (concrete spine, distinctness by decide)
        self.sym = sym
        self.ghost = {}

    def copy(self):
        o = HSet(list(self.items) if self.items is not None else None, self.sym)
        o.ghost = dict(self.ghost)
        return o


class AbstractObj:
    """An object known only through an interface contract (contracts.Iface)."""

    def __init__(self, iface, name, fields=None):
        self.iface = iface
        self.name = name
        self.fields = fields if fields is not None else {}
        self.ghost = {}

    def copy(self):
        o = AbstractObj(self.iface, self.name, dict(self.fields))
        o.ghost = dict(self.ghost)
        return o


class FuncVal:
    def __init__(self, fi, closure=None, defaults=None, kwdefaults=None, name=None):
        self.fi = fi                    # source.FunctionInfo (node may be Lambda)
        self.closure = closure          # Frame
        self.defaults = defaults or []
        self.kwdefaults = kwdefaults or {}
        self.name = name or getattr(fi.node, 'name', '<lambda>')
        self.attrs = {}

    def __repr__(self):
        return f'<func {self.fi.key}>'


class BoundMethod:
    def __init__(self, func, self_val):
        self.func = func
        self.self_val = self_val

    def __repr__(self):
        return f'<bound {self.func}>'


class Builtin:
    """A modelled external function; fn(ex, args, kwargs) -> value."""

    def __init__(self, name, fn, self_val=None):
        self.name = name
        self.fn = fn
        self.self_val = self_val

    def __repr__(self):
        return f'<builtin {self.name}>'


class ClassVal:
    def __init__(self, ci):
        self.ci = ci                    # source.ClassInfo or ('ext', dotted)

    def __eq__(self, o):
        return isinstance(o, ClassVal) and o.ci == self.ci

    def __hash__(self):
        return hash(('cls', str(self.ci)))

    def __repr__(self):
        return f'<classval {self.ci}>'


class ModuleVal:
    def __init__(self, mi):
        self.mi = mi                    # source.ModuleInfo or ('ext', dotted)

    def __repr__(self):
        return f'<module {self.mi}>'


class ExcVal:
    """A raised exception: class name (python builtin or repo class) + message (ignored) + origin tag."""

    def __init__(self, cls, args=(), origin=None, payload=None):
        self.cls = cls                  # string: 'KeyError', 'ValueError', 'taskchain.cache:CacheException', 'Opaque'
        self.args = args
        self.origin = origin            # event / callee that raised it (for trace clauses)
        self.payload = payload          # Sym identifying an opaque exception object (for "re-raised unchanged")

    def __repr__(self):
        return f'<exc {self.cls} from {self.origin}>'


class Event:
    """Ghost trace entry: a call to an abstract callee (or a ghost file-system operation)."""
    __slots__ = ('name', 'recv', 'args', 'outcome', 'ret', 'meta')

    def __init__(self, name, recv=None, args=(), outcome='ret', ret=None, meta=None):
        self.name = name
        self.recv = recv
        self.args = tuple(args)
        self.outcome = outcome          # 'ret' | 'raise'
        self.ret = ret
        self.meta = meta or {}

    def __repr__(self):
        r = f'{self.recv}.' if self.recv is not None else ''
        return f'{r}{self.name}{"!" if self.outcome == "raise" else ""}'


class Frame:
    def __init__(self, fi, module, closure=None, self_cls=None):
        self.fi = fi
        self.module = module            # ModuleInfo for global lookups
        self.closure = closure
        self.locals = {}
        self.self_cls = self_cls        # ClassInfo the function was found in (for super())
        self.yields = None              # list of yielded values when the function is a generator
        self.first_arg = None

    def lookup(self, name):
        f = self
        while f is not None:
            if name in f.locals:
                return f, f.locals[name]
            f = f.closure
        return None, None


# control-flow signals -----------------------------------------------------------------------

class ReturnEx(Exception):
    def __init__(self, value):
        self.value = value


class BreakEx(Exception):
    pass


class ContinueEx(Exception):
    pass


class RaiseEx(Exception):
    """A modelled Python exception propagating through the executed code."""

    def __init__(self, exc):
        self.exc = exc


class PathEnd(Exception):
    """Stop this path (loop-step end, assumption made the path infeasible, ...)."""

    def __init__(self, kind, info=None):
        self.kind = kind
        self.info = info


class OutOfSubset(Exception):
    def __init__(self, reason, node=None):
        super().__init__(reason)
        self.reason = reason
        self.node = node
