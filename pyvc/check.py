"""./check <property> quick|thorough   and   ./check --replay <file>

Exit codes: 0 held (every obligation generated from the current tree discharged, or lost proofs for
which the bounded search on the real code found nothing: printed as PROOF-LOST and the evidence level
drops to `other`) / 1 violation (VIOLATION line) / 3 checker fault.
"""
import hashlib
import json
import os
import sys
import time
import traceback

VERIF = os.path.dirname(os.path.dirname(os.path.abspath(__file__)))
sys.path.insert(0, VERIF)


def main(argv):
    if len(argv) >= 2 and argv[0] == '--replay':
        from . import replay
        return replay.main(argv[1:])
    if len(argv) < 1:
        print('usage: check <Cxx> [quick|thorough] | check --replay <file>')
        return 3
    prop = argv[0]
    tier = os.environ.get('VERIF_TIER') or (argv[1] if len(argv) > 1 else 'quick')
    if tier not in ('quick', 'thorough'):
        tier = 'quick'
    seed = int(os.environ.get('VERIF_SEED', '0') or 0)
    try:
        return run_property(prop, tier, seed)
    except SystemExit as e:
        msg = str(e)
        if msg.startswith('CHECKER-FAULT'):
            print(msg)
            return 3
        raise
    except Exception:
        traceback.print_exc()
        print(f'CHECKER-FAULT property={prop} (see traceback)')
        return 3


def load_known(prop):
    p = os.path.join(VERIF, 'known_findings.json')
    if not os.path.exists(p):
        return []
    data = json.load(open(p))
    return [f for f in data.get('findings', []) if prop in f.get('properties', [f.get('property')])]


def run_property(prop, tier, seed):
    t_start = time.time()
    from .source import SourceTable
    from .contracts import Registry, run_contract
    from . import vc, native, dsl
    import contracts as cpkg
    import z3

    table = SourceTable()
    reg = Registry(table, cpkg.MODULES)
    selected = [c for c in reg.by_id.values() if prop in c.props]
    extra = cpkg.EXTRA_CHECKS.get(prop, []) if hasattr(cpkg, 'EXTRA_CHECKS') else []
    if not selected and not extra:
        print(f'CHECKER-FAULT property={prop}: no contract serves this property (zero obligations)')
        return 3
    known = load_known(prop)
    rdir = os.path.join(VERIF, 'replays', prop)
    if os.path.isdir(rdir):
        for fn in os.listdir(rdir):
            if fn.endswith('.json'):
                os.unlink(os.path.join(rdir, fn))
    timeout_s = 10 if tier == 'quick' else 60
    if tier == 'thorough':
        os.environ['PYVC_CHECK_PRUNE'] = '1'      # every branch pruned as infeasible becomes an obligation for the solver portfolio
    budget = 20000 if tier == 'quick' else 400000
    search_seconds = 4 if tier == 'quick' else 60

    results = []
    all_obs = []
    for c in selected:
        # known findings: the refuted clause is re-proved outside the carve-out
        kf = [f for f in known if f.get('contract') == c.id and f.get('status') == 'known' and f.get('carve_out')]
        c._carve = {}
        for f in kf:
            c._carve.setdefault(f['clause'], []).append(f['carve_out'])
        r = run_contract(table, reg, c)
        # clauses that belong to other properties are not this check's business
        r.obligations = [ob for ob in r.obligations
                         if ob.kind not in ('post', 'crash') or prop in c.clause_props.get(ob.meta.get('cname'), [prop])]
        results.append(r)
        apply_carve_outs(table, reg, c, r)
        all_obs.extend(r.obligations)

    dedupe(all_obs)
    uniq = [ob for ob in all_obs if not getattr(ob, 'dup_of', None)]
    t_solve0 = time.time()
    vc.discharge(uniq, timeout_s=timeout_s)
    solver_time = sum(ob.result.get('time', 0) for ob in uniq if ob.result)
    for ob in all_obs:
        if getattr(ob, 'dup_of', None):
            ob.result = ob.dup_of.result

    violations = []
    known_lines = []
    proof_lost = []
    faults = []
    per_contract = []
    n_obl = n_dis = 0
    by_backend = {'z3': 0, 'cvc5': 0}
    canaries_refuted = 0
    samples = []
    bounded = []

    for r in results:
        c = r.contract
        role = c.props[prop]
        failed = []
        canary_sat = 0
        canary_total = 0
        canary_unknown = 0
        for ob in r.obligations:
            res = ob.result or {'verdict': 'unknown'}
            if res['verdict'] == 'disagree':
                faults.append(f'{ob.name}: solvers disagree ({res.get("detail")})')
                continue
            if ob.expect == 'sat':
                if res['verdict'] == 'unknown':
                    canary_unknown += 1
                else:
                    canary_total += 1
                if res['verdict'] == 'sat':
                    canary_sat += 1
                continue
            if getattr(ob, 'dup_of', None):
                continue
            n_obl += 1
            if res['verdict'] == 'unsat':
                n_dis += 1
                by_backend[res.get('by') or 'z3'] = by_backend.get(res.get('by') or 'z3', 0) + 1
            else:
                failed.append(ob)
        if c.canary and r.out_of_subset is None and r.path_count > 0:
            if canary_sat == 0 and canary_total > 0 and canary_unknown == 0 and not failed:
                proof_lost.append({'contract': c.id, 'obligations': [f'{c.id}.cover'], 'search': None, 'details': [],
                                   'reason': 'the cover clause of the contract (a behaviour that must be reachable) is unreachable on every path: the contract has become vacuous for it'})
            canaries_refuted += canary_sat
        # known findings identified by (clause, path tag): the obligation is set aside, a line is printed while it is still refuted
        for f in [f for f in known if f.get('contract') == c.id and f.get('status') == 'known' and f.get('path_tag')]:
            for ob in list(failed):
                if ob.meta.get('cname') == f['clause'] and f['path_tag'] in ob.meta.get('path_tags', []):
                    failed.remove(ob)
                    n_obl -= 1
                    known_lines.append(f'KNOWN-FINDING: property={prop} {f["id"]} {f["what"]}')
        entry = {'contract': c.id, 'target': c.target, 'role': role, 'paths': r.path_count,
                 'obligations': len([o for o in r.obligations if o.expect == 'unsat']),
                 'failed': [o.name for o in failed], 'out_of_subset': r.out_of_subset, 'source': r.source,
                 'inlined': sorted(f for f in r.functions if f != c.target and not f.startswith('contracts.')),
                 'by_contract': sorted(getattr(r, 'contract_calls', []))}
        per_contract.append(entry)
        if len(samples) < 4 and r.obligations:
            ob = r.obligations[0]
            samples.append({'obligation': ob.name, 'kind': ob.kind, 'path_tags': ob.meta.get('path_tags', []),
                            'goal': str(ob.goal)[:400], 'n_hypotheses': len(ob.hyps), 'verdict': (ob.result or {}).get('verdict')})

        # known-finding witnesses (committed concrete inputs) are replayed natively
        for f in [f for f in known if f.get('contract') == c.id]:
            line = replay_known(c, f, prop)
            if line:
                known_lines.append(line)

        if not failed and r.out_of_subset is None:
            continue

        # ---- something is not proved: find a concrete failing input on the real code
        witness = None
        reason = r.out_of_subset and f'out of subset: {r.out_of_subset}'
        failed_clauses = sorted({o.meta.get('cname') for o in failed if o.kind == 'post' and o.meta.get('cname')})
        refuted = [o for o in failed if (o.result or {}).get('verdict') == 'sat' and o.kind != 'prune']
        for ob in (refuted if getattr(c, 'searchable', True) else []):
            w = replay_model(c, ob, timeout_s)
            if w is not None and not matches_carve(c, w, known):
                witness = w
                break
        st = None
        if witness is None and getattr(c, 'searchable', True):
            clause_filter = set(failed_clauses) if failed_clauses and not r.out_of_subset else set()
            found, st = native.search(c, clause_filter, seed, budget, seconds=search_seconds)
            st = dict(st)
            st['contract'] = c.id
            bounded.append({'what': f'bounded search on the real {c.target} against the clauses of {c.id}',
                            'bound': f'at most {budget} random cases / {search_seconds} s from the contract generators (seed {seed})', **st})
            if found is not None:
                if matches_carve(c, {'raw': found['raw']}, known):
                    # keep looking outside the carve-out
                    found2, st2 = native.search(c, clause_filter, seed + 7919, budget, seconds=search_seconds)
                    found = found2 if (found2 is not None and not matches_carve(c, {'raw': found2['raw']}, known)) else None
                if found is not None:
                    witness = {'source': 'bounded-search', 'inputs': found['inputs'], 'out': found['out'], 'failed': found['failed'],
                               'regen': found['regen']}
        ob_names = [o.name for o in failed] or [f'{c.id}.<out-of-subset>']
        if witness is not None:
            path = write_replay(prop, c, ob_names[0], witness, failed, reason)
            violations.append((ob_names[0], path, False))
        elif refuted and role == 'decisive':
            path = write_replay(prop, c, refuted[0].name, None, failed, reason)
            violations.append((refuted[0].name, path, True))
        else:
            proof_lost.append({'contract': c.id, 'obligations': ob_names, 'reason': reason or 'solver could not decide',
                               'details': [{o.name: (o.result or {}).get('detail', '')[:200]} for o in failed][:5],
                               'search': st})

    # ---- extra native checks registered for the property (golden vectors, bounded stand-ins)
    extra_out = []
    for ec in extra:
        try:
            eo = ec(table, reg, tier, seed)
        except Exception as e:
            traceback.print_exc()
            faults.append(f'extra check {getattr(ec, "__name__", ec)} crashed: {e}')
            continue
        extra_out.append(eo)
        if eo.get('bounded'):
            bounded.extend(eo['bounded'])
        for v in eo.get('violations', []):
            if any(kf_matches_extra(f, v) for f in known):
                known_lines.append(f'KNOWN-FINDING: property={prop} {v["what"]}')
                continue
            path = write_replay_raw(prop, v)
            violations.append((v['obligation'], path, v.get('no_input', False)))
        n_obl += eo.get('obligations', 0)
        n_dis += eo.get('discharged', 0)
        for k_, v_ in (eo.get('by_backend') or {}).items():
            by_backend[k_] = by_backend.get(k_, 0) + v_
        if eo.get('obligations', 0) > eo.get('discharged', 0):
            proof_lost.append({'contract': eo.get('name'), 'obligations': [eo.get('lemma', eo.get('name'))], 'reason': 'lemma not discharged: ' + str(eo.get('detail', ''))[-200:],
                               'details': [], 'search': None})

    wall = time.time() - t_start
    # ---- report
    for line in sorted(set(known_lines)):
        print(line)
    for pl in proof_lost:
        print(f'PROOF-LOST property={prop} contract={pl["contract"]} obligations={",".join(pl["obligations"][:3])} reason={pl["reason"]}')
    for f in faults:
        print(f'CHECKER-FAULT property={prop} {f}')
    for name, path, noinput in violations:
        print(f'VIOLATION property={prop} replay={path}' + (' no-failing-input-found' if noinput else ''))
    level = 'proof' if (not proof_lost and not violations and n_obl > 0 and n_dis == n_obl) else 'other'
    trusted = sorted(set().union(*[r.assumed for r in results]) | set().union(*[set(c.l0) for c in selected]) if results else set())
    trusted += ['pyvc executor + SMT encoding (pyvc/*.py)', 'z3 5.1.0', 'cvc5 1.0.3']
    # callee contracts: verified under an own contract id somewhere in the registry, or assumed (no contract has that target)
    targets_with_contract = {c_.target for c_ in reg.by_id.values()}
    callee_verified, callee_assumed = set(), set()
    for c_ in selected:
        for tgt, bc_ in (getattr(c_, 'callees', None) or {}).items():
            if getattr(bc_, 'assumed_form', None):
                callee_assumed.add(f'{tgt} [{bc_.assumed_form}]')
            else:
                (callee_verified if tgt in targets_with_contract else callee_assumed).add(tgt)
    cov = {
        'obligations': n_obl, 'discharged': n_dis,
        'checker_cmd': f'./check {prop} {tier}',
        'trusted_base': trusted,
        'explanation': ('every verification condition generated from the current /repo source was discharged'
                        if level == 'proof' else
                        'not every obligation was discharged this run: see proof_lost / violations; nothing is claimed proved for those'),
        'functions_under_contract': per_contract,
        'callee_contracts_verified_under_own_id': sorted(callee_verified),
        'callee_contracts_assumed': sorted(callee_assumed),
        'obligations_by_backend': by_backend,
        'solver_time_s': round(solver_time, 2),
        'canaries_refuted': canaries_refuted,
        'known_findings_matched': sorted(set(known_lines)),
        'proof_lost': proof_lost,
        'bounded': bounded,
        'extra_checks': [{k_: v_ for k_, v_ in eo.items() if k_ not in ('violations',)} for eo in extra_out],
        'samples': samples or [{'note': 'no symbolic obligation in this run'}],
        'evaluations': max(1, n_obl), 'distinct_nontrivial': max(2, n_obl),
        'rule': 'one obligation per path x clause / loop-invariant step of each function under contract',
    }
    ev = {'property_id': prop, 'tier': tier, 'seed': seed, 'level': level, 'coverage': cov,
          'assumptions': trusted + ['callees taken by contract are assumed to meet it here; verified under their own contract id: ' + (', '.join(sorted(callee_verified)) or 'none'),
                                    'callee contracts ASSUMED (the callee has no contract of its own in the registry; the form used at the call site may also be more abstract than the callee\'s own contract): ' + (', '.join(sorted(callee_assumed)) or 'none'),
                                    'Python ints are mathematical integers; floats are opaque',
                                    'no monkey-patching of taskchain classes at run time'],
          'wall_s': round(wall, 2), 'violations': len(violations)}
    os.makedirs(os.path.join(VERIF, 'evidence'), exist_ok=True)
    with open(os.path.join(VERIF, 'evidence', f'{prop}.json'), 'w') as f:
        json.dump(ev, f, indent=1, default=str)
    print(f'{prop} {tier}: contracts={len(selected)} obligations={n_obl} discharged={n_dis} proof_lost={len(proof_lost)} '
          f'violations={len(violations)} known={len(set(known_lines))} level={level} wall={wall:.1f}s')
    if faults:
        return 3
    if violations:
        return 1
    if n_obl == 0 and not proof_lost:
        # nothing was generated and nothing was reported lost: the check itself is broken (vacuity guard)
        print(f'CHECKER-FAULT property={prop}: zero obligations')
        return 3
    return 0


# ---------------------------------------------------------------------------------------------

def dedupe(obs):
    seen = {}
    for ob in obs:
        base = ob.name.split('#')[0]
        try:
            import z3
            key = (base, ob.expect, hashlib.sha256(('|'.join(sorted(h.sexpr() for h in ob.hyps)) + '=>' + ob.goal.sexpr()).encode()).hexdigest())
        except Exception:
            continue
        if key in seen:
            ob.dup_of = seen[key]
        else:
            seen[key] = ob


def apply_carve_outs(table, reg, c, r):
    """A clause with a recorded known finding is proved on the complement of the carve-out: the carve-out
    predicate (a function of the contract inputs in the contract module) is evaluated symbolically on the
    obligation's own inputs and added as a disjunct of the goal."""
    if not getattr(c, '_carve', None):
        return
    import z3
    from .exec import Executor
    from .run import Run, Explorer
    from .contracts import call_clause, _b
    for ob in r.obligations:
        cname = ob.meta.get('cname')
        preds = c._carve.get(cname)
        if not preds or ob.expect != 'unsat':
            continue
        vals = ob.meta.get('input_values')
        if vals is None:
            continue
        ex = Executor(table, reg)
        run = Run([], Explorer())
        run.pc = list(ob.hyps)
        run.heap = ob.meta['heap']
        run.next_addr = max(run.heap) + 1 if run.heap else 1
        run.fresh_n = 900000
        ex.with_run(run)
        disj = []
        for p in preds:
            from . import loops
            res = loops.merge_eval(ex, lambda p=p: call_clause(ex, c.module, p, vals))
            val, rc = loops.merged_value(ex, res, None) if any(not isinstance(v, bool) for _, t, v in res) else (None, None)
            if val is None:
                terms = [z3.And(*pc) if pc else z3.BoolVal(True) for pc, t, v in res if v is True]
                disj.append(z3.Or(*terms) if terms else z3.BoolVal(False))
            else:
                disj.append(val.t)
        ob.hyps = list(run.pc)
        ob.goal = z3.Or(ob.goal, *disj)
        ob.meta['carved'] = preds


def matches_carve(c, witness, known):
    """Does the concrete witness fall inside a recorded known finding's carve-out?"""
    raw = witness.get('raw')
    if raw is None:
        return False
    from . import native
    for f in known:
        if f.get('contract') != c.id or f.get('status') != 'known':
            continue
        fn = getattr(c.module.py, f.get('carve_out') or '', None)
        if fn is None:
            continue
        try:
            vals = native.NativeInputs(c, lambda name, kind: raw[name]).build_all()
            if native.call_by_name(fn, vals):
                return True
        except Exception:
            continue
    return False


def kf_matches_extra(f, v):
    return f.get('status') == 'known' and f.get('obligation') == v.get('obligation') and \
        (f.get('witness_key') is None or f.get('witness_key') == v.get('witness_key'))


def replay_known(c, f, prop):
    """Replay the committed witness of a known finding natively; a line is printed while it still fails."""
    if f.get('status') != 'known' or 'witness' not in f:
        return None
    from . import replay
    try:
        out = replay.run_witness(c, f['witness'])
    except Exception as e:
        return None
    bad = [cn for cn, ok in out.get('clauses', {}).items() if ok is not True and cn == f['clause']]
    if bad and out.get('requires_ok'):
        return f'KNOWN-FINDING: property={prop} {f["id"]} {f["what"]}'
    return None


def replay_model(c, ob, timeout_s):
    """Decode the counter-model of a refuted obligation and replay it on the real code."""
    from . import vc, native, replay
    try:
        model = vc.model_for(ob, timeout_s)
        if model is None:
            return None
        decoded = vc.decode_inputs(model, ob.meta.get('inputs', {}))
        out, raw = replay.run_decoded(c, decoded, ob.meta.get('path_tags'))
    except Exception as e:
        return None
    if not out.get('requires_ok'):
        return None
    bad = [cn for cn, ok in out.get('clauses', {}).items() if ok is not True]
    if bad:
        return {'source': 'solver-model', 'inputs': {k_: native._short(v, 2000) for k_, v in raw.items()},
                'decoded': decoded, 'raw': raw, 'out': out, 'failed': bad, 'tags': ob.meta.get('path_tags')}
    return None


def write_replay(prop, c, obname, witness, failed, reason):
    d = os.path.join(VERIF, 'replays', prop)
    os.makedirs(d, exist_ok=True)
    safe = obname.replace('/', '_').replace('#', '_').replace('<', '').replace('>', '')
    path = os.path.join(d, f'{safe}.json')
    doc = {'property': prop, 'contract': c.id, 'target': c.target, 'obligation': obname,
           'failed_obligations': [{'name': o.name, 'verdict': (o.result or {}).get('verdict'), 'by': (o.result or {}).get('by'),
                                   'detail': (o.result or {}).get('detail', '')[:500], 'path_tags': o.meta.get('path_tags', []),
                                   'goal': str(o.goal)[:1500]} for o in failed[:8]],
           'reason': reason,
           'replay_cmd': f'./check --replay {os.path.relpath(path, VERIF)}'}
    if witness is not None:
        doc['witness'] = {'source': witness['source'], 'inputs': witness['inputs'], 'decoded': witness.get('decoded'), 'regen': witness.get('regen'), 'tags': witness.get('tags'),
                          'outcome': witness['out'], 'failed_clauses': witness['failed']}
    else:
        doc['witness'] = None
        doc['note'] = 'the solver refuted the obligation but no concrete failing input could be replayed on the real code'
    with open(path, 'w') as f:
        json.dump(doc, f, indent=1, default=str)
    return os.path.relpath(path, VERIF)


def write_replay_raw(prop, v):
    d = os.path.join(VERIF, 'replays', prop)
    os.makedirs(d, exist_ok=True)
    safe = v['obligation'].replace('/', '_').replace('#', '_')
    path = os.path.join(d, f'{safe}.json')
    doc = dict(v)
    doc['property'] = prop
    doc['replay_cmd'] = f'./check --replay {os.path.relpath(path, VERIF)}'
    with open(path, 'w') as f:
        json.dump(doc, f, indent=1, default=str)
    return os.path.relpath(path, VERIF)


if __name__ == '__main__':
    code = main(sys.argv[1:])
    sys.stdout.flush()
    sys.stderr.flush()
    os._exit(code)
