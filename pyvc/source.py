"""Mechanical extraction: parse /repo/src/taskchain on every run and build the function / class tables.

What is dropped from the verified text (complete list): docstrings, type annotations, comments.
Everything else of a function body is either interpreted by the executor or makes the function
"out of subset" (reported, never silently approximated).
"""
import ast
import hashlib
import os

REPO_SRC = os.environ.get('PYVC_REPO_SRC', '/repo/src')
PKG = 'taskchain'


class FunctionInfo:
    def __init__(self, module, qualname, node, cls=None, source=''):
        self.module = module          # ModuleInfo
        self.qualname = qualname      # e.g. 'ParameterRegistry.repr' or 'repr_from_instantiation'
        self.node = node              # ast.FunctionDef | ast.Lambda
        self.cls = cls                # ClassInfo or None
        self.source = source
        self.decorators = []
        if isinstance(node, (ast.FunctionDef, ast.AsyncFunctionDef)):
            for d in node.decorator_list:
                self.decorators.append(ast.unparse(d))

    @property
    def key(self):
        return f'{self.module.name}:{self.qualname}'

    @property
    def is_property(self):
        return any(d == 'property' or d.endswith('.getter') for d in self.decorators)

    @property
    def is_static(self):
        return 'staticmethod' in self.decorators

    @property
    def is_classmethod(self):
        return 'classmethod' in self.decorators

    @property
    def is_abstract(self):
        return any(d.endswith('abstractmethod') for d in self.decorators)

    @property
    def is_generator(self):
        for n in ast.walk(self.node):
            if isinstance(n, (ast.Yield, ast.YieldFrom)):
                # not inside a nested def
                return True
        return False

    def body_hash(self):
        """sha256 of the normalised body: docstrings and annotations removed, ast.dump without positions."""
        return hashlib.sha256(normalised_dump(self.node).encode()).hexdigest()[:16]

    def lines(self):
        return (self.node.lineno, getattr(self.node, 'end_lineno', self.node.lineno))

    def __repr__(self):
        return f'<fn {self.key}>'


class _Strip(ast.NodeTransformer):
    def visit_FunctionDef(self, node):
        self.generic_visit(node)
        node.returns = None
        for a in node.args.args + node.args.kwonlyargs + node.args.posonlyargs:
            a.annotation = None
        if node.args.vararg:
            node.args.vararg.annotation = None
        if node.args.kwarg:
            node.args.kwarg.annotation = None
        if node.body and isinstance(node.body[0], ast.Expr) and isinstance(node.body[0].value, ast.Constant) \
                and isinstance(node.body[0].value.value, str):
            node.body = node.body[1:] or [ast.Pass()]
        return node

    visit_AsyncFunctionDef = visit_FunctionDef

    def visit_AnnAssign(self, node):
        self.generic_visit(node)
        if node.value is None:
            return ast.Pass()
        return ast.Assign(targets=[node.target], value=node.value, lineno=node.lineno)


def normalised_dump(node):
    import copy
    n = _Strip().visit(copy.deepcopy(node))
    return ast.dump(n, include_attributes=False)


class ClassInfo:
    def __init__(self, module, name, node):
        self.module = module
        self.name = name
        self.node = node
        self.base_exprs = [ast.unparse(b) for b in node.bases]
        self.metaclass_expr = None
        for kw in node.keywords:
            if kw.arg == 'metaclass':
                self.metaclass_expr = ast.unparse(kw.value)
        self.methods = {}      # name -> FunctionInfo (last definition wins; setters ignored)
        self.attrs = {}        # name -> ast expr (class-level assignments)
        self.nested = {}       # name -> ClassInfo
        self._mro = None

    @property
    def key(self):
        return f'{self.module.name}:{self.name}'

    def bases(self):
        out = []
        for b in self.base_exprs:
            r = self.module.resolve_name(b)
            out.append(r)
        return out

    def mro(self):
        """C3 linearisation over the classes known to the table; external bases are ('ext', dotted name)."""
        if self._mro is None:
            seqs = []
            bases = self.bases()
            for b in bases:
                if isinstance(b, ClassInfo):
                    seqs.append(list(b.mro()))
                else:
                    seqs.append([b])
            seqs.append(list(bases))
            res = [self]
            seqs = [s for s in seqs if s]
            while seqs:
                for s in seqs:
                    cand = s[0]
                    if not any(cand in t[1:] for t in seqs):
                        break
                else:
                    raise TypeError(f'inconsistent MRO for {self.key}')
                res.append(cand)
                seqs = [[x for x in s if x != cand] for s in seqs]
                seqs = [s for s in seqs if s]
            self._mro = res
        return self._mro

    def metaclass(self):
        for c in self.mro():
            if isinstance(c, ClassInfo) and c.metaclass_expr:
                return c.module.resolve_name(c.metaclass_expr)
        return None

    def lookup(self, name):
        """Find `name` along the MRO: returns ('method', FunctionInfo) | ('attr', (ClassInfo, expr)) |
        ('nested', ClassInfo) | ('ext', basename) | None."""
        for c in self.mro():
            if isinstance(c, ClassInfo):
                if name in c.methods:
                    return ('method', c.methods[name])
                if name in c.attrs:
                    return ('attr', (c, c.attrs[name]))
                if name in c.nested:
                    return ('nested', c.nested[name])
        return None

    def is_subclass_of(self, other):
        """other: ClassInfo or ('ext', name) or dotted string."""
        for c in self.mro():
            if c is other or c == other:
                return True
            if isinstance(other, str):
                if isinstance(c, ClassInfo) and (c.key == other or c.name == other):
                    return True
                if isinstance(c, tuple) and c[1] == other:
                    return True
        return False

    def defines(self, name):
        return self.lookup(name) is not None

    def __repr__(self):
        return f'<class {self.key}>'


class ModuleInfo:
    def __init__(self, name, path, table):
        self.name = name              # e.g. 'taskchain.parameter'
        self.path = path
        self.table = table
        self.text = open(path).read()
        self.tree = ast.parse(self.text)
        self.functions = {}           # top-level functions
        self.classes = {}
        self.imports = {}             # local name -> ('module', dotted) | ('member', module dotted, member name)
        self.assigns = {}             # module-level name -> ast expr
        self._scan()

    def _scan(self):
        for node in self.tree.body:
            if isinstance(node, (ast.FunctionDef, ast.AsyncFunctionDef)):
                self.functions[node.name] = FunctionInfo(self, node.name, node, None,
                                                         ast.get_source_segment(self.text, node) or '')
            elif isinstance(node, ast.ClassDef):
                self.classes[node.name] = self._scan_class(node, node.name)
            elif isinstance(node, ast.Import):
                for a in node.names:
                    local = a.asname or a.name.split('.')[0]
                    target = a.name if a.asname else a.name.split('.')[0]
                    self.imports[local] = ('module', target)
            elif isinstance(node, ast.ImportFrom):
                mod = node.module or ''
                if node.level:
                    base = self.name.split('.')
                    # a module file: level 1 = its package
                    base = base[:len(base) - node.level]
                    mod = '.'.join(base + ([mod] if mod else []))
                for a in node.names:
                    self.imports[a.asname or a.name] = ('member', mod, a.name)
            elif isinstance(node, ast.Assign):
                for t in node.targets:
                    if isinstance(t, ast.Name):
                        self.assigns[t.id] = node.value

    def _scan_class(self, node, qual):
        ci = ClassInfo(self, qual, node)
        for st in node.body:
            if isinstance(st, (ast.FunctionDef, ast.AsyncFunctionDef)):
                decos = [ast.unparse(d) for d in st.decorator_list]
                if any(d.endswith('.setter') for d in decos):
                    continue
                ci.methods[st.name] = FunctionInfo(self, f'{qual}.{st.name}', st, ci,
                                                   ast.get_source_segment(self.text, st) or '')
            elif isinstance(st, ast.Assign):
                for t in st.targets:
                    if isinstance(t, ast.Name):
                        ci.attrs[t.id] = st.value
            elif isinstance(st, ast.AnnAssign) and st.value is not None and isinstance(st.target, ast.Name):
                ci.attrs[st.target.id] = st.value
            elif isinstance(st, ast.ClassDef):
                ci.nested[st.name] = self._scan_class(st, f'{qual}.{st.name}')
        return ci

    def resolve_name(self, dotted):
        """Resolve a (possibly dotted) name used in this module's scope to a ClassInfo / FunctionInfo /
        ModuleInfo / ('ext', dotted name)."""
        parts = dotted.split('.')
        head = parts[0]
        cur = None
        if head in self.classes:
            cur = self.classes[head]
        elif head in self.functions:
            cur = self.functions[head]
        elif head in self.imports:
            imp = self.imports[head]
            if imp[0] == 'module':
                cur = self.table.module_or_ext(imp[1])
            else:
                m = self.table.module_or_ext(imp[1])
                if isinstance(m, ModuleInfo):
                    cur = m.resolve_name(imp[2]) if (imp[2] in m.classes or imp[2] in m.functions or imp[2] in m.imports
                                                     or imp[2] in m.assigns) else self.table.module_or_ext(f'{imp[1]}.{imp[2]}')
                else:
                    cur = ('ext', f'{imp[1]}.{imp[2]}')
        elif head in self.assigns:
            cur = ('assign', self, head)
        else:
            cur = ('ext', f'builtins.{head}')
        for p in parts[1:]:
            if isinstance(cur, ModuleInfo):
                cur = cur.resolve_name(p)
            elif isinstance(cur, ClassInfo):
                r = cur.lookup(p)
                if r is None:
                    return ('ext', dotted)
                cur = r[1] if r[0] in ('method', 'nested') else ('classattr', cur, p)
            elif isinstance(cur, tuple) and cur[0] == 'ext':
                cur = ('ext', cur[1] + '.' + p)
            else:
                return ('ext', dotted)
        return cur


class SourceTable:
    def __init__(self, root=None):
        self.root = root or REPO_SRC
        self.modules = {}
        pkgdir = os.path.join(self.root, PKG)
        for dirpath, _, files in os.walk(pkgdir):
            for f in sorted(files):
                if not f.endswith('.py'):
                    continue
                p = os.path.join(dirpath, f)
                rel = os.path.relpath(p, self.root)[:-3].replace(os.sep, '.')
                if rel.endswith('.__init__'):
                    rel = rel[:-9]
                try:
                    self.modules[rel] = ModuleInfo(rel, p, self)
                except SyntaxError as e:
                    raise SystemExit(f'CHECKER-FAULT: cannot parse {p}: {e}')

    def module_or_ext(self, dotted):
        if dotted in self.modules:
            return self.modules[dotted]
        return ('ext', dotted)

    def function(self, key):
        """key 'taskchain.parameter:ParameterRegistry.repr' or with nested '<inner>' path:
        'taskchain.task:_find_task_full_name.<_task_name_match>'."""
        mod, qual = key.split(':')
        m = self.modules[mod]
        parts = qual.split('.')
        cur = None
        i = 0
        if parts[0] in m.classes:
            cur = m.classes[parts[0]]
            i = 1
            while i < len(parts) and isinstance(cur, ClassInfo):
                p = parts[i]
                if p in cur.nested:
                    cur = cur.nested[p]
                elif p in cur.methods:
                    cur = cur.methods[p]
                else:
                    raise KeyError(key)
                i += 1
        elif parts[0] in m.functions:
            cur = m.functions[parts[0]]
            i = 1
        else:
            raise KeyError(key)
        while i < len(parts):
            p = parts[i].strip('<>')
            found = None
            for n in ast.walk(cur.node):
                if isinstance(n, (ast.FunctionDef, ast.AsyncFunctionDef)) and n.name == p and n is not cur.node:
                    found = n
                    break
            if found is None:
                raise KeyError(key)
            cur = FunctionInfo(m, '.'.join(parts[:i + 1]), found, cur.cls, ast.get_source_segment(m.text, found) or '')
            i += 1
        return cur

    def cls(self, key):
        mod, name = key.split(':')
        m = self.modules[mod]
        parts = name.split('.')
        c = m.classes[parts[0]]
        for p in parts[1:]:
            c = c.nested[p]
        return c

    def all_classes(self):
        for m in self.modules.values():
            for c in m.classes.values():
                yield c

    def subclasses_of(self, ci):
        return [c for c in self.all_classes() if c is not ci and c.is_subclass_of(ci)]
