"""Engine side of the contract language: loading contract modules, building symbolic inputs from
shapes, executing a target against its contract (-> obligations), callee contracts, loop contracts."""
import ast
import importlib
import os
import sys
import copy
import z3
from . import kinds as K
from .kinds import Sym
from .values import *
from . import pyops as P
from . import dsl
from .source import ModuleInfo, FunctionInfo, SourceTable
from .run import Explorer, Obligation

VERIF = os.path.dirname(os.path.dirname(os.path.abspath(__file__)))


class ContractModule:
    def __init__(self, name, table):
        self.name = name                                   # e.g. 'contracts.keys'
        path = os.path.join(VERIF, *name.split('.')) + '.py'
        self.py = importlib.import_module(name)            # native module (spec functions run natively in replays)
        self.mi = ModuleInfo(name, path, table)            # its AST (spec functions run symbolically)
        self.contracts = list(getattr(self.py, 'CONTRACTS', []))
        for c in self.contracts:
            c.module = self

    def fn(self, fname):
        if fname not in self.mi.functions:
            raise KeyError(f'{self.name}: no function {fname}')
        return self.mi.functions[fname]


class Registry:
    def __init__(self, table, module_names):
        self.table = table
        if VERIF not in sys.path:
            sys.path.insert(0, VERIF)
        self.modules = {}
        self.by_id = {}
        for mn in module_names:
            cm = ContractModule(mn, table)
            table.modules[mn] = cm.mi
            self.modules[mn] = cm
            for c in cm.contracts:
                if c.id in self.by_id:
                    raise SystemExit(f'CHECKER-FAULT: duplicate contract id {c.id}')
                self.by_id[c.id] = c
        self.current = None
        self.ifaces = {}
        for cm in self.modules.values():
            for k_, v_ in vars(cm.py).items():
                if isinstance(v_, dsl.Iface):
                    self.ifaces[v_.name] = v_

    # -- hooks used by the executor -------------------------------------------------------
    def callee(self, key, target):
        c = self.current
        if c is None:
            return None
        spec = c.callees.get(key)
        if spec is None or isinstance(spec, dsl.Inline):
            return None
        return CalleeApply(self, c, key, spec)

    def loop_spec(self, fkey, ordinal, target):
        c = self.current
        if c is None:
            return None
        lp = c.loops.get((fkey, ordinal)) or (c.loops.get(ordinal) if fkey == c.target else None)
        if lp is None:
            return None
        return LoopRun(self, c, lp)

    def module_const(self, modname, name):
        c = self.current
        if c is None:
            return None
        ov = getattr(c, 'module_consts', None)
        if ov and (modname, name) in ov:
            return ov[(modname, name)]
        return None

    def constructor(self, clskey, target):
        c = self.current
        ov = getattr(c, 'constructors', None) if c else None
        if ov and clskey in ov:
            return ov[clskey]
        return None

    def sym_issubclass(self, ex, c, t):
        return None

    def recursive_spec(self, key):
        mod = key.split(':')[0]
        cm = self.modules.get(mod)
        if cm is None:
            return None
        return getattr(cm.py, 'RECURSIVE', {}).get(key.split(':')[1])


# =============================================================================================
# building inputs from shapes
# =============================================================================================

class InputBuilder:
    def __init__(self, ex, registry):
        self.ex = ex
        self.reg = registry
        self.values = {}
        self.n = 0

    def build(self, name, shape):
        v = self._build(shape, name)
        self.values[name] = v
        return v

    def _nm(self, given, path):
        return given or path

    def _build(self, sh, path):
        ex = self.ex
        run = ex.run
        if isinstance(sh, K.Kind):
            sh = dsl.S(sh)
        if isinstance(sh, dsl.S):
            return run.input(sh.kind, self._nm(sh.name, path))
        if isinstance(sh, dsl.Const):
            return sh.value
        if isinstance(sh, dsl.Cls):
            return ClassVal(ex.table.cls(sh.cls))
        if isinstance(sh, dsl.Obj):
            ci = ex.table.cls(sh.cls)
            ref = P.new_object(ex, ci)
            cell = run.cell(ref)
            for f, fs in sh.fields.items():
                if f == '__payload__':
                    cell.payload = self._build(fs, f'{path}.payload')
                elif f == '__basedict__':
                    cell.ghost['basedict'] = self._build(fs, f'{path}.basedict')
                else:
                    cell.fields[f] = self._build(fs, f'{path}.{f}')
            cell.ghost['input'] = path
            return ref
        if isinstance(sh, dsl.Abs):
            iface = sh.iface if isinstance(sh.iface, dsl.Iface) else self.reg.ifaces[sh.iface]
            nm = self._nm(sh.name, path)
            ao = AbstractObj(IfaceRT(iface, self.reg), nm)
            for f, fs in sh.fields.items():
                ao.fields[f] = self._build(fs, f'{path}.{f}')
            # attributes are created eagerly so that every path / merged sub-evaluation sees the same symbols
            for pn, p in iface.props.items():
                if pn in ao.fields or p.fn is not None or p.const is not None:
                    continue
                if isinstance(p.kind, dsl.Shape):
                    ao.fields[pn] = self._build(p.kind, f'{nm}.{pn}')
                elif isinstance(p.kind, K.Kind):
                    ao.fields[pn] = run.input(p.kind, f'{nm}.{pn}')
            return run.alloc(ao)
        if isinstance(sh, dsl.Fn):
            return P.AbstractFn(sh.name, sh.arg_kinds, sh.ret_kind, sh.may_raise, sh.functional)
        if isinstance(sh, dsl.ListOf):
            return run.alloc(HList(items=[self._build(s, f'{path}[{i}]') for i, s in enumerate(sh.items)]))
        if isinstance(sh, dsl.DictOf):
            return run.alloc(HDict(items={k_: self._build(s, f'{path}[{k_!r}]') for k_, s in sh.items.items()}))
        if isinstance(sh, dsl.SymList):
            return run.alloc(HList(sym=run.input(K.Seq(sh.elem), self._nm(sh.name, path))))
        if isinstance(sh, dsl.SymDict):
            m = run.input(K.Map(sh.key, sh.val), self._nm(sh.name, path))
            from . import loops
            loops.wf_map(ex, m)
            return run.alloc(HDict(sym=m))
        if isinstance(sh, dsl.Same):
            return self.values[sh.other]
        if isinstance(sh, tuple):
            return tuple(self._build(s, f'{path}[{i}]') for i, s in enumerate(sh))
        if sh is None or isinstance(sh, (bool, int, str)):
            return sh
        raise SystemExit(f'CHECKER-FAULT: unknown shape {sh!r}')


class IfaceRT:
    """Run-time view of a dsl.Iface."""

    def __init__(self, iface, reg):
        self.d = iface
        self.name = iface.name
        self.reg = reg
        self.props = {n: PropRT(p) for n, p in iface.props.items()}
        self.methods = {n: MethRT(m, n) for n, m in iface.methods.items()}
        self.truthy = iface.truthy
        self.hasattr = iface.hasattr
        self.type_of = iface.type_of

    def isinstance(self, ex, ref, t):
        ci = t.ci
        key = ci.key if hasattr(ci, 'key') else ci[1]
        if self.d.isinstance is not None:
            return self.d.isinstance(ex, ref, key)
        for c in self.d.classes:
            if c == key:
                return True
            if ':' in c and hasattr(ci, 'key'):
                if ex.table.cls(c).is_subclass_of(ci):
                    return True
            if ':' in c and isinstance(ci, tuple):
                if ex.table.cls(c).is_subclass_of(ci):
                    return True
        if isinstance(ci, tuple) and ci[1] == 'builtins.object':
            return True
        return False

    def issubclass(self, ex, ref, t):
        return self.isinstance(ex, ref, t)


class PropRT:
    def __init__(self, p):
        self.p = p
        self.settable = p.settable

    def read(self, ex, ref, cell, name):
        p = self.p
        if p.const is not None:
            return p.const
        if p.fn is not None:
            return p.fn(ex, ref)
        if isinstance(p.kind, dsl.Shape):
            v = InputBuilder(ex, ex.contracts)._build(p.kind, f'{cell.name}.{name}')
            cell.fields[name] = v
            return v
        v = ex.run.fresh(p.kind, f'{cell.name}.{name}')
        ex.run.inputs[f'{cell.name}.{name}'] = (p.kind, v.t)
        cell.fields[name] = v
        return v


class MethRT:
    def __init__(self, m, name):
        self.m = m
        self.name = name

    def invoke(self, ex, ref, cell, name, args, kwargs):
        m = self.m
        run = ex.run
        if kwargs:
            args = list(args) + list(kwargs.values())
        evname = f'{cell.name}.{name}'
        if m.field is not None:
            if m.field in cell.fields:
                return cell.fields[m.field]
            return P.getattr_(ex, ref, m.field)
        if m.pre is not None:
            m.pre(ex, ref, args)
        raises = m.raises
        if raises:
            labels = ['ret'] + (list(raises) if isinstance(raises, (list, tuple)) else ['raise'])
            c = run.choose(len(labels), tag=evname, labels=labels)
            if c > 0:
                cls = labels[c] if isinstance(raises, (list, tuple)) else 'Opaque'
                if m.event:
                    run.trace.append(Event(name, cell.name, args, 'raise'))
                run.snapshot(f'after:{evname}!raise')
                raise RaiseEx(ExcVal(cls, origin=evname, payload=run.fresh(K.U('Exc'), 'exc')))
        ret = None
        if callable(m.ret) and not isinstance(m.ret, K.Kind):
            ret = m.ret(ex, ref, args)
        elif m.ret is not None:
            if m.pure:
                epoch = cell.ghost.get('epoch', 0)
                key = ('pure', cell.name, name, epoch, tuple(str(a.t) if isinstance(a, Sym) else repr(a) for a in args))
                memo = run.ghost.setdefault('_pure', {})
                if key not in memo:
                    memo[key] = run.fresh(m.ret, f'{evname}')
                    run.inputs[f'{evname}#{len(memo)}'] = (m.ret, memo[key].t)
                ret = memo[key]
            else:
                ret = run.fresh(m.ret, f'{evname}')
                n = sum(1 for e in run.trace if e.name == name and e.recv == cell.name)
                run.inputs[f'{evname}#{n}'] = (m.ret, ret.t)
        if m.event:
            run.trace.append(Event(name, cell.name, args, 'ret', ret))
        if m.effect is not None:
            m.effect(ex, ref, args, ret)
        if not m.pure:
            cell.ghost['epoch'] = cell.ghost.get('epoch', 0) + 1
        run.snapshot(f'after:{evname}')
        return ret


# =============================================================================================
# callee by contract
# =============================================================================================

class CalleeApply:
    def __init__(self, reg, contract, key, spec):
        self.reg = reg
        self.contract = contract
        self.key = key
        self.spec = spec

    def apply(self, ex, fv, args, kwargs):
        sp = self.spec
        run = ex.run
        loc = ex.bind_args(fv, args, kwargs)
        names = [a.arg for a in fv.fi.node.args.posonlyargs + fv.fi.node.args.args] + \
                [a.arg for a in fv.fi.node.args.kwonlyargs]
        argv = [loc[n] for n in names if n in loc]
        cm = self.contract.module
        evname = sp.event or self.key.split(':')[1]
        if sp.pre:
            ok = call_clause(ex, cm, sp.pre, dict(zip(names, argv)))
            run.oblige(f'{self.contract.id}.pre[{evname}]', 'pre', P.lift(ex, ok, K.Bool) if not isinstance(ok, bool) else ok)
        if sp.raises:
            labels = ['ret'] + list(sp.raises)
            c = run.choose(len(labels), tag=evname, labels=labels)
            if c > 0:
                run.trace.append(Event(evname, None, argv, 'raise'))
                if getattr(sp, 'raise_post', None):
                    d_ = dict(zip(names, argv))
                    d_['raised'] = labels[c]
                    ok_ = call_clause(ex, cm, sp.raise_post, d_)
                    run.assume(P.lift(ex, ok_, K.Bool) if not isinstance(ok_, bool) else ok_)
                raise RaiseEx(ExcVal(labels[c], origin=evname, payload=run.fresh(K.U('Exc'), 'exc')))
        if sp.spec:
            res = ex.call_func(ex.module_function(cm.fn(sp.spec)), argv, {}, force_inline=True)
        elif sp.ret is not None:
            res = run.fresh(sp.ret, f'ret_{evname}')
            n = sum(1 for e in run.trace if e.name == evname)
            run.inputs[f'{evname}#{n}'] = (sp.ret, res.t)
        else:
            res = None
        if sp.event is not None or not sp.pure:
            run.trace.append(Event(evname, None, argv, 'ret', res))
        if sp.post:
            d = dict(zip(names, argv))
            d['result'] = res
            ok = call_clause(ex, cm, sp.post, d)
            run.assume(P.lift(ex, ok, K.Bool) if not isinstance(ok, bool) else ok)
        return res


def call_clause(ex, cm, fname, available, partial=False):
    """Call a clause / spec function of the contract module symbolically, passing parameters by name."""
    fi = cm.fn(fname)
    fv = ex.module_function(fi)
    a = fi.node.args
    names = [x.arg for x in a.posonlyargs + a.args]
    args = []
    for n in names:
        if n not in available:
            if partial:
                raise OutOfSubset(f'the loop contract {fname} refers to the local {n!r}, which the code no longer has')
            raise SystemExit(f'CHECKER-FAULT: clause {cm.name}.{fname} wants parameter {n!r}; available: {sorted(available)}')
        args.append(available[n])
    saved = ex.contracts.current
    try:
        if getattr(ex.run, 'in_merge', False):
            return ex.call_func(fv, args, {}, force_inline=True)
        # a clause is a pure boolean function: all its paths are merged into one formula (no forking of the
        # verified function's path); a path on which the clause itself raises makes it false
        from . import loops
        res = loops.merge_eval(ex, lambda: ex.call_func(fv, args, {}, force_inline=True), allow_events=True)
        rets = [(pc, v) for pc, tag, v in res if tag == 'ret']
        raises = [pc for pc, tag, v in res if tag == 'raise']
        if not rets:
            return False
        term = None
        for pc, v in reversed(rets):
            t = v.t if isinstance(v, Sym) else z3.BoolVal(bool(v))
            if isinstance(v, Sym) and v.kind != K.Bool:
                raise SystemExit(f'CHECKER-FAULT: clause {cm.name}.{fname} returned non-boolean {v!r}')
            cond = z3.And(*pc) if pc else z3.BoolVal(True)
            term = t if term is None else z3.If(cond, t, term)
        if raises:
            rc = z3.Or(*[z3.And(*pc) if pc else z3.BoolVal(True) for pc in raises])
            term = z3.And(z3.Not(rc), term)
        term = z3.simplify(term)
        if z3.is_true(term):
            return True
        if z3.is_false(term):
            return False
        return Sym(K.Bool, term)
    finally:
        ex.contracts.current = saved


# =============================================================================================
# loop contracts
# =============================================================================================

class LoopRun:
    def __init__(self, reg, contract, lp):
        self.reg = reg
        self.contract = contract
        self.lp = lp

    def env(self, ex, fr, k, xs, extra=None):
        env = {}
        f = fr
        chain = []
        while f is not None:
            chain.append(f)
            f = f.closure
        for f in reversed(chain):
            env.update(f.locals)
        env['k'] = k
        env['xs'] = xs
        if extra and 'done' in extra:
            env['done'] = extra['done']
        elif isinstance(k, int) and k == 0:
            env['done'] = Sym(xs.kind, z3.Empty(xs.kind.sort()))
        else:
            env['done'] = Sym(xs.kind, z3.SubSeq(xs.t, 0, k.t if isinstance(k, Sym) else z3.IntVal(k)))
        env.update(self.inputs_env)
        env.update(getattr(self, 'extra_env', {}))
        if 'fs' in ex.run.ghost:
            env['fs'] = ex.run.ghost['fs']
            env['fs0'] = ex.run.ghost['fs0']
        if extra:
            env.update(extra)
        return env

    def inv(self, ex, fr, k, xs, extra=None):
        cm = self.contract.module
        res = call_clause(ex, cm, self.lp.invariant, self.env(ex, fr, k, xs, extra), partial=True)
        return res

    def run(self, ex, st, fr, xs, ordinal):
        run = ex.run
        lp = self.lp
        cid = self.contract.id
        self.inputs_env = dict(run.ghost.get('_input_values', {}))
        self.inputs_env.update(run.ghost.get('_olds', {}))
        self.extra_env = {}
        if lp.fs:
            from . import fsmodel
            self.extra_env['fs_loop0'] = fsmodel.fs_of(ex).clone()
        n = z3.Length(xs.t)
        # declared cells get their declared kind (an empty python list has no element kind of its own)
        for name, kind in lp.cells.items():
            fo, ref = fr.lookup(name)
            if fo is not None and isinstance(ref, Ref):
                cell = run.cell(ref)
                if isinstance(cell, HList) and cell.items is not None:
                    cell.sym = Sym(kind, P.seq_of(ex, [P.lift(ex, x, kind.elem) for x in cell.items], kind))
                    cell.items = None
                elif isinstance(cell, HDict) and cell.items is not None:
                    cell.sym = P.dict_to_map(ex, cell, kind)
                    cell.items = None
                elif isinstance(cell, HSet) and cell.items is not None and isinstance(kind, K.SetOf):
                    t_ = z3.K(kind.elem.sort(), z3.BoolVal(False))
                    for it_ in cell.items:
                        t_ = z3.Store(t_, P.lift(ex, it_, kind.elem), z3.BoolVal(True))
                    cell.sym = Sym(kind, t_)
                    cell.items = None
        for path, kind in lp.attrs.items():
            base, attr = path.rsplit('.', 1)
            fo, ref = fr.lookup(base)
            if fo is not None and isinstance(ref, Ref):
                val = run.cell(ref).fields.get(attr)
                if isinstance(val, Ref):
                    c2 = run.cell(val)
                    if isinstance(c2, HDict) and c2.items is not None and isinstance(kind, K.Map):
                        c2.sym = P.dict_to_map(ex, c2, kind)
                        c2.items = None
                    elif isinstance(c2, HList) and c2.items is not None and isinstance(kind, K.Seq):
                        c2.sym = Sym(kind, P.seq_of(ex, [P.lift(ex, x, kind.elem) for x in c2.items], kind))
                        c2.items = None
        # the value of every mutated cell at loop entry is available to the clauses as entry_<name>
        for name, kind in lp.cells.items():
            fo, ref = fr.lookup(name)
            if fo is not None and isinstance(ref, Ref):
                cell = run.cell(ref)
                if getattr(cell, 'sym', None) is not None and getattr(cell, 'items', None) is None:
                    self.extra_env[f'entry_{name}'] = cell.sym
        # 1. invariant holds on entry
        init = self.inv(ex, fr, 0, xs)
        run.oblige(f'{cid}.loop{ordinal}.inv.init', 'inv.init', _b(ex, init))
        # 2. havoc everything the body modifies
        for name, kind in lp.vars.items():
            fr.locals[name] = run.fresh(kind, f'L{ordinal}_{name}')
        for name, kind in lp.cells.items():
            fo, ref = fr.lookup(name)
            if fo is None or not isinstance(ref, Ref):
                raise OutOfSubset(f'loop contract: cell {name} is not a mutable local')
            cell = run.cell(ref)
            s = run.fresh(kind, f'L{ordinal}_{name}')
            if isinstance(cell, HList):
                cell.items, cell.sym = None, s
            elif isinstance(cell, HDict):
                cell.items, cell.sym = None, s
                from . import loops
                loops.wf_map(ex, s)
            elif isinstance(cell, HSet):
                cell.items, cell.sym = None, s
            else:
                raise OutOfSubset(f'loop contract: cell {name}')
            cell.ghost.pop('frozen', None)
        for path, kind in lp.attrs.items():
            # 'self._data' style: attribute of an object held in a local
            base, attr = path.rsplit('.', 1)
            fo, ref = fr.lookup(base)
            obj = run.cell(ref)
            val = obj.fields[attr]
            s = run.fresh(kind, f'L{ordinal}_{attr}')
            if isinstance(val, Ref):
                c2 = run.cell(val)
                c2.items, c2.sym = None, s
                if isinstance(c2, HDict):
                    from . import loops
                    loops.wf_map(ex, s)
            else:
                obj.fields[attr] = s
        if lp.fs:
            from . import fsmodel
            g = fsmodel.fs_of(ex)
            self.extra_env['fs_loop0'] = g.clone()
            S_ = z3.StringSort()
            g.kind = z3.Array(f'L{ordinal}_fs_kind', S_, z3.IntSort())
            g.content = z3.Array(f'L{ordinal}_fs_content', S_, z3.IntSort())
            g.complete = z3.Array(f'L{ordinal}_fs_complete', S_, z3.BoolSort())
            self.extra_env['fs_iter0'] = g.clone()      # the file system at the start of the arbitrary iteration
        k = run.fresh(K.Int, f'L{ordinal}_k')
        run.assume(z3.And(k.t >= 0, k.t <= n))
        hyp = self.inv(ex, fr, k, xs)
        run.assume(_b(ex, hyp))
        # 3. arbitrary iteration / exit
        if run.decide(k.t < n, tag=f'loop{ordinal}'):
            item = Sym(xs.kind.elem, xs.t[k.t])
            # the element visited is a member of the sequence
            run.axiom(z3.Implies(z3.And(k.t >= 0, k.t < n), z3.Contains(xs.t, z3.Unit(xs.t[k.t]))))
            mi = run.ghost.get('_items', {}).get(xs.t.sexpr())
            if mi is not None:
                mk_, mt_, tk_ = mi          # the k-th item of m.items() is (keys[k], m[keys[k]]); keys[k] is present
                keys_ = mk_.keys(mt_)
                sel_ = z3.Select(mk_.arr(mt_), keys_[k.t])
                run.axiom(z3.Implies(z3.And(k.t >= 0, k.t < n),
                                     z3.And(xs.t[k.t] == tk_.mk(keys_[k.t], mk_.optv.val(sel_)), z3.Not(mk_.optv.is_none(sel_)),
                                            z3.Contains(keys_, z3.Unit(keys_[k.t])))))
            en = run.ghost.get('_enum', {}).get(xs.t.sexpr())
            if en is not None:
                tk_, st_, base_ = en        # the k-th element of enumerate(base, start) is (k + start, base[k])
                run.axiom(z3.Implies(z3.And(k.t >= 0, k.t < n), xs.t[k.t] == tk_.mk(k.t + st_, base_[k.t])))
            trace_mark = len(run.trace)
            ex.assign(st.target, item, fr)
            try:
                ex.exec_block(st.body, fr)
            except ContinueEx:
                pass
            except BreakEx:
                # leaves the loop from an arbitrary iteration: continue after the loop (no else branch)
                return
            k1 = Sym(K.Int, k.t + 1)
            # done' = done ++ [xs[k]]  (equal to xs[:k+1] since 0 <= k < len(xs); kept in snoc form so that
            # the combinators of the invariant unfold once)
            done1 = Sym(xs.kind, z3.Concat(z3.SubSeq(xs.t, 0, k.t), z3.Unit(xs.t[k.t])))
            step = self.inv(ex, fr, k1, xs, {'done': done1})
            run.oblige(f'{cid}.loop{ordinal}.inv.step', 'inv.step', _b(ex, step))
            for sname, sfn in lp.step.items():
                env = self.env(ex, fr, k, xs, {'trace': TraceView(run.trace[trace_mark:]), 'item': item})
                r = call_clause(ex, self.contract.module, sfn, env, partial=True)
                run.oblige(f'{cid}.loop{ordinal}.step.{sname}', 'post', _b(ex, r), {'cname': sname, 'clause': sfn})
            raise PathEnd('loop-step')
        # exit: k == n, so done == xs[:n] == xs: the invariant is restated over xs itself (same statement)
        full = self.inv(ex, fr, Sym(K.Int, n), xs, {'done': xs})
        run.assume(_b(ex, full))
        ex.exec_block(st.orelse, fr)


def _b(ex, v):
    if isinstance(v, bool):
        return z3.BoolVal(v)
    if isinstance(v, Sym) and v.kind == K.Bool:
        return v.t
    raise SystemExit(f'CHECKER-FAULT: clause returned non-boolean {v!r}')


# =============================================================================================
# executing a contract: paths -> obligations
# =============================================================================================

class ContractResult:
    def __init__(self, contract):
        self.contract = contract
        self.obligations = []
        self.paths = []
        self.out_of_subset = None
        self.functions = set()
        self.assumed = set()
        self.path_count = 0
        self.source = {}


def snapshot_heap(ex, values):
    """Deep-copy the heap cells reachable from the inputs (entry snapshot for `old_<name>` parameters)."""
    run = ex.run
    mapping = {}

    def cp(v):
        if isinstance(v, Ref):
            if v.addr in mapping:
                return mapping[v.addr]
            cell = run.cell(v)
            nc = cell.copy()
            nr = run.alloc(nc)
            mapping[v.addr] = nr
            if isinstance(nc, (HObj, AbstractObj)):
                nc.fields = {f: cp(x) for f, x in nc.fields.items()}
                if isinstance(nc, HObj) and 'basedict' in nc.ghost:
                    nc.ghost['basedict'] = cp(nc.ghost['basedict'])
            elif isinstance(nc, HList) and nc.items is not None:
                nc.items = [cp(x) for x in nc.items]
            elif isinstance(nc, HDict) and nc.items is not None:
                nc.items = {k_: cp(x) for k_, x in nc.items.items()}
            return nr
        if isinstance(v, tuple):
            return tuple(cp(x) for x in v)
        return v
    return {n: cp(v) for n, v in values.items()}


def run_contract(table, registry, contract, feas_timeout_ms=2000, max_paths=400):
    """Symbolically execute the target against its contract; returns ContractResult with obligations."""
    from .exec import Executor
    res = ContractResult(contract)
    ex = Executor(table, registry)
    ex.current_target = contract.target
    try:
        fi = table.function(contract.target)
    except KeyError:
        res.out_of_subset = f'target {contract.target} not found in /repo (removed or renamed)'
        return res
    res.source = {'file': os.path.relpath(fi.module.path, '/'), 'qualname': fi.qualname, 'lines': fi.lines(),
                  'body_sha256': fi.body_hash()}
    cm = contract.module
    explorer = Explorer(getattr(contract, 'feas_ms', None) or feas_timeout_ms, max_paths)
    finals = []

    def entry(run):
        registry.current = contract
        ex.with_run(run)
        ib = InputBuilder(ex, registry)
        vals = {}
        for name, shape in contract.inputs.items():
            vals[name] = ib.build(name, shape)
        run.ghost['_input_values'] = vals
        if contract.crash_invariant or getattr(contract, 'uses_fs', False) or contract.fs_faults:
            from . import fsmodel
            fsmodel.fs_of(ex)
            if contract.fs_faults:
                run.ghost['fs_faults'] = True
        for ax in contract.assume:
            r = call_clause(ex, cm, ax, vals)
            run.assume(_b(ex, r))
        for rq in contract.requires:
            rv = dict(vals)
            if 'fs' in run.ghost:
                rv['fs'] = run.ghost['fs']
                rv['fs0'] = run.ghost['fs0']
            r = call_clause(ex, cm, rq, rv)
            run.assume(_b(ex, r))
        olds = {f'old_{n}': v for n, v in snapshot_heap(ex, vals).items()}
        run.ghost['_olds'] = olds
        run.ghost['_precondition_len'] = len(run.pc)
        # call the target
        fv = ex.func_of(fi)
        call_names = contract.call if contract.call is not None else list(contract.inputs.keys())
        args = [vals[n] for n in call_names]
        kwargs = {p: vals[n] for p, n in contract.kwargs.items()}
        if contract.star:
            from . import loops
            args.append(P.StarPack(loops.as_seq(ex, vals[contract.star])))
        if contract.starstar:
            from . import loops
            kwargs['**'] = loops.map_of(ex, vals[contract.starstar])
        if contract.closure_vars:
            cl = Frame(None, fi.module)
            for vn, inp in contract.closure_vars.items():
                if isinstance(inp, str) and inp.startswith('@'):
                    # a sibling nested function of the enclosing function, closed over the same variables
                    try:
                        sib = table.function(contract.target.rsplit('.', 1)[0] + '.<' + inp[1:] + '>')
                    except KeyError:
                        raise OutOfSubset(f'the nested function {inp[1:]} the contract refers to no longer exists')
                    cl.locals[vn] = FuncVal(sib, cl)
                else:
                    cl.locals[vn] = vals[inp]
            fv = FuncVal(fv.fi, cl, fv.defaults, fv.kwdefaults)
        outcome = {'kind': None}
        try:
            if getattr(contract, 'closure', None):
                fv = contract.closure(ex, fi, vals)
            v = ex.call_func(fv, args, kwargs, force_inline=True)
            outcome = {'kind': 'return', 'value': v}
        except RaiseEx as r:
            outcome = {'kind': 'raise', 'exc': r.exc}
        if 'fs' in run.ghost:
            from . import fsmodel
            fsmodel.close_all(ex)
        # clauses
        avail = dict(vals)
        avail.update(olds)
        avail['trace'] = TraceView(run.trace)
        if 'fs' in run.ghost:
            avail['fs'] = run.ghost['fs']
            avail['fs0'] = run.ghost['fs0']
        # crash invariants: one obligation per ghost-FS event of the path (hypotheses: the path condition up to that event)
        for ciname, cifn in contract.crash_invariant.items():
            for (label, spc, snap, stags) in run.ghost.get('fs_snaps', []):
                saved_pc = run.pc
                run.pc = list(spc)
                try:
                    a2 = dict(vals)
                    a2.update(olds)
                    a2['fs'] = snap
                    a2['fs0'] = run.ghost['fs0']
                    r = call_clause(ex, cm, cifn, a2)
                    ob = run.oblige(f'{contract.id}.{ciname}@{label}', 'crash', _b(ex, r), {'clause': cifn, 'cname': ciname, 'event': label})
                    ob.meta['path_tags'] = list(stags) + [f'crash-after:{label.split("#")[0]}']
                finally:
                    run.pc = saved_pc
        if outcome['kind'] == 'return':
            avail['result'] = outcome['value']
            avail['raised'] = None
            clauses = list(contract.ensures.items()) + list(contract.ensures_all.items())
        else:
            avail['result'] = None
            avail['raised'] = outcome['exc'].cls
            avail['exc'] = outcome['exc']
            clauses = list(contract.ensures_raise.items()) + list(contract.ensures_all.items())
        run.tags.append(f'exit:{outcome["kind"]}' + (f':{outcome["exc"].cls}@{outcome["exc"].origin}' if outcome['kind'] == 'raise' else ''))
        finals.append((run, outcome))
        registry.current = None
        if outcome['kind'] == 'raise' and not contract.ensures_raise and not contract.ensures_all \
                and outcome['exc'].cls not in contract.may_raise:
            # the contract only speaks about normal returns: a path that ends in an exception it does not allow is a failure
            ob = run.oblige(f'{contract.id}.no_unexpected_exception', 'post', False,
                            {'clause': None, 'cname': 'no_unexpected_exception', 'outcome': 'raise'})
            ob.meta['raised'] = avail['raised']
        for cname, fname in clauses:
            pcl = len(run.pc)
            try:
                r = call_clause(ex, cm, fname, avail)
            except RaiseEx as rexc:
                # the clause (spec) raises on this path although the real function returned: the clause is false here
                run.notes.append(f'clause {fname} raised {rexc.exc.cls}@{rexc.exc.origin}')
                r = False
            ob = run.oblige(f'{contract.id}.{cname}', 'post', _b(ex, r), {'clause': fname, 'cname': cname, 'outcome': outcome['kind']})
            ob.meta['raised'] = avail['raised']
        if contract.canary and outcome['kind'] == 'return':
            r = call_clause(ex, cm, contract.canary, avail)
            ob = run.oblige(f'{contract.id}.canary', 'canary', _b(ex, r), {'clause': contract.canary})
            ob.expect = 'sat'
        return outcome

    try:
        paths = explorer.explore(entry)
    except OutOfSubset as o:
        if os.environ.get('PYVC_TRACE'):
            import traceback
            traceback.print_exc()
        res.out_of_subset = f'{o.reason}' + (f' (line {o.node.lineno})' if getattr(o, 'node', None) is not None and hasattr(o.node, 'lineno') else '')
        registry.current = None
        return res
    finally:
        registry.current = None
    res.path_count = len(paths)
    if not paths:
        res.out_of_subset = 'no feasible path: the precondition or a loop invariant of the contract is contradictory'
    for p in paths:
        res.paths.append({'kind': p.kind, 'tags': p.tags})
        for ob in p.run.obligations:
            ob.meta['contract'] = contract.id
            ob.meta.setdefault('path_tags', list(p.run.tags))
            res.obligations.append(ob)
        res.assumed |= p.run.assumed
    for ob in getattr(explorer, 'pruned', []):
        ob.name = f'{contract.id}.pruned_branch'
        ob.meta['contract'] = contract.id
        ob.meta.setdefault('path_tags', list(ob.meta.get('tags', [])))
        res.obligations.append(ob)
    res.functions = set(ex.called) | {contract.target}
    res.contract_calls = set(ex.contract_calls)
    # obligation names must be unique: add path ordinal
    seen = {}
    for ob in res.obligations:
        n = seen.get(ob.name, 0)
        seen[ob.name] = n + 1
        ob.name = f'{ob.name}#p{n}'
    return res


class TraceView(P.ExtObj if hasattr(P, 'ExtObj') else object):
    """Ghost trace handed to clauses.  The native twin lives in pyvc.native.TraceLog."""

    def __init__(self, events):
        self.events = list(events)

    def m_count(self, ex, name, recv=None):
        return sum(1 for e in self.events if e.name == name and (recv is None or e.recv == recv))

    def m_has(self, ex, name, recv=None):
        return any(e.name == name and (recv is None or e.recv == recv) for e in self.events)

    def m_index(self, ex, name, recv=None):
        for i, e in enumerate(self.events):
            if e.name == name and (recv is None or e.recv == recv):
                return i
        return -1

    def m_last_index(self, ex, name, recv=None):
        r = -1
        for i, e in enumerate(self.events):
            if e.name == name and (recv is None or e.recv == recv):
                r = i
        return r

    def m_names(self, ex):
        return tuple(e.name for e in self.events)

    def m_returned(self, ex, name, recv=None):
        return sum(1 for e in self.events if e.name == name and e.outcome == 'ret' and (recv is None or e.recv == recv))

    def m_arg(self, ex, name, i, nth=0, recv=None):
        evs = [e for e in self.events if e.name == name and (recv is None or e.recv == recv)]
        return evs[nth].args[i]

    def m_ret(self, ex, name, nth=0, recv=None):
        evs = [e for e in self.events if e.name == name and (recv is None or e.recv == recv)]
        return evs[nth].ret

    def a_length(self, ex):
        return len(self.events)
