"""Attribute access, item access, container methods, instantiation (second half of pyops)."""
import ast
import z3
from . import kinds as K
from .kinds import Sym
from .values import *


def _P():
    from . import pyops
    return pyops


# =============================================================================================
# super()
# =============================================================================================

class SuperProxy:
    def __init__(self, after_cls, self_val):
        self.after_cls = after_cls
        self.self_val = self_val


def _class_of(ex, v):
    """ClassInfo | ('ext', name) of a value's class, or None."""
    if isinstance(v, Ref):
        c = ex.run.cell(v)
        if isinstance(c, HObj):
            return c.cls
        if isinstance(c, HList):
            return ('ext', 'builtins.list')
        if isinstance(c, HDict):
            return ('ext', 'builtins.dict')
        if isinstance(c, HSet):
            return ('ext', 'builtins.set')
    if isinstance(v, Sym) and isinstance(v.kind, K.Rec) and v.kind.cls:
        return ex.table.cls(v.kind.cls)
    return None


def super_getattr(ex, sp, name):
    cls = _class_of(ex, sp.self_val)
    if cls is None or isinstance(cls, tuple):
        raise OutOfSubset('super() on non-repo object')
    mro = cls.mro()
    i = mro.index(sp.after_cls)
    for c in mro[i + 1:]:
        if hasattr(c, 'methods'):
            if name in c.methods:
                fi = c.methods[name]
                if fi.is_property:
                    return ex.call(BoundMethod(ex.func_of(fi), sp.self_val), [], {})
                return BoundMethod(ex.func_of(fi), sp.self_val)
        else:
            return ex.models.ext_method(c[1], name, sp.self_val)
    raise RaiseEx(ExcVal('AttributeError', origin=f'super().{name}'))


# =============================================================================================
# getattr / setattr
# =============================================================================================

def getattr_(ex, obj, name, node=None):
    P = _P()
    run = ex.run
    if isinstance(obj, SuperProxy):
        return super_getattr(ex, obj, name)
    if isinstance(obj, Ref):
        cell = run.cell(obj)
        if isinstance(cell, HObj):
            return obj_getattr(ex, obj, cell, name, node)
        if isinstance(cell, AbstractObj):
            return abstract_getattr(ex, obj, cell, name)
        if isinstance(cell, HList):
            return ex.models.list_method(obj, name)
        if isinstance(cell, HDict):
            return ex.models.dict_method(obj, name)
        if isinstance(cell, HSet):
            return ex.models.set_method(obj, name)
    if isinstance(obj, str) or (isinstance(obj, Sym) and obj.kind == K.Str):
        return ex.models.str_method(obj, name)
    if isinstance(obj, Sym):
        k = obj.kind
        if k == K.Path:
            return ex.models.path_attr(obj, name)
        if isinstance(k, K.Rec):
            if name in k.fields:
                return Sym(k.fields[name], k.get(obj.t, name))
            if k.cls:
                ci = ex.table.cls(k.cls)
                return class_member_for_instance(ex, ci, obj, name, node)
            raise RaiseEx(ExcVal('AttributeError', origin=f'{k.name}.{name}'))
        if isinstance(k, K.Opt):
            if run.decide(k.is_none(obj.t)):
                raise RaiseEx(ExcVal('AttributeError', origin=f'None.{name}'))
            return getattr_(ex, Sym(k.inner, k.val(obj.t)), name, node)
        if isinstance(k, K.Seq):
            return ex.models.seq_method(obj, name)
        if isinstance(k, K.Map):
            return ex.models.map_method(obj, name)
        if k == K.Dyn:
            return ex.models.dyn_attr(obj, name)
        if isinstance(k, K.Tup):
            raise RaiseEx(ExcVal('AttributeError', origin=f'tuple.{name}'))
        if isinstance(k, K.U):
            return ex.models.u_method(obj, name)
    if isinstance(obj, ClassVal):
        return class_getattr(ex, obj, name, node)
    if isinstance(obj, ModuleVal):
        if isinstance(obj.mi, tuple):
            return ex.models.ext_value(f'{obj.mi[1]}.{name}')
        return ex.module_member(obj.mi, name)
    if isinstance(obj, FuncVal):
        if name == '__name__':
            return obj.name
        if name in obj.attrs:
            return obj.attrs[name]
    if isinstance(obj, ExcVal):
        if name == 'args':
            return tuple(obj.args)
    if isinstance(obj, ExtObj):
        return obj.getattr(ex, name)
    if isinstance(obj, tuple):
        raise RaiseEx(ExcVal('AttributeError', origin=f'tuple.{name}'))
    if obj is None:
        raise RaiseEx(ExcVal('AttributeError', origin=f'None.{name}'))
    raise OutOfSubset(f'attribute {name} of {obj!r}', node)


class ExtObj:
    """An external object modelled by a python class in models.py (logger, signature, match ...)."""

    def getattr(self, ex, name):
        m = getattr(self, 'a_' + name, None)
        if m is not None:
            return m(ex)
        m = getattr(self, 'm_' + name, None)
        if m is not None:
            return Builtin(f'{type(self).__name__}.{name}', lambda ex_, args, kw: m(ex_, *args, **kw))
        raise OutOfSubset(f'{type(self).__name__}.{name} not modelled')


def obj_getattr(ex, ref, cell, name, node=None):
    if name in cell.fields:
        return cell.fields[name]
    if name == '__class__':
        return ClassVal(cell.cls)
    if name == '__dict__':
        raise OutOfSubset('__dict__')
    if isinstance(cell.cls, tuple):
        return ex.models.ext_method(cell.cls[1], name, ref)
    return class_member_for_instance(ex, cell.cls, ref, name, node)


def class_member_for_instance(ex, ci, selfv, name, node=None):
    r = ci.lookup(name)
    if r is not None:
        kind, val = r
        if kind == 'method':
            fi = val
            if fi.is_property:
                return ex.call(BoundMethod(ex.func_of(fi), selfv), [], {})
            if fi.is_static:
                return ex.func_of(fi)
            if fi.is_classmethod:
                return BoundMethod(ex.func_of(fi), ClassVal(_class_of(ex, selfv) or ci))
            fv = ex.func_of(fi)
            return apply_method_decorators(ex, fi, fv, selfv)
        if kind == 'attr':
            c, expr = val
            return class_attr_value(ex, c, name, expr)
        if kind == 'nested':
            return ClassVal(val)
    # external bases
    for c in ci.mro():
        if isinstance(c, tuple):
            try:
                return ex.models.ext_method(c[1], name, selfv)
            except KeyError:
                continue
    # __getattr__ hook
    if name != '__getattr__':
        g = ci.lookup('__getattr__')
        if g and g[0] == 'method':
            return ex.call(BoundMethod(ex.func_of(g[1]), selfv), [name], {})
    if isinstance(selfv, Ref) and ex.run.cell(selfv).ghost.get('input') and not name.startswith('__'):
        # an input object of the contract: the declared shape does not mention this attribute
        raise OutOfSubset(f'the code reads attribute {name!r} of input {ex.run.cell(selfv).ghost["input"]!r}, which the contract shape does not declare')
    raise RaiseEx(ExcVal('AttributeError', origin=f'{ci.name}.{name}'))


def apply_method_decorators(ex, fi, fv, selfv):
    """Descriptor-style decorators of /repo (`persistent`, `cached`, `repeat_on_error`) are applied by
    evaluating their __get__; plain functions bind."""
    decos = [d for d in fi.decorators if d not in ('abc.abstractmethod', 'abstractmethod')]
    if not decos:
        return BoundMethod(fv, selfv)
    raise OutOfSubset(f'decorated method {fi.key} ({decos})')


def class_attr_value(ex, ci, name, expr):
    cache = ex.run.ghost.setdefault('_modcache', {})
    key = ('classattr', ci.key, name)
    import ast as _ast
    if (isinstance(expr, _ast.Dict) and not expr.keys) or \
            (isinstance(expr, _ast.Call) and isinstance(expr.func, _ast.Name) and expr.func.id in ('dict', 'set', 'defaultdict', 'OrderedDict') and not expr.keywords
             and (expr.func.id == 'defaultdict' or not expr.args)):
        # an empty dict / set at class level is state shared by every instance and every call: its content at the time of the call is
        # not its initial value, and the executor has no model of that history
        raise OutOfSubset(f'class attribute {ci.name}.{name} is an empty mutable container (state shared between calls)')
    if key not in cache:
        fr = Frame(None, ci.module)
        fr.fi = type('X', (), {'qualname': ci.name, 'key': ci.key})()
        # class body scope: other class attrs visible
        for an, ae in ci.attrs.items():
            if an == name:
                break
        cache[key] = ex.eval(expr, fr)
    return cache[key]


def class_getattr(ex, cv, name, node=None):
    ci = cv.ci
    if isinstance(ci, tuple):
        if ci[1] == 'builtins.str' and name == '__new__':
            P_ = _P()
            return Builtin('str.__new__', lambda ex_, a, k: new_object(ex_, a[0].ci, payload=P_.py_str(ex_, a[1]) if len(a) > 1 else ''))
        return ex.models.ext_value(f'{ci[1]}.{name}')
    if name == '__name__':
        return ci.name.split('.')[-1]
    if name == '__module__':
        return ci.module.name
    if name == '__mro__':
        return tuple(ClassVal(c) for c in ci.mro())
    if name == '__class__':
        mc = ci.metaclass()
        return ClassVal(mc if mc is not None else ('ext', 'builtins.type'))
    r = ci.lookup(name)
    if r is not None:
        kind, val = r
        if kind == 'method':
            fi = val
            if fi.is_static:
                return ex.func_of(fi)
            if fi.is_classmethod:
                return BoundMethod(ex.func_of(fi), cv)
            if fi.is_property:
                return fi       # the property object itself; rarely needed
            return ex.func_of(fi)
        if kind == 'attr':
            c, expr = val
            return class_attr_value(ex, c, name, expr)
        if kind == 'nested':
            return ClassVal(val)
    mc = ci.metaclass()
    if mc is not None and hasattr(mc, 'lookup'):
        r = mc.lookup(name)
        if r and r[0] == 'method':
            fi = r[1]
            if fi.is_property:
                return ex.call(BoundMethod(ex.func_of(fi), cv), [], {})
            return BoundMethod(ex.func_of(fi), cv)
    raise RaiseEx(ExcVal('AttributeError', origin=f'class {ci.name}.{name}'))


def abstract_getattr(ex, ref, cell, name):
    if name in cell.fields:
        return cell.fields[name]
    iface = cell.iface
    if name in iface.props:
        return iface.props[name].read(ex, ref, cell, name)
    if name in iface.methods:
        spec = iface.methods[name]
        return Builtin(f'{cell.name}.{name}', lambda ex_, args, kw: spec.invoke(ex_, ref, cell, name, args, kw))
    raise OutOfSubset(f'abstract object {cell.name}: attribute {name} not in interface {iface.name}')


def hasattr_(ex, obj, name):
    if not isinstance(name, str):
        if isinstance(obj, Ref) and isinstance(ex.run.cell(obj), AbstractObj) and ex.run.cell(obj).iface.hasattr is not None:
            return ex.run.cell(obj).iface.hasattr(ex, obj, name)
        raise OutOfSubset('hasattr with symbolic name')
    if isinstance(obj, Ref):
        cell = ex.run.cell(obj)
        if isinstance(cell, HObj):
            if name in cell.fields:
                return True
            if isinstance(cell.cls, tuple):
                return False
            if cell.cls.lookup(name) is not None:
                return True
            if name in cell.ghost.get('maybe_fields', ()):
                raise OutOfSubset(f'hasattr of maybe-field {name}')
            return False
        if isinstance(cell, AbstractObj):
            if name in cell.fields or name in cell.iface.props or name in cell.iface.methods:
                return True
            h = cell.iface.hasattr
            if h is not None:
                return h(ex, obj, name)
            return False
        if isinstance(cell, HList):
            return name in dir(list)
        if isinstance(cell, HDict):
            return name in dir(dict)
    if isinstance(obj, Sym):
        k = obj.kind
        if k == K.Dyn:
            return ex.models.dyn_hasattr(obj, name)
        if isinstance(k, K.Rec):
            if name in k.fields:
                return True
            if k.cls:
                return ex.table.cls(k.cls).lookup(name) is not None
            return False
        if k == K.Str:
            return hasattr('', name)
        if isinstance(k, K.Opt):
            if ex.run.decide(k.is_none(obj.t)):
                return hasattr(None, name)
            return hasattr_(ex, Sym(k.inner, k.val(obj.t)), name)
        if isinstance(k, K.Seq):
            return hasattr([], name)
    if isinstance(obj, ClassVal):
        ci = obj.ci
        if isinstance(ci, tuple):
            raise OutOfSubset('hasattr on external class')
        if name in ('__name__', '__module__'):
            return True
        return ci.lookup(name) is not None
    if isinstance(obj, str):
        return hasattr(obj, name)
    if isinstance(obj, _P().AbstractFn):
        return name in ('__call__',)
    raise OutOfSubset(f'hasattr({obj!r}, {name})')


def setattr_(ex, obj, name, v):
    if isinstance(obj, Ref):
        cell = ex.run.cell(obj)
        if isinstance(cell, HObj):
            note_mutation(ex, obj, cell)
            cell.fields[name] = v
            return
        if isinstance(cell, AbstractObj):
            spec = cell.iface.props.get(name)
            if spec is not None and spec.settable:
                cell.fields[name] = v
                return
            raise OutOfSubset(f'assignment to attribute {name} of abstract object {cell.name}')
    if isinstance(obj, FuncVal):
        obj.attrs[name] = v
        return
    raise OutOfSubset(f'setattr on {obj!r}')


def note_mutation(ex, ref, cell):
    """Frame / ownership bookkeeping: mutating a cell that was handed to the outside (yielded, or a
    borrowed input declared read-only) is an obligation failure recorded on the run."""
    if cell.ghost.get('frozen'):
        ex.run.oblige(f'frame.{cell.ghost["frozen"]}', 'frame', z3.BoolVal(False),
                      {'why': f'mutation of {cell.ghost["frozen"]} cell {ref}'})


# =============================================================================================
# getitem / setitem / delitem
# =============================================================================================

def _norm_index(ex, idx, length_t):
    """python index (possibly negative, concrete or symbolic) -> z3 Int offset."""
    P = _P()
    if isinstance(idx, int):
        return z3.IntVal(idx) if idx >= 0 else length_t + idx
    t = P.int_t(ex, idx)
    return z3.If(t >= 0, t, length_t + t)


def seq_slice(ex, t, sl, elem_sort=None):
    """t[lo:hi] for sequences and strings (step None or -1 on full slice only)."""
    P = _P()
    n = z3.Length(t)
    if sl.step is not None:
        if sl.step == -1 and sl.start is None and sl.stop is None:
            return None
        raise OutOfSubset('slice step')

    def clamp(v, default):
        if v is None:
            return default
        if isinstance(v, int):
            if v >= 0:
                return z3.If(z3.IntVal(v) > n, n, z3.IntVal(v))
            return z3.If(n + v < 0, z3.IntVal(0), n + v)
        tv = P.int_t(ex, v)
        pos = z3.If(tv > n, n, tv)
        neg = z3.If(n + tv < 0, z3.IntVal(0), n + tv)
        return z3.If(tv >= 0, pos, neg)
    lo = clamp(sl.start, z3.IntVal(0))
    hi = clamp(sl.stop, n)
    ln = z3.If(hi - lo < 0, z3.IntVal(0), hi - lo)
    return z3.SubSeq(t, lo, ln)


def getitem(ex, obj, idx, node=None):
    P = _P()
    run = ex.run
    if isinstance(obj, tuple):
        if isinstance(idx, slice):
            return obj[idx]
        if isinstance(idx, int):
            try:
                return obj[idx]
            except IndexError:
                raise RaiseEx(ExcVal('IndexError', origin='tuple index'))
        raise OutOfSubset('symbolic index into concrete tuple')
    if isinstance(obj, str) and isinstance(idx, (int, slice)) and not _has_sym(idx):
        try:
            return obj[idx]
        except IndexError:
            raise RaiseEx(ExcVal('IndexError', origin='str index'))
    if P.is_str(obj):
        t = P.str_t(ex, obj)
        if isinstance(idx, slice):
            return Sym(K.Str, seq_slice(ex, t, idx))
        i = _norm_index(ex, idx, z3.Length(t))
        if not run.decide(z3.And(i >= 0, i < z3.Length(t))):
            raise RaiseEx(ExcVal('IndexError', origin='str index'))
        return Sym(K.Str, z3.SubString(t, i, 1))
    if isinstance(obj, Sym):
        k = obj.kind
        if isinstance(k, K.Seq):
            if isinstance(idx, slice):
                if idx.step == -1 and idx.start is None and idx.stop is None:
                    return seq_reverse(ex, obj)
                return Sym(k, seq_slice(ex, obj.t, idx))
            i = _norm_index(ex, idx, z3.Length(obj.t))
            if not run.decide(z3.And(i >= 0, i < z3.Length(obj.t))):
                raise RaiseEx(ExcVal('IndexError', origin='list index'))
            return Sym(k.elem, obj.t[i])
        if isinstance(k, K.Map):
            kt = P.lift(ex, idx, k.key)
            ov = z3.Select(k.arr(obj.t), kt)
            if run.decide(k.optv.is_none(ov)):
                raise RaiseEx(ExcVal('KeyError', origin='dict key'))
            return Sym(k.val, k.optv.val(ov))
        if isinstance(k, K.Tup):
            if isinstance(idx, int):
                return Sym(k.items[idx], k.get(obj.t, idx))
        if isinstance(k, K.Opt):
            if run.decide(k.is_none(obj.t)):
                raise RaiseEx(ExcVal('TypeError', origin='None[...]'))
            return getitem(ex, Sym(k.inner, k.val(obj.t)), idx, node)
        if isinstance(k, K.Rec) and k.cls:
            ci = ex.table.cls(k.cls)
            r = ci.lookup('__getitem__')
            if r and r[0] == 'method':
                return ex.call(BoundMethod(ex.func_of(r[1]), obj), [idx], {})
        if k == K.Dyn:
            return ex.models.dyn_getitem(obj, idx)
    if isinstance(obj, Ref):
        cell = run.cell(obj)
        if isinstance(cell, HList):
            if cell.items is not None:
                if isinstance(idx, slice) and not _has_sym(idx):
                    return run.alloc(HList(items=cell.items[idx]))
                if isinstance(idx, int):
                    try:
                        return cell.items[idx]
                    except IndexError:
                        raise RaiseEx(ExcVal('IndexError', origin='list index'))
                # symbolic index into concrete list: lift
                k = P.kind_of(ex, obj)
                return getitem(ex, Sym(k, P.lift(ex, obj, k)), idx, node)
            r = getitem(ex, cell.sym, idx, node)
            if isinstance(idx, slice):
                return run.alloc(HList(sym=r))
            return r
        if isinstance(cell, HDict):
            if cell.items is not None:
                if isinstance(idx, Sym):
                    # symbolic key against concrete keys: decide equality one by one
                    for k_, v_ in cell.items.items():
                        e = P.eq(ex, k_, idx)
                        if ex.truth(e):
                            return v_
                    raise RaiseEx(ExcVal('KeyError', origin='dict key'))
                try:
                    if idx in cell.items:
                        return cell.items[idx]
                except TypeError:
                    pass
                # concrete key vs symbolic keys stored
                for k_, v_ in cell.items.items():
                    if isinstance(k_, Sym) and ex.truth(P.eq(ex, k_, idx)):
                        return v_
                raise RaiseEx(ExcVal('KeyError', origin=f'dict key {idx!r}'))
            return getitem(ex, cell.sym, idx, node)
        if isinstance(cell, HObj):
            if not isinstance(cell.cls, tuple):
                r = cell.cls.lookup('__getitem__')
                if r and r[0] == 'method':
                    return ex.call(BoundMethod(ex.func_of(r[1]), obj), [idx], {})
                if cell.cls.is_subclass_of(('ext', 'builtins.dict')):
                    return getitem(ex, cell.ghost['basedict'], idx, node)
                if cell.cls.is_subclass_of(('ext', 'builtins.str')):
                    return getitem(ex, cell.payload, idx, node)
        if isinstance(cell, AbstractObj):
            return P.abstract_call(ex, obj, '__getitem__', [idx], {})
    if isinstance(obj, ExtObj):
        return obj.getitem(ex, idx)
    raise OutOfSubset(f'subscript of {obj!r}', node)


def _has_sym(idx):
    if isinstance(idx, slice):
        return any(isinstance(x, Sym) for x in (idx.start, idx.stop, idx.step))
    return isinstance(idx, Sym)


def seq_reverse(ex, s):
    P = _P()
    f = P.ufn(f'rev_{s.kind.name}', [s.kind.sort()], s.kind.sort())
    r = f(s.t)
    n = z3.Length(s.t)
    ex.run.axiom(z3.Length(r) == n, 'A-seq')
    i = z3.Int('rev_i')
    ex.run.axiom(_P().forall([i], z3.Implies(z3.And(i >= 0, i < n), r[i] == s.t[n - 1 - i]), patterns=[r[i]]))
    return Sym(s.kind, r)


def setitem(ex, obj, idx, v):
    P = _P()
    run = ex.run
    if isinstance(obj, Ref):
        cell = run.cell(obj)
        if isinstance(cell, HDict):
            note_mutation(ex, obj, cell)
            if cell.items is not None:
                if isinstance(idx, (str, int, bool, tuple, ClassVal)) or idx is None:
                    if all(not isinstance(k_, Sym) for k_ in cell.items):
                        cell.items[idx] = v
                        return
                if not cell.items:
                    cell.items[_hashable(idx)] = v
                    return
                # mixture of symbolic keys: decide equality with existing keys
                for k_ in list(cell.items):
                    if ex.truth(P.eq(ex, k_, idx)):
                        cell.items[k_] = v
                        return
                cell.items[_hashable(idx)] = v
                return
            cell.sym = map_store(ex, cell.sym, idx, v)
            return
        if isinstance(cell, HList):
            note_mutation(ex, obj, cell)
            if cell.items is not None and isinstance(idx, int):
                try:
                    cell.items[idx] = v
                except IndexError:
                    raise RaiseEx(ExcVal('IndexError', origin='list assignment'))
                return
            k = P.kind_of(ex, obj)
            t = P.lift(ex, obj, k)
            i = _norm_index(ex, idx, z3.Length(t))
            if not run.decide(z3.And(i >= 0, i < z3.Length(t))):
                raise RaiseEx(ExcVal('IndexError', origin='list assignment'))
            nt = z3.Concat(z3.SubSeq(t, 0, i), z3.Unit(P.lift(ex, v, k.elem)), z3.SubSeq(t, i + 1, z3.Length(t) - i - 1))
            cell.items = None
            cell.sym = Sym(k, nt)
            return
        if isinstance(cell, HObj):
            if not isinstance(cell.cls, tuple):
                r = cell.cls.lookup('__setitem__')
                if r and r[0] == 'method':
                    ex.call(BoundMethod(ex.func_of(r[1]), obj), [idx, v], {})
                    return
                if cell.cls.is_subclass_of(('ext', 'builtins.dict')):
                    setitem(ex, cell.ghost['basedict'], idx, v)
                    return
        if isinstance(cell, AbstractObj):
            P.abstract_call(ex, obj, '__setitem__', [idx, v], {})
            return
    raise OutOfSubset(f'item assignment on {obj!r}')


def _hashable(k):
    return k


def map_store(ex, m, key, v):
    """m[key] = v on a symbolic Map: array store; the key order grows only if the key was absent."""
    P = _P()
    k = m.kind
    kt = P.lift(ex, key, k.key)
    vt = P.lift(ex, v, k.val)
    arr = k.arr(m.t)
    keys = k.keys(m.t)
    present = z3.Not(k.optv.is_none(z3.Select(arr, kt)))
    nkeys = z3.If(present, keys, z3.Concat(keys, z3.Unit(kt)))
    return Sym(k, k.mk(z3.Store(arr, kt, k.optv.some(vt)), nkeys))


def delitem(ex, obj, idx):
    P = _P()
    run = ex.run
    if isinstance(obj, Ref):
        cell = run.cell(obj)
        if isinstance(cell, HDict):
            note_mutation(ex, obj, cell)
            if cell.items is not None:
                if isinstance(idx, Sym):
                    for k_ in list(cell.items):
                        if ex.truth(P.eq(ex, k_, idx)):
                            del cell.items[k_]
                            return
                    raise RaiseEx(ExcVal('KeyError', origin='del'))
                if idx in cell.items:
                    del cell.items[idx]
                    return
                raise RaiseEx(ExcVal('KeyError', origin='del'))
            m = cell.sym
            k = m.kind
            kt = P.lift(ex, idx, k.key)
            if run.decide(k.optv.is_none(z3.Select(k.arr(m.t), kt))):
                raise RaiseEx(ExcVal('KeyError', origin='del'))
            f = P.ufn(f'seq_remove_{k.key.name}', [z3.SeqSort(k.key.sort()), k.key.sort()], z3.SeqSort(k.key.sort()))
            nkeys = f(k.keys(m.t), kt)
            run.axiom(z3.Not(z3.Contains(nkeys, z3.Unit(kt))), 'A-dict')
            run.axiom(z3.Length(nkeys) == z3.Length(k.keys(m.t)) - 1, 'A-dict')
            cell.sym = Sym(k, k.mk(z3.Store(k.arr(m.t), kt, k.optv.none()), nkeys))
            return
        if isinstance(cell, HObj) and not isinstance(cell.cls, tuple) and cell.cls.is_subclass_of(('ext', 'builtins.dict')):
            delitem(ex, cell.ghost['basedict'], idx)
            return
    if isinstance(obj, Sym) and isinstance(obj.kind, K.Opt):
        if run.decide(obj.kind.is_none(obj.t)):
            raise RaiseEx(ExcVal('TypeError', origin='del None[..]'))
    raise OutOfSubset(f'del item on {obj!r}')


# =============================================================================================
# list / set / dict mutation helpers
# =============================================================================================

def list_append(ex, ref, v):
    P = _P()
    cell = ex.run.cell(ref)
    note_mutation(ex, ref, cell)
    if cell.items is not None:
        cell.items.append(v)
    else:
        k = cell.sym.kind
        cell.sym = Sym(k, z3.Concat(cell.sym.t, z3.Unit(P.lift(ex, v, k.elem))))


def list_extend(ex, ref, other):
    P = _P()
    cell = ex.run.cell(ref)
    note_mutation(ex, ref, cell)
    try:
        items = P.iterate_concrete(ex, other)
        for it in items:
            list_append(ex, ref, it)
        return
    except OutOfSubset:
        pass
    k = P.kind_of(ex, other) if cell.sym is None else cell.sym.kind
    t = P.lift(ex, ref, k)
    cell.items = None
    cell.sym = Sym(k, z3.Concat(t, P.lift(ex, other, k)))


def set_add(ex, ref, v):
    P = _P()
    cell = ex.run.cell(ref)
    note_mutation(ex, ref, cell)
    if cell.items is None:
        k = cell.sym.kind
        cell.sym = Sym(k, z3.Store(cell.sym.t, P.lift(ex, v, k.elem), z3.BoolVal(True)))
        return
    for it in cell.items:
        if ex.truth(P.eq(ex, it, v)):
            return
    cell.items.append(v)


def set_update(ex, ref, other):
    P = _P()
    cell = ex.run.cell(ref)
    osym = None
    if isinstance(other, Sym) and isinstance(other.kind, K.SetOf):
        osym = other
    elif isinstance(other, Ref) and isinstance(ex.run.cell(other), HSet) and ex.run.cell(other).sym is not None:
        osym = ex.run.cell(other).sym
    if osym is not None:
        note_mutation(ex, ref, cell)
        if cell.sym is None:
            if cell.items:
                raise OutOfSubset('union of a concrete non-empty set with a symbolic one')
            cell.items = None
            cell.sym = Sym(osym.kind, z3.K(osym.kind.elem.sort(), z3.BoolVal(False)))
        cell.sym = Sym(osym.kind, z3.SetUnion(cell.sym.t, osym.t))
        return
    for it in P.iterate_concrete(ex, other):
        set_add(ex, ref, it)


def dict_update(ex, ref, other):
    P = _P()
    cell = ex.run.cell(ref)
    note_mutation(ex, ref, cell)
    if isinstance(other, Ref):
        oc = ex.run.cell(other)
        if isinstance(oc, HObj) and not isinstance(oc.cls, tuple) and oc.cls.is_subclass_of(('ext', 'builtins.dict')):
            return dict_update(ex, ref, oc.ghost['basedict'])
        if isinstance(oc, HDict):
            if oc.items is not None:
                for k_, v_ in oc.items.items():
                    setitem(ex, ref, k_, v_)
                return
            other = oc.sym
    if isinstance(other, Sym) and isinstance(other.kind, K.Map):
        if cell.sym is None:
            if cell.items:
                cell.sym = dict_to_map(ex, cell, other.kind)
            else:
                cell.sym = empty_map(ex, other.kind)
            cell.items = None
        cell.sym = map_update(ex, cell.sym, other)
        return
    raise OutOfSubset(f'dict.update with {other!r}')


def empty_map(ex, k):
    arr = z3.K(k.key.sort(), k.optv.none())
    return Sym(k, k.mk(arr, z3.Empty(z3.SeqSort(k.key.sort()))))


def dict_to_map(ex, cell, k):
    P = _P()
    if cell.sym is not None:
        return cell.sym
    m = empty_map(ex, k)
    for k_, v_ in cell.items.items():
        m = map_store(ex, m, k_, v_)
    return m


def map_update(ex, a, b):
    """a.update(b) on symbolic maps: pointwise override (A-dict); key order: a's keys then b's new keys."""
    P = _P()
    k = a.kind
    f = P.ufn(f'map_update_{k.name}', [k.sort(), k.sort()], k.sort())
    r = f(a.t, b.t)
    x = z3.Const(f'upd_k_{k.key.name}', k.key.sort())
    sel = z3.Select(k.arr(r), x)
    ex.run.axiom(_P().forall([x], sel == z3.If(k.optv.is_none(z3.Select(k.arr(b.t), x)),
                                              z3.Select(k.arr(a.t), x), z3.Select(k.arr(b.t), x)),
                            patterns=[sel]), 'A-dict')
    return Sym(k, r)


# =============================================================================================
# instantiate
# =============================================================================================

def instantiate(ex, cv, args, kwargs, node=None):
    P = _P()
    ci = cv.ci
    if isinstance(ci, tuple):
        return ex.models.ext_construct(ci[1], args, kwargs, node)
    # exceptions
    if _is_exception_class(ex, ci):
        return ExcVal(ci.key, tuple(args))
    if ex.contracts is not None:
        ov = ex.contracts.constructor(ci.key, ex.current_target)
        if ov is not None:
            return ov(ex, cv, args, kwargs)
    r = ci.lookup('__new__')
    if r and r[0] == 'method':
        fv = ex.func_of(r[1])
        return ex.call(fv, [cv] + list(args), kwargs, node)
    ref = new_object(ex, ci)
    r = ci.lookup('__init__')
    if r and r[0] == 'method':
        ex.call(BoundMethod(ex.func_of(r[1]), ref), args, kwargs, node)
    else:
        # external base __init__ (dict(), Exception(...)): ignore args for dict
        pass
    return ref


def new_object(ex, ci, payload=None):
    cell = HObj(ci)
    if ci.is_subclass_of(('ext', 'builtins.dict')):
        cell.ghost['basedict'] = ex.run.alloc(HDict(items={}))
    if ci.is_subclass_of(('ext', 'builtins.str')):
        cell.payload = payload if payload is not None else ''
    return ex.run.alloc(cell)


def _is_exception_class(ex, ci):
    for c in ci.mro():
        if isinstance(c, tuple) and c[1].replace('builtins.', '') in _P().BUILTIN_EXC:
            return True
    return False


# =============================================================================================
# with / yield / await
# =============================================================================================

def ctx_enter(ex, cm):
    if isinstance(cm, ExtObj):
        return cm.enter(ex)
    if isinstance(cm, Ref):
        cell = ex.run.cell(cm)
        if isinstance(cell, AbstractObj):
            return _P().abstract_call(ex, cm, '__enter__', [], {})
    raise OutOfSubset(f'with on {cm!r}')


def ctx_exit(ex, cm):
    if isinstance(cm, ExtObj):
        return cm.exit(ex)
    if isinstance(cm, Ref):
        cell = ex.run.cell(cm)
        if isinstance(cell, AbstractObj):
            return _P().abstract_call(ex, cm, '__exit__', [], {})
    raise OutOfSubset(f'with-exit on {cm!r}')


def do_yield(ex, frame, v):
    """Generators are run to completion; the yielded values form the ghost output list.  A yielded
    mutable cell is frozen: mutating it afterwards is reported (the consumer may still hold it)."""
    list_append(ex, frame.yields, v)
    if isinstance(v, Ref):
        cell = ex.run.cell(v)
        if isinstance(cell, (HList, HDict, HSet)):
            cell.ghost['frozen'] = 'yielded'
    hook = getattr(frame, 'on_yield', None)
    if hook:
        hook(v)


def await_(ex, v):
    if isinstance(v, ExtObj) and hasattr(v, 'await_'):
        return v.await_(ex)
    raise OutOfSubset(f'await of {v!r}')
