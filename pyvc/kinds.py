"""Kinds: the static sorts of symbolic values, their z3 sorts, fresh symbols and model decoding.

Every symbolic value is a pair (kind, z3 term).  Datatypes are monomorphic and named after the kind
signature (z3 rejects ambiguous testers on parametric datatypes; cvc5 wants plain declare-datatypes).
"""
import z3

_cache = {}


class Kind:
    name = '?'

    def sort(self):
        raise NotImplementedError

    def __repr__(self):
        return self.name

    def __eq__(self, o):
        return isinstance(o, Kind) and self.name == o.name

    def __hash__(self):
        return hash(self.name)


class _Prim(Kind):
    def __init__(self, name, mk):
        self.name = name
        self._mk = mk

    def sort(self):
        return self._mk()


Int = _Prim('Int', z3.IntSort)
Bool = _Prim('Bool', z3.BoolSort)
Str = _Prim('Str', z3.StringSort)
Cls = _Prim('Cls', z3.StringSort)      # a class object, by its dotted name (e.g. 'pathlib.Path', 'taskchain.task:Task')


class PathKind(Kind):
    """pathlib.Path, represented by its POSIX text (normalisation of '..' and '//' is not modelled)."""
    name = 'Path'

    def sort(self):
        return z3.StringSort()


Path = PathKind()


class U(Kind):
    """Uninterpreted universe (opaque values: floats, task results, user objects)."""

    def __init__(self, name, plain=False):
        self.name = name
        self.plain = plain          # plain data: never an instance of a /repo class

    def sort(self):
        k = ('U', self.name)
        if k not in _cache:
            _cache[k] = z3.DeclareSort(self.name)
        return _cache[k]


class Opt(Kind):
    def __init__(self, inner):
        self.inner = inner
        self.name = f'Opt_{inner.name}'

    def sort(self):
        k = ('S', self.name)
        if k not in _cache:
            d = z3.Datatype(self.name)
            d.declare(f'none_{self.inner.name}')
            d.declare(f'some_{self.inner.name}', (f'val_{self.inner.name}', self.inner.sort()))
            _cache[k] = d.create()
        return _cache[k]

    # helpers
    def none(self):
        return getattr(self.sort(), f'none_{self.inner.name}')

    def some(self, t):
        return getattr(self.sort(), f'some_{self.inner.name}')(t)

    def is_none(self, t):
        return getattr(self.sort(), f'is_none_{self.inner.name}')(t)

    def val(self, t):
        return getattr(self.sort(), f'val_{self.inner.name}')(t)


class Tup(Kind):
    def __init__(self, *items):
        self.items = tuple(items)
        self.name = 'Tup_' + '_'.join(i.name for i in items)

    def sort(self):
        k = ('S', self.name)
        if k not in _cache:
            d = z3.Datatype(self.name)
            d.declare(f'mk_{self.name}', *[(f'{self.name}_f{i}', it.sort()) for i, it in enumerate(self.items)])
            _cache[k] = d.create()
        return _cache[k]

    def mk(self, *ts):
        return getattr(self.sort(), f'mk_{self.name}')(*ts)

    def get(self, t, i):
        return getattr(self.sort(), f'{self.name}_f{i}')(t)


class Rec(Kind):
    """Immutable record (an element of a symbolic collection of objects).  `cls` names the /repo class
    (module:Class) whose methods are used when the record is the receiver of a call."""

    def __init__(self, name, fields, cls=None):
        self.name = name
        self.fields = dict(fields)
        self.cls = cls

    def sort(self):
        k = ('S', self.name)
        if k not in _cache:
            d = z3.Datatype(self.name)
            d.declare(f'mk_{self.name}', *[(f'{self.name}__{f}', kd.sort()) for f, kd in self.fields.items()])
            _cache[k] = d.create()
        return _cache[k]

    def mk(self, **kw):
        return getattr(self.sort(), f'mk_{self.name}')(*[kw[f] for f in self.fields])

    def get(self, t, f):
        return getattr(self.sort(), f'{self.name}__{f}')(t)


class Seq(Kind):
    def __init__(self, elem):
        self.elem = elem
        self.name = f'Seq_{elem.name}'

    def sort(self):
        return z3.SeqSort(self.elem.sort())


class Map(Kind):
    """dict: a total array key -> Opt(value) plus the sequence of present keys in insertion order."""

    def __init__(self, key, val):
        self.key = key
        self.val = val
        self.optv = Opt(val)
        self.name = f'Map_{key.name}_{val.name}'

    def sort(self):
        k = ('S', self.name)
        if k not in _cache:
            d = z3.Datatype(self.name)
            d.declare(f'mk_{self.name}',
                      (f'{self.name}_arr', z3.ArraySort(self.key.sort(), self.optv.sort())),
                      (f'{self.name}_keys', z3.SeqSort(self.key.sort())))
            _cache[k] = d.create()
        return _cache[k]

    def mk(self, arr, keys):
        return getattr(self.sort(), f'mk_{self.name}')(arr, keys)

    def arr(self, t):
        return getattr(self.sort(), f'{self.name}_arr')(t)

    def keys(self, t):
        return getattr(self.sort(), f'{self.name}_keys')(t)


class SetOf(Kind):
    """a python set of elem: characteristic array elem -> Bool (iteration order: an unspecified enumeration)"""

    def __init__(self, elem):
        self.elem = elem
        self.name = f'Set_{elem.name}'

    def sort(self):
        return z3.ArraySort(self.elem.sort(), z3.BoolSort())


class DynKind(Kind):
    """The JSON-like dynamic value universe of config/parameter values (mutually recursive datatypes
    with cons-lists: neither solver handles Seq nested inside a recursive datatype)."""
    name = 'Dyn'

    def sort(self):
        return dyn_sorts()[0]


Dyn = DynKind()


class DynListKind(Kind):
    name = 'DynL'

    def sort(self):
        return dyn_sorts()[1]


class DynDictKind(Kind):
    name = 'DynD'

    def sort(self):
        return dyn_sorts()[2]


DynL = DynListKind()
DynD = DynDictKind()


def dyn_sorts():
    if 'dyn' not in _cache:
        J = z3.Datatype('J')
        JL = z3.Datatype('JL')
        JD = z3.Datatype('JD')
        J.declare('JNone')
        J.declare('JBool', ('jbool', z3.BoolSort()))
        J.declare('JInt', ('jint', z3.IntSort()))
        J.declare('JFloat', ('jfloat', z3.IntSort()))         # floats are opaque: an id into an abstract table
        J.declare('JStr', ('jstr', z3.StringSort()))
        J.declare('JRStr', ('jrs_value', z3.StringSort()), ('jrs_orig', z3.StringSort()))
        J.declare('JPath', ('jpath', z3.StringSort()))
        J.declare('JList', ('jlist', JL))
        J.declare('JDict', ('jdict', JD))
        J.declare('JObj', ('jobj_id', z3.IntSort()))      # a ParameterObject: identity into abstract tables
        J.declare('JInst', ('jinst_id', z3.IntSort()))    # an instantiated non-ParameterObject carrying _taskchain_instantiate_repr
        J.declare('JOther', ('jother_id', z3.IntSort()))  # anything else (tuple, set, ...): only repr() is known
        JL.declare('JNil')
        JL.declare('JCons', ('jhead', J), ('jtail', JL))
        JD.declare('JDNil')
        JD.declare('JDCons', ('jdkey', J), ('jdval', J), ('jdtail', JD))
        _cache['dyn'] = z3.CreateDatatypes(J, JL, JD)
    return _cache['dyn']


class Sym:
    """A symbolic value: kind + z3 term."""
    __slots__ = ('kind', 't')

    def __init__(self, kind, t):
        self.kind = kind
        self.t = t

    def __repr__(self):
        return f'<{self.kind.name}: {self.t}>'


_fresh_counter = [0]


def reset_fresh():
    _fresh_counter[0] = 0


def fresh(kind, hint='v'):
    _fresh_counter[0] += 1
    return Sym(kind, z3.Const(f'{hint}!{_fresh_counter[0]}', kind.sort()))


def const(kind, name):
    return Sym(kind, z3.Const(name, kind.sort()))


# ---------------------------------------------------------------------------------------------
# model decoding: z3 model value -> plain Python data (used for replays and evidence samples)
# ---------------------------------------------------------------------------------------------

def decode(model, kind, term, depth=0):
    """Evaluate `term` in `model` and turn it into Python data according to `kind`."""
    v = model.eval(term, model_completion=True)
    return decode_value(model, kind, v, depth)


def _seq_items(model, v, maxn=64):
    n = model.eval(z3.Length(v), model_completion=True)
    try:
        n = n.as_long()
    except Exception:
        return None
    if n > maxn:
        n = maxn
    return [model.eval(v[i], model_completion=True) for i in range(n)]


def decode_value(model, kind, v, depth=0):
    if depth > 40:
        return '<deep>'
    if kind is Int or kind.name == 'Int':
        try:
            return v.as_long()
        except Exception:
            return str(v)
    if kind.name == 'Bool':
        return z3.is_true(v)
    if kind.name in ('Str', 'Path', 'Cls'):
        try:
            s = v.as_string()
            return _unescape(s)
        except Exception:
            return str(v)
    if isinstance(kind, U):
        return f'{kind.name}:{v}'
    if isinstance(kind, Opt):
        if z3.is_true(model.eval(kind.is_none(v), model_completion=True)):
            return None
        return decode_value(model, kind.inner, model.eval(kind.val(v), model_completion=True), depth + 1)
    if isinstance(kind, Tup):
        return tuple(decode_value(model, k, model.eval(kind.get(v, i), model_completion=True), depth + 1)
                     for i, k in enumerate(kind.items))
    if isinstance(kind, Rec):
        return {'__rec__': kind.name,
                **{f: decode_value(model, k, model.eval(kind.get(v, f), model_completion=True), depth + 1)
                   for f, k in kind.fields.items()}}
    if isinstance(kind, Seq):
        items = _seq_items(model, v)
        if items is None:
            return str(v)
        return [decode_value(model, kind.elem, it, depth + 1) for it in items]
    if isinstance(kind, Map):
        keys = _seq_items(model, model.eval(kind.keys(v), model_completion=True))
        arr = model.eval(kind.arr(v), model_completion=True)
        out = []
        for k in keys or []:
            ov = model.eval(z3.Select(arr, k), model_completion=True)
            out.append((decode_value(model, kind.key, k, depth + 1), decode_value(model, kind.optv, ov, depth + 1)))
        return {'__map__': out}
    if kind.name == 'Dyn':
        return _decode_dyn(model, v, depth)
    if kind.name == 'DynL':
        return _decode_dynl(model, v, depth)
    return str(v)


def _unescape(s):
    # z3 prints non-ASCII / special characters as \u{..}
    import re
    return re.sub(r'\\u\{([0-9a-fA-F]+)\}', lambda m: chr(int(m.group(1), 16)), s)


def _decode_dynl(model, v, depth):
    J, JL, JD = dyn_sorts()
    out = []
    n = 0
    while n < 32:
        v = model.eval(v, model_completion=True)
        if z3.is_true(model.eval(JL.is_JNil(v), model_completion=True)):
            break
        out.append(_decode_dyn(model, model.eval(JL.jhead(v), model_completion=True), depth + 1))
        v = JL.jtail(v)
        n += 1
    return out


def _decode_dyn(model, v, depth):
    J, JL, JD = dyn_sorts()
    ev = lambda t: model.eval(t, model_completion=True)
    is_ = lambda c: z3.is_true(ev(getattr(J, 'is_' + c)(v)))
    if depth > 12:
        return None
    if is_('JNone'):
        return None
    if is_('JBool'):
        return z3.is_true(ev(J.jbool(v)))
    if is_('JInt'):
        return ev(J.jint(v)).as_long()
    if is_('JFloat'):
        return {'__float__': str(ev(J.jfloat(v)))}
    if is_('JStr'):
        return _unescape(ev(J.jstr(v)).as_string())
    if is_('JRStr'):
        return {'__reprstr__': [_unescape(ev(J.jrs_value(v)).as_string()), _unescape(ev(J.jrs_orig(v)).as_string())]}
    if is_('JPath'):
        return {'__path__': _unescape(ev(J.jpath(v)).as_string())}
    if is_('JList'):
        return _decode_dynl(model, ev(J.jlist(v)), depth + 1)
    if is_('JDict'):
        out = []
        d = ev(J.jdict(v))
        n = 0
        while n < 32:
            d = ev(d)
            if z3.is_true(ev(JD.is_JDNil(d))):
                break
            out.append([_decode_dyn(model, ev(JD.jdkey(d)), depth + 1), _decode_dyn(model, ev(JD.jdval(d)), depth + 1)])
            d = JD.jdtail(d)
            n += 1
        return {'__dict__': out}
    if is_('JObj'):
        return {'__obj__': ev(J.jobj_id(v)).as_long()}
    if is_('JInst'):
        return {'__inst__': ev(J.jinst_id(v)).as_long()}
    return {'__other__': ev(J.jother_id(v)).as_long()}
