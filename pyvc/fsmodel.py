"""Ghost file system (A-fs) and pathlib (A-path) models.

FS state: three arrays over path texts: kind (0 absent / 1 file / 2 directory), content (opaque ids),
complete (a file that has been written to the end and closed; directories: fully populated / published).
Every operation appends an event `fs.<op>` to the ghost trace and takes a snapshot (label, state) so that
crash invariants can be asserted after every file-system event.
"""
import z3
from . import kinds as K
from .kinds import Sym
from .values import *
from . import pyops as P
from .pyops2 import ExtObj

ABSENT, FILE, DIR = 0, 1, 2


class GhostFS(ExtObj):
    def __init__(self, run, name='fs'):
        S = z3.StringSort()
        self.kind = z3.Array(f'{name}_kind', S, z3.IntSort())
        self.content = z3.Array(f'{name}_content', S, z3.IntSort())
        self.complete = z3.Array(f'{name}_complete', S, z3.BoolSort())
        self.snaps = []
        self.nops = 0

    def clone(self):
        g = GhostFS.__new__(GhostFS)
        g.kind, g.content, g.complete = self.kind, self.content, self.complete
        g.snaps = []
        g.nops = self.nops
        return g

    # ---- queries usable from clauses
    def m_exists(self, ex, p):
        return Sym(K.Bool, z3.Select(self.kind, ptext(ex, p)) != ABSENT)

    def m_is_file(self, ex, p):
        return Sym(K.Bool, z3.Select(self.kind, ptext(ex, p)) == FILE)

    def m_is_dir(self, ex, p):
        return Sym(K.Bool, z3.Select(self.kind, ptext(ex, p)) == DIR)

    def m_complete(self, ex, p):
        return Sym(K.Bool, z3.Select(self.complete, ptext(ex, p)))

    def m_content(self, ex, p):
        return Sym(K.Int, z3.Select(self.content, ptext(ex, p)))

    def m_same_at(self, ex, other, p):
        t = ptext(ex, p)
        return Sym(K.Bool, z3.And(z3.Select(self.kind, t) == z3.Select(other.kind, t),
                                  z3.Select(self.content, t) == z3.Select(other.content, t),
                                  z3.Select(self.complete, t) == z3.Select(other.complete, t)))

    def m_same_except(self, ex, other, *paths):
        """every path other than the listed ones has the same state in both file systems"""
        x = z3.String('fs_x')
        excl = [x == ptext(ex, p) for p in paths]
        body = z3.And(z3.Select(self.kind, x) == z3.Select(other.kind, x),
                      z3.Select(self.content, x) == z3.Select(other.content, x),
                      z3.Select(self.complete, x) == z3.Select(other.complete, x))
        return Sym(K.Bool, z3.ForAll([x], z3.Or(*excl, body) if excl else body))

    def m_same_outside(self, ex, other, paths):
        """every path that is not a member of the sequence `paths` has the same state in both file systems"""
        x = z3.String('fs_x')
        from . import loops
        ps = loops.as_seq(ex, paths)
        if isinstance(ps, list):
            ps = Sym(K.Seq(K.Path), P.seq_of(ex, [ptext(ex, p_) for p_ in ps], K.Seq(K.Path))) if ps else Sym(K.Seq(K.Path), z3.Empty(z3.SeqSort(z3.StringSort())))
        body = z3.And(z3.Select(self.kind, x) == z3.Select(other.kind, x),
                      z3.Select(self.content, x) == z3.Select(other.content, x),
                      z3.Select(self.complete, x) == z3.Select(other.complete, x))
        return Sym(K.Bool, z3.ForAll([x], z3.Or(z3.Contains(ps.t, z3.Unit(x)), body)))

    def a_snapshots(self, ex):
        return tuple(s for _, s in self.snaps)

    def a_ops(self, ex):
        return self.nops


def ptext(ex, p):
    if isinstance(p, Sym) and p.kind in (K.Path, K.Str):
        return p.t
    if isinstance(p, str):
        return z3.StringVal(p)
    raise OutOfSubset(f'path expected, got {p!r}')


def fs_of(ex):
    g = ex.run.ghost.get('fs')
    if g is None:
        g = GhostFS(ex.run)
        ex.run.ghost['fs'] = g
        ex.run.ghost['fs0'] = g.clone()
        x = z3.String('fs_wf_x')
        ex.run.axiom(z3.ForAll([x], z3.And(z3.Select(g.kind, x) >= 0, z3.Select(g.kind, x) <= 2)), 'A-fs')
    return g


def fs_event(ex, op, args, label=None):
    run = ex.run
    g = fs_of(ex)
    g.nops += 1
    run.trace.append(Event(f'fs.{op}', None, args, 'ret'))
    snap = g.clone()
    g.snaps.append((label or op, snap))
    run.ghost.setdefault('fs_snaps', []).append((f'{op}#{g.nops}', list(run.pc), snap, list(run.tags)))


def may_fail(ex, op, exc='OSError'):
    """Every file-system operation may fail (fault injection point) when the contract asks for it."""
    if ex.run.ghost.get('fs_faults'):
        if ex.run.choose(2, tag=f'fs.{op}', labels=['ok', 'fails']) == 1:
            raise RaiseEx(ExcVal(exc, origin=f'fs.{op}'))


def set_state(g, t, kind=None, content=None, complete=None):
    if kind is not None:
        g.kind = z3.Store(g.kind, t, kind if not isinstance(kind, int) else z3.IntVal(kind))
    if content is not None:
        g.content = z3.Store(g.content, t, content)
    if complete is not None:
        g.complete = z3.Store(g.complete, t, complete if not isinstance(complete, bool) else z3.BoolVal(complete))


# ---------------------------------------------------------------------------------------------
# pathlib.Path attributes and methods
# ---------------------------------------------------------------------------------------------

def puf(name, rng=None):
    return P.ufn(name, [z3.StringSort()], rng or z3.StringSort())


def path_attr(ex, p, name):
    run = ex.run
    t = p.t
    run.assumed.add('A-path')
    if name == 'parent':
        return Sym(K.Path, path_parent(ex, t))
    if name == 'name':
        return Sym(K.Str, path_name(ex, t))
    if name == 'stem':
        return Sym(K.Str, puf('path_stem')(path_name(ex, t)))
    if name == 'suffix':
        return Sym(K.Str, puf('path_suffix')(path_name(ex, t)))
    meths = {
        'exists': lambda ex_, a, k: p_exists(ex, p),
        'is_file': lambda ex_, a, k: fs_query(ex, p, FILE),
        'is_dir': lambda ex_, a, k: fs_query(ex, p, DIR),
        'is_symlink': lambda ex_, a, k: Sym(K.Bool, P.ufn('fs_is_symlink', [z3.StringSort(), z3.IntSort()], z3.BoolSort())(t, z3.IntVal(fs_of(ex).nops))),
        'mkdir': lambda ex_, a, k: p_mkdir(ex, p, **k),
        'unlink': lambda ex_, a, k: p_unlink(ex, p),
        'open': lambda ex_, a, k: p_open(ex, p, *a, **k),
        'glob': lambda ex_, a, k: p_glob(ex, p, *a),
        'iterdir': lambda ex_, a, k: p_glob(ex, p, '*'),
        'stat': lambda ex_, a, k: StatObj(ex, p),
        'relative_to': lambda ex_, a, k: Sym(K.Path, P.ufn('path_relative_to', [z3.StringSort(), z3.StringSort()], z3.StringSort())(t, ptext(ex, a[0]))),
        'symlink_to': lambda ex_, a, k: p_symlink(ex, p, *a),
        '__str__': lambda ex_, a, k: Sym(K.Str, t),
    }
    if name in meths:
        return Builtin(f'Path.{name}', meths[name])
    raise OutOfSubset(f'Path.{name}')


def path_parent(ex, t):
    f = puf('path_parent')
    # instance: a path built as base / seg (seg without '/') has parent base
    for base, seg in path_join_parts(t):
        ex.run.axiom(z3.Implies(z3.Not(z3.Contains(seg, z3.StringVal('/'))), f(t) == base))
    return f(t)


def path_name(ex, t):
    f = puf('path_name')
    for base, seg in path_join_parts(t):
        ex.run.axiom(z3.Implies(z3.Not(z3.Contains(seg, z3.StringVal('/'))), f(t) == seg))
    return f(t)


def path_join_parts(t):
    """If t is syntactically Concat(base, "/", seg...) return [(base, seg)]."""
    out = []
    if z3.is_app(t) and t.decl().kind() == z3.Z3_OP_SEQ_CONCAT:
        ch = t.children()
        for i in range(len(ch) - 1, 0, -1):
            c = ch[i]
            if z3.is_string_value(c) and c.as_string() == '/':
                base = ch[0] if i == 1 else z3.Concat(*ch[:i])
                rest = ch[i + 1:]
                if rest:
                    seg = rest[0] if len(rest) == 1 else z3.Concat(*rest)
                    out.append((base, seg))
                break
    return out


class StatObj(ExtObj):
    def __init__(self, ex, p):
        self.p = p

    def a_st_size(self, ex):
        g = fs_of(ex)
        return Sym(K.Int, P.ufn('content_size', [z3.IntSort()], z3.IntSort())(z3.Select(g.content, self.p.t)))


def p_exists(ex, p):
    g = fs_of(ex)
    ex.run.trace.append(Event('fs.exists', None, [p], 'ret'))
    return Sym(K.Bool, z3.Select(g.kind, p.t) != ABSENT)


def fs_query(ex, p, kind):
    g = fs_of(ex)
    return Sym(K.Bool, z3.Select(g.kind, p.t) == kind)


def p_mkdir(ex, p, parents=False, exist_ok=False, **kw):
    run = ex.run
    g = fs_of(ex)
    may_fail(ex, 'mkdir')
    exists = z3.Select(g.kind, p.t) != ABSENT
    if run.decide(exists, tag='mkdir_exists'):
        if not ex.truth(exist_ok):
            raise RaiseEx(ExcVal('FileExistsError', origin='mkdir'))
        if not run.decide(z3.Select(g.kind, p.t) == DIR, tag='mkdir_isdir'):
            raise RaiseEx(ExcVal('FileExistsError', origin='mkdir over a file'))
        # an existing directory: nothing changes
        fs_event(ex, 'mkdir', [p], 'mkdir(existing)')
        return None
    set_state(g, p.t, kind=DIR, content=z3.IntVal(0), complete=True)
    fs_event(ex, 'mkdir', [p])
    return None


def p_unlink(ex, p):
    run = ex.run
    g = fs_of(ex)
    may_fail(ex, 'unlink')
    if not run.decide(z3.Select(g.kind, p.t) != ABSENT, tag='unlink_exists'):
        raise RaiseEx(ExcVal('FileNotFoundError', origin='unlink'))
    set_state(g, p.t, kind=ABSENT)
    fs_event(ex, 'unlink', [p])


class FileHandle(ExtObj):
    def __init__(self, ex, p, mode):
        self.p = p
        self.mode = mode
        self.closed = False
        ex.run.ghost.setdefault('open_handles', []).append(self)

    def a_name(self, ex):
        return Sym(K.Str, self.p.t)

    def m_write(self, ex, data):
        if 'w' not in self.mode and 'a' not in self.mode:
            raise RaiseEx(ExcVal('OSError', origin='write to read-only handle'))
        g = fs_of(ex)
        may_fail(ex, 'write')
        old = z3.Select(g.content, self.p.t)
        new = P.ufn('content_append', [z3.IntSort(), z3.StringSort()], z3.IntSort())(old, data_text(ex, data))
        set_state(g, self.p.t, content=new, complete=False)
        fs_event(ex, 'write', [self.p, data])

    def m_read(self, ex):
        g = fs_of(ex)
        ex.run.trace.append(Event('fs.read', None, [self.p], 'ret'))
        return Sym(K.Str, P.ufn('content_text', [z3.IntSort()], z3.StringSort())(z3.Select(g.content, self.p.t)))

    def m_readlines(self, ex):
        g = fs_of(ex)
        ex.run.trace.append(Event('fs.read', None, [self.p], 'ret'))
        return Sym(K.Seq(K.Str), P.ufn('content_lines', [z3.IntSort()], z3.SeqSort(z3.StringSort()))(z3.Select(g.content, self.p.t)))

    def m_close(self, ex):
        self.exit(ex)

    def iter_seq(self, ex):
        """iterating a text file yields its lines (A-fs)"""
        return self.m_readlines(ex)

    def enter(self, ex):
        return self

    def exit(self, ex):
        if self.closed:
            return
        self.closed = True
        if 'w' in self.mode or 'a' in self.mode:
            g = fs_of(ex)
            set_state(g, self.p.t, complete=True)
            fs_event(ex, 'close', [self.p])


def data_text(ex, data):
    if P.is_str(data):
        return P.str_t(ex, data)
    if isinstance(data, Sym):
        return P.str_t(ex, P.py_str(ex, data))
    raise OutOfSubset(f'write of {data!r}')


def p_open(ex, p, mode='r', **kw):
    run = ex.run
    g = fs_of(ex)
    if not isinstance(mode, str):
        raise OutOfSubset('symbolic open mode')
    may_fail(ex, 'open')
    if 'w' in mode:
        # create-or-truncate: the path exists at once, empty and incomplete
        set_state(g, p.t, kind=FILE, content=z3.IntVal(0), complete=False)
        fs_event(ex, 'open_w', [p])
    elif 'a' in mode:
        set_state(g, p.t, kind=FILE, complete=False)
        fs_event(ex, 'open_a', [p])
    elif '+' in mode:
        fs_event(ex, 'open_rw', [p])
    else:
        if not run.decide(z3.Select(g.kind, p.t) == FILE, tag='open_exists'):
            raise RaiseEx(ExcVal('FileNotFoundError', origin='open'))
        run.trace.append(Event('fs.open_r', None, [p], 'ret'))
    return FileHandle(ex, p, mode)


def p_glob(ex, p, pattern='*'):
    run = ex.run
    g = fs_of(ex)
    if not isinstance(pattern, str):
        raise OutOfSubset('symbolic glob pattern')
    run.assumed.add('A-fs')
    run.trace.append(Event('fs.glob', None, [p, pattern], 'ret'))
    f = P.ufn('fs_glob_' + ''.join(c if c.isalnum() else '_' for c in pattern), [z3.StringSort(), z3.IntSort()], z3.SeqSort(z3.StringSort()))
    r = f(p.t, z3.Select(g.content, p.t))
    return Sym(K.Seq(K.Path), r)


def p_symlink(ex, p, target, *a):
    g = fs_of(ex)
    set_state(g, p.t, kind=FILE, complete=True)
    fs_event(ex, 'symlink', [p, target])


# ---------------------------------------------------------------------------------------------
# shutil
# ---------------------------------------------------------------------------------------------

def as_path(ex, v):
    if isinstance(v, Sym) and v.kind == K.Path:
        return v
    if P.is_str(v):
        return Sym(K.Path, P.str_t(ex, v))
    raise OutOfSubset(f'path-like expected, got {v!r}')


def sh_move(ex, a, b):
    """shutil.move within one file system = rename: atomic; the destination takes the source's state."""
    run = ex.run
    g = fs_of(ex)
    a, b = as_path(ex, a), as_path(ex, b)
    may_fail(ex, 'move')
    if not run.decide(z3.Select(g.kind, a.t) != ABSENT, tag='move_src_exists'):
        raise RaiseEx(ExcVal('FileNotFoundError', origin='move'))
    k, c, cm = z3.Select(g.kind, a.t), z3.Select(g.content, a.t), z3.Select(g.complete, a.t)
    set_state(g, b.t, kind=k, content=c, complete=cm)
    set_state(g, a.t, kind=ABSENT)
    fs_event(ex, 'move', [a, b])


def sh_rmtree(ex, p, ignore_errors=False, **kw):
    """Not atomic: while it runs the tree is partially deleted (state: directory, incomplete)."""
    run = ex.run
    g = fs_of(ex)
    p = as_path(ex, p)
    if not run.decide(z3.Select(g.kind, p.t) != ABSENT, tag='rmtree_exists'):
        if ex.truth(ignore_errors):
            return
        raise RaiseEx(ExcVal('FileNotFoundError', origin='rmtree'))
    may_fail(ex, 'rmtree')
    set_state(g, p.t, complete=False)
    fs_event(ex, 'rmtree_partial', [p], 'rmtree in progress')
    set_state(g, p.t, kind=ABSENT)
    fs_event(ex, 'rmtree', [p])


def sh_copy(ex, a, b, what='copyfile', dirs_exist_ok=False):
    run = ex.run
    g = fs_of(ex)
    a, b = as_path(ex, a), as_path(ex, b)
    may_fail(ex, what)
    if not run.decide(z3.Select(g.kind, a.t) != ABSENT, tag='copy_src_exists'):
        raise RaiseEx(ExcVal('FileNotFoundError', origin=what))
    if what != 'copytree' and run.decide(a.t == b.t, tag='copy_same_file'):
        raise RaiseEx(ExcVal('SameFileError', origin=what))
    if what == 'copytree' and run.decide(z3.Select(g.kind, b.t) != ABSENT, tag='copytree_dst_exists'):
        if not ex.truth(dirs_exist_ok):
            raise RaiseEx(ExcVal('FileExistsError', origin='copytree'))
        # merge into the existing tree: the result is NOT the source tree
        merged = P.ufn('tree_merge', [z3.IntSort(), z3.IntSort()], z3.IntSort())(z3.Select(g.content, b.t), z3.Select(g.content, a.t))
        set_state(g, b.t, content=merged, complete=False)
        fs_event(ex, what + '_partial', [a, b], 'copy in progress')
        set_state(g, b.t, complete=True)
        fs_event(ex, what, [a, b])
        return
    set_state(g, b.t, kind=z3.Select(g.kind, a.t), content=z3.IntVal(0), complete=False)
    fs_event(ex, what + '_partial', [a, b], 'copy in progress')
    set_state(g, b.t, content=z3.Select(g.content, a.t), complete=True)
    fs_event(ex, what, [a, b])


def write_in_place(ex, op, p, value_id):
    """A library writer given a final path (np.save, to_pickle, savefig): open-truncate, write, close."""
    g = fs_of(ex)
    p = as_path(ex, p)
    may_fail(ex, op)
    set_state(g, p.t, kind=FILE, content=z3.IntVal(0), complete=False)
    fs_event(ex, f'{op}_open', [p], f'{op}: file created, nothing written')
    if ex.run.ghost.get('fs_faults') or ex.run.ghost.get('serializer_may_raise'):
        if ex.run.choose(2, tag=f'{op}.serialize', labels=['ok', 'raises']) == 1:
            raise RaiseEx(ExcVal('Opaque', origin=f'{op}.serialize', payload=ex.run.fresh(K.U('Exc'), 'exc')))
    set_state(g, p.t, content=value_id, complete=True)
    fs_event(ex, op, [p])


def close_all(ex):
    """A-refcount: a file object that is only a temporary / local of the verified function is closed (flushed)
    by CPython's reference counting when the function returns or unwinds."""
    for h in ex.run.ghost.get('open_handles', []):
        if not h.closed:
            h.exit(ex)
