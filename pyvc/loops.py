"""Loops, comprehensions and sequence combinators.

* concrete spine  -> unrolled
* symbolic length -> `for` needs a loop contract (invariant) ; comprehensions / any / all / join / sorted
  become combinator symbols (uninterpreted functions keyed by the *symbolic* element function) with
  definitional axioms; so `code == spec` is mostly congruence plus one unfolding.
"""
import ast
import z3
from . import kinds as K
from .kinds import Sym
from .values import *
from . import pyops as P


# =============================================================================================
# turning iterables into sequences
# =============================================================================================

def as_seq(ex, v):
    """Return python list (concrete spine) or Sym of kind Seq."""
    run = ex.run
    if isinstance(v, GenView):
        return v.materialise(ex)
    if isinstance(v, (tuple, list)):
        return list(v)
    if isinstance(v, Sym):
        k = v.kind
        if isinstance(k, K.Seq):
            return v
        if isinstance(k, K.Map):
            return map_view(ex, v, 'keys')
        if isinstance(k, K.SetOf):
            return set_elems(ex, v)
        if k == K.Dyn:
            J, JL, JD = K.dyn_sorts()
            if run.decide(J.is_JList(v.t)):
                return Sym(K.Seq(K.Dyn), P.dyn_elems(ex, J.jlist(v.t)))
            raise RaiseEx(ExcVal('TypeError', origin='iteration over non-list config value'))
        if k == K.DynL:
            return Sym(K.Seq(K.Dyn), P.dyn_elems(ex, v.t))
        if isinstance(k, K.Opt):
            if run.decide(k.is_none(v.t)):
                raise RaiseEx(ExcVal('TypeError', origin='iteration over None'))
            return as_seq(ex, Sym(k.inner, k.val(v.t)))
    if isinstance(v, Ref):
        c = run.cell(v)
        if isinstance(c, HList):
            return list(c.items) if c.items is not None else c.sym
        if isinstance(c, HDict):
            if c.items is not None:
                return list(c.items.keys())
            return map_view(ex, c.sym, 'keys')
        if isinstance(c, HSet) and c.items is not None:
            return list(c.items)
        if isinstance(c, HSet) and c.sym is not None:
            return set_elems(ex, c.sym)
        if isinstance(c, HObj) and not isinstance(c.cls, tuple):
            if c.cls.is_subclass_of(('ext', 'builtins.dict')):
                return as_seq(ex, c.ghost['basedict'])
        if isinstance(c, AbstractObj):
            r = P.abstract_call(ex, v, '__iter__', [], {})
            return as_seq(ex, r)
    if isinstance(v, P.IterView):
        return view_seq(ex, v)
    if isinstance(v, str):
        return list(v)
    if hasattr(v, 'iter_seq'):
        return v.iter_seq(ex)
    raise OutOfSubset(f'cannot iterate {v!r}')


def map_of(ex, base):
    if isinstance(base, Sym) and isinstance(base.kind, K.Map):
        return base
    if isinstance(base, Ref):
        c = ex.run.cell(base)
        if isinstance(c, HDict) and c.sym is not None:
            return c.sym
        if isinstance(c, HObj) and not isinstance(c.cls, tuple) and c.cls.is_subclass_of(('ext', 'builtins.dict')):
            return map_of(ex, c.ghost['basedict'])
    return None


def map_view(ex, m, which):
    """items()/keys()/values() of a symbolic map as sequences (A-dict: insertion order, distinct keys)."""
    run = ex.run
    k = m.kind
    keys = k.keys(m.t)
    arr = k.arr(m.t)
    run.assumed.add('A-dict')
    wf_map(ex, m)
    if which == 'keys':
        return Sym(K.Seq(k.key), keys)
    i = z3.Int('mv_i')
    n = z3.Length(keys)
    if which == 'values':
        sk = K.Seq(k.val)
        f = P.ufn(f'values_{k.name}', [k.sort()], sk.sort())
        r = f(m.t)
        run.axiom(z3.Length(r) == n)
        run.axiom(P.forall([i], z3.Implies(z3.And(i >= 0, i < n), r[i] == k.optv.val(z3.Select(arr, keys[i]))), patterns=[r[i]]))
        return Sym(sk, r)
    tk = K.Tup(k.key, k.val)
    sk = K.Seq(tk)
    f = P.ufn(f'items_{k.name}', [k.sort()], sk.sort())
    r = f(m.t)
    run.axiom(z3.Length(r) == n)
    run.axiom(P.forall([i], z3.Implies(z3.And(i >= 0, i < n),
                                         r[i] == tk.mk(keys[i], k.optv.val(z3.Select(arr, keys[i])))), patterns=[r[i]]))
    run.ghost.setdefault('_items', {})[r.sexpr()] = (k, m.t, tk)
    idx = P.ufn(f'key_index_{k.name}', [k.sort(), k.key.sort()], z3.IntSort())
    x = z3.Const(f'mv_k_{k.key.name}', k.key.sort())
    run.axiom(P.forall([x], z3.Implies(z3.Not(k.optv.is_none(z3.Select(arr, x))),
                                         r[idx(m.t, x)] == tk.mk(x, k.optv.val(z3.Select(arr, x)))), patterns=[z3.Select(arr, x)]))
    return Sym(sk, r)


def wf_map(ex, m):
    """Well-formedness of a symbolic dict: keys sequence = exactly the present keys, without repetition."""
    run = ex.run
    done = run.ghost.setdefault('_wf_maps', set())
    key = str(m.t)
    if key in done:
        return
    done.add(key)
    k = m.kind
    keys = k.keys(m.t)
    arr = k.arr(m.t)
    x = z3.Const(f'wf_k_{k.key.name}', k.key.sort())
    run.axiom(P.forall([x], z3.Contains(keys, z3.Unit(x)) == z3.Not(k.optv.is_none(z3.Select(arr, x))),
                         patterns=[z3.Select(arr, x)]))
    i, j = z3.Ints('wf_i wf_j')
    run.axiom(P.forall([i, j], z3.Implies(z3.And(i >= 0, i < j, j < z3.Length(keys)), keys[i] != keys[j]),
                         patterns=[P.mpat(keys[i], keys[j])]))
    run.axiom(P.forall([i], z3.Implies(z3.And(i >= 0, i < z3.Length(keys)),
                                         z3.Not(k.optv.is_none(z3.Select(arr, keys[i])))), patterns=[keys[i]]))
    # every present key sits at some position of the key order (Skolem function)
    idx = P.ufn(f'key_index_{k.name}', [k.sort(), k.key.sort()], z3.IntSort())
    run.axiom(P.forall([x], z3.Implies(z3.Not(k.optv.is_none(z3.Select(arr, x))),
                                         z3.And(idx(m.t, x) >= 0, idx(m.t, x) < z3.Length(keys), keys[idx(m.t, x)] == x)),
                       patterns=[z3.Select(arr, x)]))


def view_seq(ex, view):
    run = ex.run
    kind = view.kind
    if kind in ('items', 'keys', 'values'):
        m = map_of(ex, view.base)
        if m is None:
            return view.concrete(ex)
        return map_view(ex, m, kind)
    if kind == 'enumerate':
        base = as_seq(ex, view.base)
        start = view.extra or 0
        if isinstance(base, list):
            return [(i + start, x) for i, x in enumerate(base)]
        tk = K.Tup(K.Int, base.kind.elem)
        sk = K.Seq(tk)
        f = P.ufn(f'enumerate_{base.kind.name}', [base.kind.sort(), z3.IntSort()], sk.sort())
        st = P.int_t(ex, start)
        r = f(base.t, st)
        i = z3.Int('en_i')
        run.axiom(z3.Length(r) == z3.Length(base.t))
        run.axiom(P.forall([i], z3.Implies(z3.And(i >= 0, i < z3.Length(base.t)), r[i] == tk.mk(i + st, base.t[i])), patterns=[r[i]]))
        run.ghost.setdefault('_enum', {})[r.sexpr()] = (tk, st, base.t)
        return Sym(sk, r)
    if kind == 'reversed':
        base = as_seq(ex, view.base)
        if isinstance(base, list):
            return list(reversed(base))
        return P.seq_reverse(ex, base)
    if kind == 'zip':
        bases = [as_seq(ex, b) for b in view.base]
        if all(isinstance(b, list) for b in bases):
            return list(zip(*bases))
        raise OutOfSubset('zip over symbolic sequences')
    if kind == 'seq':
        return as_seq(ex, view.base)
    raise OutOfSubset(f'view {kind}')


def to_list(ex, v):
    s = as_seq(ex, v)
    if isinstance(s, list):
        return ex.run.alloc(HList(items=list(s)))
    return ex.run.alloc(HList(sym=s))


# =============================================================================================
# sorted (A-sorted)
# =============================================================================================

def sorted_(ex, v, key=None, reverse=False):
    run = ex.run
    s = as_seq(ex, v)
    if isinstance(s, list):
        # concrete spine: sort only if all keys concrete
        try:
            if key is None:
                if all(isinstance(x, (int, str)) or (isinstance(x, tuple) and all(isinstance(y, (int, str)) for y in x)) for x in s):
                    return run.alloc(HList(items=sorted(s, reverse=bool(reverse))))
                if all(isinstance(x, tuple) and isinstance(x[0], (int, str)) for x in s) and len({x[0] for x in s}) == len(s):
                    return run.alloc(HList(items=sorted(s, key=lambda x: x[0], reverse=bool(reverse))))
            if len(s) <= 1:
                return run.alloc(HList(items=list(s)))
        except TypeError:
            pass
        if not s:
            return run.alloc(HList(items=[]))
        kd = P.kind_of(ex, s[0])
        s = Sym(K.Seq(kd), P.seq_of(ex, [P.lift(ex, x, kd) for x in s], K.Seq(kd)))
    if reverse:
        raise OutOfSubset('sorted(reverse=True) on symbolic sequence')
    run.assumed.add('A-sorted')
    k = s.kind
    keyname = 'id'
    if key is not None:
        x = run.fresh(k.elem, 'sk')
        kv = ex.call(key, [x], {})
        keyname = comb_key(ex, [x], kv)
    f = P.ufn(f'sorted_{k.name}_{keyname}', [k.sort()], k.sort())
    r = f(s.t)
    n = z3.Length(s.t)
    run.axiom(z3.Length(r) == n)
    e = z3.Const(f'srt_e_{k.elem.name}', k.elem.sort())
    run.axiom(P.forall([e], z3.Contains(r, z3.Unit(e)) == z3.Contains(s.t, z3.Unit(e)), patterns=[z3.Contains(r, z3.Unit(e))]))
    run.axiom(z3.Implies(n == 0, r == s.t))
    run.axiom(z3.Implies(n == 1, r == s.t))
    # ordering axiom on the key
    i, j = z3.Ints('srt_i srt_j')

    def keyterm(t):
        if key is None:
            if isinstance(k.elem, K.Tup):
                return k.elem.get(t, 0), k.elem.items[0]
            return t, k.elem
        kv2 = ex.call(key, [Sym(k.elem, t)], {})
        return P.lift(ex, kv2, P.kind_of(ex, kv2)), P.kind_of(ex, kv2)
    try:
        ki, kk = keyterm(r[i])
        kj, _ = keyterm(r[j])
        if kk in (K.Int,):
            le = ki <= kj
        elif kk == K.Str:
            le = ki <= kj
        else:
            le = None
        if le is not None:
            run.axiom(P.forall([i, j], z3.Implies(z3.And(i >= 0, i < j, j < n), le), patterns=[P.mpat(r[i], r[j])]))
    except OutOfSubset:
        pass
    return run.alloc(HList(sym=Sym(k, r)))


# =============================================================================================
# combinators
# =============================================================================================

_AC_KINDS = None


def canon_text(t, cache=None):
    """Text of a term that does not depend on z3's argument order for commutative operators (which follows term
    creation order): children of and / or / + / * / = / distinct are sorted by their own canonical text."""
    global _AC_KINDS
    if _AC_KINDS is None:
        _AC_KINDS = {z3.Z3_OP_AND, z3.Z3_OP_OR, z3.Z3_OP_ADD, z3.Z3_OP_MUL, z3.Z3_OP_EQ, z3.Z3_OP_DISTINCT, z3.Z3_OP_IFF}
    import os as _os
    if _os.environ.get('PYVC_NO_CANON'):
        return t.sexpr()
    if cache is None:
        cache = {}
    i = t.get_id()
    r = cache.get(i)
    if r is not None:
        return r
    if z3.is_quantifier(t):
        r = ('A' if t.is_forall() else 'E') + '[' + ','.join(str(t.var_sort(j)) for j in range(t.num_vars())) + ':' + canon_text(t.body(), cache) + ']'
    elif z3.is_app(t) and t.num_args() > 0:
        d = t.decl()
        kids = t.children()
        if d.kind() in (z3.Z3_OP_SEQ_CONCAT, z3.Z3_OP_AND, z3.Z3_OP_OR, z3.Z3_OP_ADD, z3.Z3_OP_MUL):
            # associative: nested applications of the same operator are flattened (as z3's own printer does)
            flat = []
            work = list(kids)
            while work:
                c = work.pop(0)
                if z3.is_app(c) and c.num_args() > 0 and c.decl().kind() == d.kind() and c.sort().eq(t.sort()):
                    work = c.children() + work
                else:
                    flat.append(c)
            kids = flat
        args = [canon_text(c, cache) for c in kids]
        if d.kind() in _AC_KINDS:
            args.sort()
        ps = ''
        try:
            ps = ','.join(str(p) for p in d.params())
        except Exception:
            ps = ''
        r = '(' + d.name() + (('{' + ps + '}') if ps else '') + ' ' + ' '.join(args) + ')'
    else:
        r = t.sexpr()
    cache[i] = r
    return r


class PFn:
    """A combinator symbol applied to the enclosing comprehension variables it captures: F(seq, *captured).  Captured
    variables are explicit arguments, so the SAME element function evaluated twice (fresh bound-variable names each
    time) gets the same symbol, and different captured values give different applications of it."""

    def __init__(self, F, frees):
        self.F = F
        self.frees = list(frees)

    def __call__(self, st):
        return self.F(st, *self.frees)

    def name(self):
        import hashlib
        if not self.frees:
            return self.F.name()
        return self.F.name() + '_' + hashlib.sha256('|'.join(f.sexpr() for f in self.frees).encode()).hexdigest()[:8]

    def eq(self, other):
        return isinstance(other, PFn) and self.F.eq(other.F) and len(self.frees) == len(other.frees) and \
            all(z3.eq(a, b) for a, b in zip(self.frees, other.frees))

    def __str__(self):
        return self.name()


def captured_locals(bound, *terms):
    """enclosing comprehension / fold variables occurring in the terms, other than the combinator's own bound ones"""
    frees = []
    seen = set()
    for t in terms:
        if t is not None:
            _free_locals(t, frees, seen)
    own = [b.t for b in bound]
    return [f for f in frees if not any(z3.eq(f, o) for o in own)]


def comb_key(ex, bound, value, frees=()):
    """Canonical text of a symbolic element function: the term with the bound symbols (and the captured enclosing
    variables, which become explicit arguments of the combinator symbol) renamed."""
    if isinstance(value, Sym):
        t = value.t
    elif isinstance(value, tuple):
        return 'T(' + ','.join(comb_key(ex, bound, x, frees) for x in value) + ')'
    elif isinstance(value, (bool, int, str)) or value is None:
        return f'C{value!r}'
    else:
        raise OutOfSubset(f'element value {value!r} in combinator')
    subs = [(b.t, z3.Const(f'BV{i}_{b.kind.name}', b.kind.sort())) for i, b in enumerate(bound)]
    subs += [(f, z3.Const(f'FV{i}', f.sort())) for i, f in enumerate(frees)]
    t2 = z3.substitute(t, *subs)
    import hashlib
    return hashlib.sha256(canon_text(t2).encode()).hexdigest()[:12]


class Lam:
    """A symbolic element function: bound variable(s) + merged result value + guard (filter)."""

    def __init__(self, bound, value, guard):
        self.bound = bound
        self.value = value      # Sym | const
        self.guard = guard      # z3 Bool or None

    def at(self, ex, elem_t):
        subs = [(self.bound[0].t, elem_t)]
        val = self.value
        vt = None
        if isinstance(val, Sym):
            vt = z3.substitute(val.t, *subs)
        g = z3.substitute(self.guard, *subs) if self.guard is not None else None
        return vt, g


def merge_eval(ex, thunk, allow_events=False):
    """Evaluate thunk() (pure: no heap effects visible outside) over all its paths and merge the results
    into one value with ITEs.  Returns (value, exceptional_condition)."""
    from .run import Run
    outer = ex.run
    results = []
    work = [[]]
    base_pc_len = len(outer.pc)
    while work:
        prefix = work.pop()
        sub = Run(prefix, outer.explorer)
        sub.pc = list(outer.pc)
        sub.heap = {a: c.copy() for a, c in outer.heap.items()}
        sub.next_addr = outer.next_addr + 1000
        sub.ghost = dict(outer.ghost)
        sub.fresh_n = outer.fresh_n + 100000
        sub.depth = outer.depth
        sub.inputs = outer.inputs
        sub.trace = list(outer.trace)
        sub.in_merge = True
        sub.outer_addrs = set(outer.heap.keys())
        sub.axioms = outer.axioms
        sub.obligations_sink = outer.obligations_sink
        sub.tags = list(outer.tags)
        sub.ghost['_axiom_ids'] = outer.ghost.setdefault('_axiom_ids', set())
        ex.run = sub
        try:
            try:
                v = detach(ex, thunk())
                results.append((sub.pc[base_pc_len:], 'ret', v))
            except RaiseEx as r:
                # branches are not pruned eagerly in merged evaluation: check this raising arm now
                if sub.feasible([]):
                    results.append((sub.pc[base_pc_len:], 'raise', r.exc))
            except OutOfSubset:
                # branches are not pruned eagerly here: an unsupported construct on an infeasible arm is irrelevant
                if sub.feasible([]):
                    raise
            except PathEnd as p:
                if p.kind != 'infeasible':
                    raise OutOfSubset(f'path end {p.kind} inside merged evaluation')
            for alt in sub.alternatives:
                work.append(alt)
            for f in sub.assumed:
                outer.assumed.add(f)
            if sub.trace[len(outer.trace):] and not allow_events:
                raise OutOfSubset('abstract call inside a merged (pure) evaluation')
        finally:
            ex.run = outer
    return results


def merged_value(ex, results, want_kind=None):
    """ITE-merge path results [(pc_delta, 'ret', value)] into a single Sym; raising paths -> condition."""
    rets = [(pc, v) for pc, tag, v in results if tag == 'ret']
    raises = [pc for pc, tag, v in results if tag == 'raise']
    raise_cond = z3.Or(*[z3.And(*pc) if pc else z3.BoolVal(True) for pc in raises]) if raises else None
    if not rets:
        raise OutOfSubset('element function always raises')
    kind = want_kind
    if kind is None:
        kinds = []
        for _, v in rets:
            if isinstance(v, Sym):
                kinds.append(v.kind)
            elif v is None:
                kinds.append(None)
            else:
                kinds.append(P.kind_of(ex, v))
        base = [k for k in kinds if k is not None]
        if not base:
            raise OutOfSubset('element function returns None only')
        kind = base[0]
        if any(k is None for k in kinds) or any(isinstance(k, K.Opt) for k in base):
            inner = kind.inner if isinstance(kind, K.Opt) else kind
            kind = K.Opt(inner)
    term = None
    for pc, v in reversed(rets):
        t = P.lift(ex, v, kind)
        cond = z3.And(*pc) if pc else z3.BoolVal(True)
        if term is None or z3.eq(t, term):
            term = t
        else:
            term = z3.If(cond, t, term)
    return Sym(kind, term), raise_cond


def elem_lambda(ex, elem_kind, body_fn, want_kind=None):
    """Build Lam for python callable body_fn(elem Sym) -> value (executed symbolically, merged)."""
    x = ex.run.fresh(elem_kind, 'bv')
    results = merge_eval(ex, lambda: body_fn(x))
    val, rc = merged_value(ex, results, want_kind)
    if rc is not None:
        raise OutOfSubset('element function may raise')
    return Lam([x], val, None)


def comprehension(ex, node, fr, flavour):
    if len(node.generators) != 1:
        return comprehension_nested(ex, node, fr, flavour)
    gen = node.generators[0]
    if gen.is_async:
        return async_comprehension(ex, node, fr, flavour)
    it = ex.eval(gen.iter, fr)
    if isinstance(it, SymRange):
        if flavour != 'gen':
            raise OutOfSubset('comprehension over a symbolic range')
        s = Sym(K.Seq(K.Int), z3.Const('range_placeholder', z3.SeqSort(z3.IntSort())))
    else:
        s = as_seq(ex, it)
    if isinstance(s, list):
        return comprehension_concrete(ex, node, fr, flavour, s)
    # symbolic
    k = s.kind

    def bind(x):
        sub = Frame(fr.fi, fr.module, fr, fr.self_cls)
        sub.first_arg = None
        ex.assign(gen.target, x, sub)
        return sub

    def guard_fn(x):
        sub = bind(x)
        for cond in gen.ifs:
            if not ex.truth(ex.eval(cond, sub)):
                return False
        return True

    def elem_fn(x):
        sub = bind(x)
        if flavour == 'dict':
            return (ex.eval(node.key, sub), ex.eval(node.value, sub))
        return ex.eval(node.elt, sub)

    x = ex.run.fresh(k.elem, 'bv')
    guard = None
    if gen.ifs:
        gres = merge_eval(ex, lambda: guard_fn(x))
        gval, grc = merged_value(ex, gres, K.Bool)
        if grc is not None:
            raise OutOfSubset('comprehension condition may raise')
        guard = z3.simplify(gval.t)
        if z3.is_true(guard):
            guard = None
    identity = (flavour != 'dict' and isinstance(node.elt, ast.Name) and isinstance(gen.target, ast.Name)
                and node.elt.id == gen.target.id)
    if identity:
        val = x
        # flow typing: `[e for e in xs if e is not None]` yields the non-optional element kind
        if isinstance(k.elem, K.Opt) and guard is not None and z3.eq(z3.simplify(guard), z3.simplify(z3.Not(k.elem.is_none(x.t)))):
            val = Sym(k.elem.inner, k.elem.val(x.t))
    else:
        # evaluate element under the guard
        def guarded():
            if guard is not None:
                ex.run.assume(guard)
            if isinstance(it, SymRange):
                ex.run.assume(z3.And(x.t >= it.lo, x.t < it.hi))
            return elem_fn(x)
        eres = merge_eval(ex, guarded)
        val, rc = merged_value(ex, eres)
        if rc is not None and isinstance(it, SymRange):
            raise OutOfSubset('element expression over a symbolic range may raise')
        if rc is not None:
            # some element may make the element expression raise: fork into "no element does" / "one does"
            rexc = [v for pc, tag, v in eres if tag == 'raise'][0]
            idx = ex.run.fresh(K.Int, 'raise_at')
            rc_at = z3.substitute(rc, (x.t, s.t[idx.t]))
            if guard is not None:
                rc_at = z3.And(z3.substitute(guard, (x.t, s.t[idx.t])), rc_at)
            c = ex.run.choose(2, tag='comprehension', labels=['ok', f'raises:{rexc.cls}'])
            if c == 1:
                ex.run.assume(z3.And(idx.t >= 0, idx.t < z3.Length(s.t), rc_at))
                raise RaiseEx(ExcVal(rexc.cls, origin=f'comprehension element: {rexc.origin}'))
            i_ = z3.Int('cr_i')
            body = z3.Not(z3.substitute(rc, (x.t, s.t[i_])))
            if guard is not None:
                body = z3.Implies(z3.substitute(guard, (x.t, s.t[i_])), body)
            ex.run.assume(P.forall([i_], z3.Implies(z3.And(i_ >= 0, i_ < z3.Length(s.t)), body), patterns=[s.t[i_]]))
    lam = Lam([x], val, guard)
    if isinstance(it, SymRange):
        return RangeGenView(it, lam)
    if flavour == 'gen':
        return GenView(s, lam)
    r = filter_map(ex, s, lam)
    if flavour == 'dict':
        return seq_to_dict(ex, r)
    if flavour == 'set':
        raise OutOfSubset('symbolic set comprehension')
    return ex.run.alloc(HList(sym=r))


class GenView:
    """A generator expression over a symbolic sequence, not yet materialised: any()/all() turn it into a
    quantified term over the source sequence; every other consumer materialises the filter-map."""

    def __init__(self, s, lam):
        self.s = s
        self.lam = lam

    def materialise(self, ex):
        return filter_map(ex, self.s, self.lam)


def comprehension_concrete(ex, node, fr, flavour, items):
    gen = node.generators[0]
    out = []
    for it in items:
        sub = Frame(fr.fi, fr.module, fr, fr.self_cls)
        ex.assign(gen.target, it, sub)
        ok = True
        for cond in gen.ifs:
            if not ex.truth(ex.eval(cond, sub)):
                ok = False
                break
        if not ok:
            continue
        if flavour == 'dict':
            out.append((ex.eval(node.key, sub), ex.eval(node.value, sub)))
        else:
            out.append(ex.eval(node.elt, sub))
    if flavour == 'dict':
        d = ex.run.alloc(HDict(items={}))
        for k_, v_ in out:
            P.setitem(ex, d, k_, v_)
        return d
    if flavour == 'set':
        r = ex.run.alloc(HSet(items=[]))
        for v_ in out:
            P.set_add(ex, r, v_)
        return r
    return ex.run.alloc(HList(items=out))


def comprehension_nested(ex, node, fr, flavour):
    raise OutOfSubset('nested comprehension')


def async_comprehension(ex, node, fr, flavour):
    raise OutOfSubset('async comprehension')


def filter_map(ex, s, lam):
    """[f(x) for x in s if p(x)] as a combinator term with its defining axioms (snoc-recursive)."""
    run = ex.run
    k = s.kind
    out_kind = K.Seq(lam.value.kind)
    vterms = [lam.value.t] if isinstance(lam.value, Sym) else []
    frees = captured_locals(lam.bound, *(vterms + ([lam.guard] if lam.guard is not None else [])))
    key = comb_key(ex, lam.bound, lam.value, frees) + '_' + (comb_key(ex, lam.bound, Sym(K.Bool, lam.guard), frees) if lam.guard is not None else 'all')
    f = PFn(P.ufn(f'fm_{k.name}_{out_kind.name}_{key}', [k.sort()] + [x.sort() for x in frees], out_kind.sort()), frees)
    if frees:
        # remembered so that a fold / comprehension that later substitutes its bound variable can re-instantiate
        # the defining axioms at the substituted term (see reinstantiate_captured)
        run.ghost.setdefault('_captured', []).append((f, lam, k, out_kind, s.t))
    r = f(s.t)
    register_fm_app(ex, f, lam, k, out_kind, s.t)
    return Sym(out_kind, r)


def register_fm_app(ex, f, lam, k, out_kind, st):
    """defining axioms of the application f(st) + extensionality against the other filter-maps over the same sequence"""
    run = ex.run
    apps = run.ghost.setdefault('_fm_apps', [])
    # (re-)instantiate: later calls may see more known snoc forms of st than the first one did
    instantiate_fm(ex, f, lam, k, out_kind, st)
    for (f2, lam2, st2, ok2) in apps:
        if f2.eq(f) and z3.eq(st2, st):
            return
    for (f2, lam2, st2, ok2) in apps:
        if f2.eq(f) or not z3.eq(st2, st) or ok2 != out_kind:
            continue
        sk = run.fresh(K.Int, 'ext_sk')
        e = st[sk.t]
        v1, g1 = lam.at(ex, e)
        v2, g2 = lam2.at(ex, e)
        g1 = g1 if g1 is not None else z3.BoolVal(True)
        g2 = g2 if g2 is not None else z3.BoolVal(True)
        agree = z3.And(g1 == g2, z3.Implies(g1, v1 == v2))
        run.axiom(z3.Or(f(st) == f2(st), z3.And(sk.t >= 0, sk.t < z3.Length(st), z3.Not(agree))))
    apps.append((f, lam, st, out_kind))


def reinstantiate_captured(ex, subs):
    """A combinator whose element function captured an enclosing bound variable was defined at that variable; when the
    enclosing construct substitutes the variable (fold unfolding at a concrete element), the inner combinator
    application at the substituted term needs its own defining axioms."""
    run = ex.run
    vars_ = [a for a, _ in subs]
    for (f, lam, k, out_kind, st) in list(run.ghost.get('_captured', [])):
        if not any(any(z3.eq(fr, v) for v in vars_) for fr in f.frees):
            continue
        if not isinstance(lam.value, Sym):
            continue
        f2 = PFn(f.F, [z3.substitute(fr, *subs) for fr in f.frees])
        lam2 = Lam(lam.bound, Sym(lam.value.kind, z3.substitute(lam.value.t, *subs)),
                   z3.substitute(lam.guard, *subs) if lam.guard is not None else None)
        register_fm_app(ex, f2, lam2, k, out_kind, z3.substitute(st, *subs))


def instantiate_fm_base(ex, f, lam, k, out_kind, st):
    run = ex.run
    r = f(st)
    n = z3.Length(st)
    run.axiom(z3.Implies(n == 0, z3.Length(r) == 0))
    run.axiom(z3.Length(r) <= n)


def instantiate_fm(ex, f, lam, k, out_kind, st):
    """Definitional axioms of the filter-map combinator at sequence term st."""
    run = ex.run
    r = f(st)
    n = z3.Length(st)
    instantiate_fm_base(ex, f, lam, k, out_kind, st)
    # snoc unfolding for every proper prefix+unit decomposition of st that is syntactically visible
    for (a, e) in snoc_decompositions(st, run):
        vt, g = lam.at(ex, e)
        step = z3.Concat(f(a), z3.Unit(vt)) if g is None else z3.If(g, z3.Concat(f(a), z3.Unit(vt)), f(a))
        run.axiom(r == step)
        if g is None:
            # remember the snoc form of r so that combinators applied to r can unfold as well
            run.ghost.setdefault('_snoc', {})[r.sexpr()] = (f(a), vt)
            instantiate_fm_base(ex, f, lam, k, out_kind, a)
        else:
            # guarded snoc: r == f(a) ++ [v] if g else f(a)
            run.ghost.setdefault('_gsnoc', {})[r.sexpr()] = (g, f(a), vt)
            instantiate_fm_base(ex, f, lam, k, out_kind, a)
    # element-wise characterisation
    i = z3.Int('fm_i')
    if lam.guard is None:
        vt, _ = lam.at(ex, st[i])
        run.axiom(z3.Length(r) == n)
        run.axiom(P.forall([i], z3.Implies(z3.And(i >= 0, i < n), r[i] == vt), patterns=[r[i]]))
        # the image of every input element is a member of the output (membership instance, triggered by st[i])
        run.axiom(P.forall([i], z3.Implies(z3.And(i >= 0, i < n), z3.Contains(r, z3.Unit(vt))), patterns=[st[i]]))
    else:
        # every output element comes from an input element satisfying the guard (Skolem index function)
        src = P.ufn(f'src_{f.name()}', [k.sort(), z3.IntSort()], z3.IntSort())
        vt, g = lam.at(ex, st[src(st, i)])
        run.axiom(P.forall([i], z3.Implies(z3.And(i >= 0, i < z3.Length(r)),
                                             z3.And(src(st, i) >= 0, src(st, i) < n, g, r[i] == vt)), patterns=[r[i]]))
        j = z3.Int('fm_j')
        run.axiom(P.forall([i, j], z3.Implies(z3.And(i >= 0, i < j, j < z3.Length(r)), src(st, i) < src(st, j)),
                             patterns=[P.mpat(r[i], r[j])]))
        # every input element satisfying the guard appears (Skolem position function)
        pos = P.ufn(f'pos_{f.name()}', [k.sort(), z3.IntSort()], z3.IntSort())
        vt2, g2 = lam.at(ex, st[j])
        run.axiom(P.forall([j], z3.Implies(z3.And(j >= 0, j < n, g2),
                                             z3.And(pos(st, j) >= 0, pos(st, j) < z3.Length(r), r[pos(st, j)] == vt2,
                                                    src(st, pos(st, j)) == j)), patterns=[st[j]]))


def snoc_decompositions(t, run=None):
    """If t is syntactically Concat(a, Unit(e)) (possibly n-ary), or known to equal such a term, return [(a, e)]."""
    out = []
    if run is not None:
        known = run.ghost.get('_snoc', {}).get(t.sexpr())
        if known is not None:
            out.append(known)
    if z3.is_app(t) and t.decl().kind() == z3.Z3_OP_SEQ_CONCAT:
        ch = t.children()
        last = ch[-1]
        if z3.is_app(last) and last.decl().kind() == z3.Z3_OP_SEQ_UNIT:
            a = ch[0] if len(ch) == 2 else z3.Concat(*ch[:-1])
            out.append((a, last.arg(0)))
        elif run is not None:
            # A ++ r where r is known to equal r' ++ [e]:  (A ++ r') ++ [e]
            known = run.ghost.get('_snoc', {}).get(last.sexpr())
            if known is not None:
                out.append((z3.Concat(*ch[:-1], known[0]), known[1]))
    elif z3.is_app(t) and t.decl().kind() == z3.Z3_OP_SEQ_UNIT:
        out.append((z3.Empty(t.sort()), t.arg(0)))
    return out


def seq_to_dict(ex, pairs, _inner=False):
    """dict built from a sequence of (key, value) pairs (later pairs override)."""
    run = ex.run
    tk = pairs.kind.elem
    mk = K.Map(tk.items[0], tk.items[1])
    f = P.ufn(f'dict_of_{pairs.kind.name}', [pairs.kind.sort()], mk.sort())
    m = Sym(mk, f(pairs.t))
    run.assumed.add('A-dict')
    x = z3.Const(f'dof_k_{mk.key.name}', mk.key.sort())
    i = z3.Int('dof_i')
    n = z3.Length(pairs.t)
    sel = z3.Select(mk.arr(m.t), x)
    # key present iff some pair has it; Skolem "last index with that key"
    last = P.ufn(f'dof_last_{pairs.kind.name}', [pairs.kind.sort(), mk.key.sort()], z3.IntSort())
    li = last(pairs.t, x)
    run.axiom(P.forall([x], z3.If(mk.optv.is_none(sel),
                                     z3.BoolVal(True),
                                     z3.And(li >= 0, li < n, tk.get(pairs.t[li], 0) == x, mk.optv.val(sel) == tk.get(pairs.t[li], 1))),
                         patterns=[sel]))
    run.axiom(P.forall([i], z3.Implies(z3.And(i >= 0, i < n),
                                         z3.And(z3.Not(mk.optv.is_none(z3.Select(mk.arr(m.t), tk.get(pairs.t[i], 0)))),
                                                last(pairs.t, tk.get(pairs.t[i], 0)) >= i)), patterns=[pairs.t[i]]))
    run.axiom(z3.Implies(n == 0, m.t == P.empty_map(ex, mk).t))
    # snoc unfolding: dict(ps ++ [(k, v)]) == (d := dict(ps); d[k] = v)
    if not _inner:
        gs = run.ghost.get('_gsnoc', {}).get(pairs.t.sexpr())
        if gs is not None:
            # pairs == a ++ [e] if g else a   (guarded snoc of a filter-map):  dict(pairs) follows the same case split
            g_, a_, e_ = gs
            da = run.cell(seq_to_dict(ex, Sym(pairs.kind, a_), _inner=True)).sym
            step = P.map_store(ex, da, Sym(tk.items[0], tk.get(e_, 0)), Sym(tk.items[1], tk.get(e_, 1)))
            run.axiom(z3.If(g_, m.t == step.t, m.t == da.t))
        for (a, e) in snoc_decompositions(pairs.t, run):
            da = run.cell(seq_to_dict(ex, Sym(pairs.kind, a), _inner=True)).sym
            step = P.map_store(ex, da, Sym(tk.items[0], tk.get(e, 0)), Sym(tk.items[1], tk.get(e, 1)))
            run.axiom(m.t == step.t)
    return run.alloc(HDict(sym=m))


def any_all(ex, v, is_any):
    run = ex.run
    if isinstance(v, RangeGenView):
        if v.lam.value.kind != K.Bool:
            raise OutOfSubset('any/all over non-bool generator')
        i = z3.Int('q_i')
        vt, g = v.lam.at(ex, i)
        rng = z3.And(i >= v.rng.lo, i < v.rng.hi)
        if g is not None:
            rng = z3.And(rng, g)
        formula = z3.Exists([i], z3.And(rng, vt)) if is_any else z3.ForAll([i], z3.Implies(rng, vt))
        return Sym(K.Bool, name_formula(ex, formula))
    if isinstance(v, GenView):
        # all(p(x) for x in xs if g(x))  ==  forall i. 0 <= i < len(xs) and g(xs[i]) => p(xs[i])   (a pure term)
        if v.lam.value.kind != K.Bool:
            raise OutOfSubset('any/all over non-bool generator')
        # any/all over a snoc  xs ++ [e]  ==  (any/all over xs) or/and p(e)   (exact)
        decs = snoc_decompositions(v.s.t)
        if decs:
            a, e = decs[0]
            rest = any_all(ex, GenView(Sym(v.s.kind, a), v.lam), is_any)
            vt_e, g_e = v.lam.at(ex, e)
            pe = vt_e if g_e is None else (z3.And(g_e, vt_e) if is_any else z3.Implies(g_e, vt_e))
            rt = rest.t if isinstance(rest, Sym) else z3.BoolVal(bool(rest))
            return Sym(K.Bool, z3.Or(rt, pe) if is_any else z3.And(rt, pe))
        if z3.is_app(v.s.t) and v.s.t.decl().kind() == z3.Z3_OP_SEQ_EMPTY:
            return not is_any
        i = z3.Int('q_i')
        vt, g = v.lam.at(ex, v.s.t[i])
        rng = z3.And(i >= 0, i < z3.Length(v.s.t))
        if g is not None:
            rng = z3.And(rng, g)
        formula = z3.Exists([i], z3.And(rng, vt)) if is_any else z3.ForAll([i], z3.Implies(rng, vt))
        return Sym(K.Bool, name_formula(ex, formula))
    s = as_seq(ex, v)
    if isinstance(s, list):
        for it in s:
            t = ex.truth(it)
            if is_any and t:
                return True
            if not is_any and not t:
                return False
        return not is_any
    if s.kind.elem != K.Bool:
        raise OutOfSubset('any/all over non-bool symbolic sequence')
    # s is a combinator application fm(xs) with a Bool-valued lambda: quantify over its elements
    n = z3.Length(s.t)
    i = z3.Int('aa_i')
    b = run.fresh(K.Bool, 'any' if is_any else 'all')
    sk = run.fresh(K.Int, 'aa_sk')
    if is_any:
        run.axiom(z3.Implies(b.t, z3.And(sk.t >= 0, sk.t < n, s.t[sk.t])))
        run.axiom(z3.Implies(z3.Not(b.t), P.forall([i], z3.Implies(z3.And(i >= 0, i < n), z3.Not(s.t[i])), patterns=[s.t[i]])))
    else:
        run.axiom(z3.Implies(z3.Not(b.t), z3.And(sk.t >= 0, sk.t < n, z3.Not(s.t[sk.t]))))
        run.axiom(z3.Implies(b.t, P.forall([i], z3.Implies(z3.And(i >= 0, i < n), s.t[i]), patterns=[s.t[i]])))
    return b


def join_term(ex, sep_t, parts_t):
    f = P.ufn('str_join', [z3.StringSort(), z3.SeqSort(z3.StringSort())], z3.StringSort())
    r = f(sep_t, parts_t)
    run = ex.run
    done = run.ghost.setdefault('_join_inst', set())
    key = (str(sep_t), str(parts_t))
    if key in done:
        return r
    done.add(key)
    n = z3.Length(parts_t)
    run.axiom(z3.Implies(n == 0, r == z3.StringVal('')))
    run.axiom(z3.Implies(n == 1, r == parts_t[0]))
    run.axiom(z3.Implies(n == 2, r == z3.Concat(parts_t[0], sep_t, parts_t[1])))
    # snoc recursion (one unfolding)
    init = z3.SubSeq(parts_t, 0, n - 1)
    run.axiom(z3.Implies(n >= 2, r == z3.Concat(f(sep_t, init), sep_t, parts_t[n - 1])))
    for (a, e) in snoc_decompositions(parts_t, run):
        run.axiom(r == z3.If(z3.Length(a) == 0, e, z3.Concat(f(sep_t, a), sep_t, e)))
    return r


def join(ex, sep, it):
    s = as_seq(ex, it)
    if isinstance(s, list):
        if not s:
            return ''
        parts = []
        for i, p in enumerate(s):
            if i:
                parts.append(sep)
            if not P.is_str(p):
                p = _str_of_strlike(ex, p)
            parts.append(p)
        return P.concat_strs(ex, parts)
    if s.kind.elem != K.Str:
        raise RaiseEx(ExcVal('TypeError', origin='join of non-str'))
    return Sym(K.Str, join_term(ex, P.str_t(ex, sep), s.t))


def _str_of_strlike(ex, p):
    if isinstance(p, Ref):
        c = ex.run.cell(p)
        if isinstance(c, HObj) and not isinstance(c.cls, tuple) and c.cls.is_subclass_of(('ext', 'builtins.str')):
            return c.payload
    raise RaiseEx(ExcVal('TypeError', origin='join of non-str'))


def max_min(ex, vs, kw, is_max):
    if len(vs) == 1:
        s = as_seq(ex, vs[0])
    else:
        s = list(vs)
    if isinstance(s, list) and all(isinstance(x, int) for x in s) and s:
        return max(s) if is_max else min(s)
    raise OutOfSubset('max/min over symbolic values')


def map_(ex, f, its):
    if len(its) != 1:
        raise OutOfSubset('map with several iterables')
    s = as_seq(ex, its[0])
    if isinstance(s, list):
        return ex.run.alloc(HList(items=[ex.call(f, [x], {}) for x in s]))
    lam = elem_lambda(ex, s.kind.elem, lambda x: ex.call(f, [x], {}))
    return ex.run.alloc(HList(sym=filter_map(ex, s, lam)))


class SymRange:
    """range(lo, hi) with symbolic bounds: only consumed by any()/all() over a generator expression"""

    def __init__(self, lo, hi):
        self.lo, self.hi = lo, hi


def range_(ex, a):
    if len(a) == 1:
        return SymRange(z3.IntVal(0), P.int_t(ex, a[0]))
    if len(a) == 2:
        return SymRange(P.int_t(ex, a[0]), P.int_t(ex, a[1]))
    raise OutOfSubset('symbolic range with step')


class RangeGenView:
    """(f(i) for i in range(lo, hi) if g(i)) with symbolic bounds"""

    def __init__(self, rng, lam):
        self.rng = rng
        self.lam = lam

    def materialise(self, ex):
        raise OutOfSubset('generator over a symbolic range used outside any()/all()')


# =============================================================================================
# for loops
# =============================================================================================

def exec_for(ex, st, fr):
    run = ex.run
    it = ex.eval(st.iter, fr)
    s = as_seq(ex, it)
    if isinstance(s, list):
        broke = False
        for item in s:
            ex.assign(st.target, item, fr)
            try:
                ex.exec_block(st.body, fr)
            except BreakEx:
                broke = True
                break
            except ContinueEx:
                continue
        if not broke:
            ex.exec_block(st.orelse, fr)
        return
    # symbolic length: needs a loop contract
    fkey = _frame_key(fr)
    ordinal = ex.loop_counter.get(fkey, 0)
    ex.loop_counter[fkey] = ordinal + 1
    spec = ex.contracts.loop_spec(fkey, ordinal, ex.current_target) if ex.contracts else None
    if spec is None:
        raise OutOfSubset(f'loop #{ordinal} of {fkey} over a symbolic-length iterable has no loop contract', st)
    return spec.run(ex, st, fr, s, ordinal)


def _frame_key(fr):
    f = fr
    while f is not None and f.fi is None:
        f = f.closure
    return f.fi.key if f is not None else '?'



def seq_fold(ex, fn, init, xs):
    """prims.seq_fold: an uninterpreted fold symbol keyed by the symbolic step function, with the defining
    equations instantiated at the empty sequence and at every visible snoc."""
    run = ex.run
    s = as_seq(ex, xs)
    if isinstance(s, list):
        acc = init
        for it in s:
            acc = ex.call(fn, [acc, it], {})
        return acc
    acc_kind = P.kind_of(ex, init)
    a = run.fresh(acc_kind, 'fa')
    x = run.fresh(s.kind.elem, 'fx')
    res = merge_eval(ex, lambda: ex.call(fn, [a, x], {}))
    val, rc = merged_value(ex, res, acc_kind)
    # a step that raises makes the fold undefined there: the defining equation is only given where it does not
    it = P.lift(ex, init, acc_kind)
    frees = captured_locals([a, x], val.t, it, rc)
    key = comb_key(ex, [a, x], val, frees)
    import hashlib
    it_c = z3.substitute(it, *[(f_, z3.Const(f'FV{i}', f_.sort())) for i, f_ in enumerate(frees)]) if frees else it
    key += '_' + hashlib.sha256(canon_text(it_c).encode()).hexdigest()[:8]
    f = PFn(P.ufn(f'fold_{s.kind.name}_{acc_kind.name}_{key}', [s.kind.sort()] + [x_.sort() for x_ in frees], acc_kind.sort()), frees)
    r = f(s.t)

    def inst(st):
        run.axiom(z3.Implies(z3.Length(st) == 0, f(st) == it))
        for (pre, e) in snoc_decompositions(st, run):
            stepped = z3.substitute(val.t, (a.t, f(pre)), (x.t, e))
            reinstantiate_captured(ex, [(a.t, f(pre)), (x.t, e)])
            if rc is not None:
                run.axiom(z3.Implies(z3.Not(z3.substitute(rc, (a.t, f(pre)), (x.t, e))), f(st) == stepped))
            else:
                run.axiom(f(st) == stepped)
            run.axiom(z3.Implies(z3.Length(pre) == 0, f(pre) == it))
    inst(s.t)
    if z3.is_app(s.t) and s.t.decl().kind() == z3.Z3_OP_SEQ_EMPTY:
        return Sym(acc_kind, it)
    return Sym(acc_kind, r)


def _free_locals(t, acc, seen):
    """symbols of enclosing comprehension variables (fresh bv!N / fa!N / fx!N) occurring in t"""
    import re
    if t.get_id() in seen:
        return
    seen.add(t.get_id())
    if z3.is_quantifier(t):
        _free_locals(t.body(), acc, seen)
        return
    if z3.is_const(t) and t.decl().kind() == z3.Z3_OP_UNINTERPRETED:
        if re.fullmatch(r'(bv|fa|fx)!\d+', t.decl().name()):
            if not any(z3.eq(t, x) for x in acc):
                acc.append(t)
        return
    if z3.is_app(t):
        for c in t.children():
            _free_locals(c, acc, seen)


def name_formula(ex, formula):
    """Tseitin-style naming of a quantified sub-formula: an uninterpreted predicate over the enclosing
    comprehension variables, defined once per run; equal formulas get the same predicate symbol, so that
    clauses and invariants that state the same thing are propositionally equal."""
    import hashlib
    run = ex.run
    frees = []
    _free_locals(formula, frees, set())
    canon = z3.substitute(formula, *[(f, z3.Const(f'FV{k}', f.sort())) for k, f in enumerate(frees)]) if frees else formula
    key = hashlib.sha256(canon_text(z3.simplify(canon)).encode()).hexdigest()[:12]
    pred = P.ufn(f'qf_{key}', [f.sort() for f in frees], z3.BoolSort())
    app = pred(*frees) if frees else pred()
    defs = run.ghost.get('_qdefs')
    if defs is None:
        defs = run.ghost['_qdefs'] = {}
    if key not in defs:
        if frees:
            fvs = [z3.Const(f'FV{k}', f.sort()) for k, f in enumerate(frees)]
            defs[key] = z3.ForAll(fvs, pred(*fvs) == canon, patterns=[pred(*fvs)])
        else:
            defs[key] = (app == formula)
    return app


def detach(ex, v):
    """a value computed in a sub-evaluation must not refer to that sub-evaluation's heap: lists / dicts become
    symbolic sequence / map values"""
    if isinstance(v, Ref) and v.addr not in getattr(ex.run, 'outer_addrs', ()):
        cell = ex.run.heap.get(v.addr)
        if isinstance(cell, HList):
            if cell.sym is not None:
                return cell.sym
            if cell.items:
                k = K.Seq(P.kind_of(ex, cell.items[0]))
                return Sym(k, P.seq_of(ex, [P.lift(ex, x, k.elem) for x in cell.items], k))
            return v
        if isinstance(cell, HDict) and cell.sym is not None:
            return cell.sym
    if isinstance(v, tuple):
        return tuple(detach(ex, x) for x in v)
    return v


def set_elems(ex, s):
    """iteration over a set: some enumeration of exactly its members, each once (A-set; the order is unspecified)"""
    run = ex.run
    run.assumed.add('A-set')
    k = s.kind
    sk = K.Seq(k.elem)
    f = P.ufn(f'elems_{k.name}', [k.sort()], sk.sort())
    r = f(s.t)
    x = z3.Const(f'se_x_{k.elem.name}', k.elem.sort())
    i, j = z3.Ints('se_i se_j')
    run.axiom(P.forall([x], z3.Contains(r, z3.Unit(x)) == z3.Select(s.t, x), patterns=[z3.Select(s.t, x)]))
    run.axiom(P.forall([i], z3.Implies(z3.And(i >= 0, i < z3.Length(r)), z3.Select(s.t, r[i])), patterns=[r[i]]))
    run.axiom(P.forall([i, j], z3.Implies(z3.And(i >= 0, i < j, j < z3.Length(r)), r[i] != r[j]), patterns=[P.mpat(r[i], r[j])]))
    return Sym(sk, r)
