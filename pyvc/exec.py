"""The symbolic executor: interprets the AST of the real /repo functions over symbolic values.

Supported subset: see DESIGN.md Appendix B.  Anything else raises OutOfSubset (the function is then
handed to its bounded stand-in and nothing about it is counted as proved).
"""
import ast
import z3
from . import kinds as K
from .kinds import Sym
from .values import *
from .run import Run, Explorer, Obligation
from . import pyops as P


class Executor:
    def __init__(self, table, contracts=None, max_inline_depth=12):
        self.table = table
        self.contracts = contracts          # contracts.Registry (callee modes, ifaces, specs)
        self.max_inline_depth = max_inline_depth
        self.run = None
        self.models = None                  # set by models.install(self)
        self.loop_specs = {}                # (function key, loop ordinal) -> LoopSpec
        self.current_target = None
        self.loop_counter = {}
        self.called = set()                 # keys of /repo functions inlined (for evidence)
        self.contract_calls = set()
        from . import models
        models.install(self)

    # ------------------------------------------------------------------ entry points
    def with_run(self, run):
        self.run = run
        self.loop_counter = {}
        return self

    # ------------------------------------------------------------------ statements
    def exec_block(self, stmts, fr):
        for st in stmts:
            self.exec_stmt(st, fr)

    def exec_stmt(self, st, fr):
        m = getattr(self, 'st_' + type(st).__name__, None)
        if m is None:
            raise OutOfSubset(f'statement {type(st).__name__}', st)
        return m(st, fr)

    def st_Expr(self, st, fr):
        if isinstance(st.value, ast.Constant) and isinstance(st.value.value, str):
            return
        self.eval(st.value, fr)

    def st_Pass(self, st, fr):
        pass

    def st_Assign(self, st, fr):
        v = self.eval(st.value, fr)
        for t in st.targets:
            self.assign(t, v, fr)

    def st_AnnAssign(self, st, fr):
        if st.value is not None:
            self.assign(st.target, self.eval(st.value, fr), fr)

    def st_AugAssign(self, st, fr):
        tgt = st.target
        load = _as_load(tgt)
        cur = self.eval(load, fr)
        rhs = self.eval(st.value, fr)
        if isinstance(st.op, ast.BitOr) and isinstance(cur, Ref) and isinstance(self.run.cell(cur), HSet):
            P.set_update(self, cur, rhs)
            return
        if isinstance(st.op, ast.Add) and isinstance(cur, Ref) and isinstance(self.run.cell(cur), HList):
            P.list_extend(self, cur, rhs)
            return
        v = P.binop(self, st.op, cur, rhs)
        self.assign(tgt, v, fr)

    def assign(self, tgt, v, fr):
        if isinstance(tgt, ast.Name):
            f, _ = fr.lookup(tgt.id) if tgt.id in getattr(fr, 'nonlocals', ()) else (None, None)
            (f or fr).locals[tgt.id] = v
        elif isinstance(tgt, (ast.Tuple, ast.List)):
            items = P.unpack(self, v, len(tgt.elts))
            for t, it in zip(tgt.elts, items):
                self.assign(t, it, fr)
        elif isinstance(tgt, ast.Attribute):
            obj = self.eval(tgt.value, fr)
            P.setattr_(self, obj, tgt.attr, v)
        elif isinstance(tgt, ast.Subscript):
            obj = self.eval(tgt.value, fr)
            idx = self.eval_index(tgt.slice, fr)
            P.setitem(self, obj, idx, v)
        elif isinstance(tgt, ast.Starred):
            raise OutOfSubset('starred assignment', tgt)
        else:
            raise OutOfSubset(f'assignment target {type(tgt).__name__}', tgt)

    def st_Delete(self, st, fr):
        for t in st.targets:
            if isinstance(t, ast.Name):
                fr.locals.pop(t.id, None)
            elif isinstance(t, ast.Subscript):
                obj = self.eval(t.value, fr)
                idx = self.eval_index(t.slice, fr)
                P.delitem(self, obj, idx)
            else:
                raise OutOfSubset('del target', t)

    def st_If(self, st, fr):
        if self.truth(self.eval(st.test, fr)):
            self.exec_block(st.body, fr)
        else:
            self.exec_block(st.orelse, fr)

    def st_Return(self, st, fr):
        raise ReturnEx(self.eval(st.value, fr) if st.value is not None else None)

    def st_Break(self, st, fr):
        raise BreakEx()

    def st_Continue(self, st, fr):
        raise ContinueEx()

    def st_Assert(self, st, fr):
        if not self.truth(self.eval(st.test, fr)):
            raise RaiseEx(ExcVal('AssertionError', origin='assert'))

    def st_Raise(self, st, fr):
        if st.exc is None:
            cur = getattr(fr, 'handling', None)
            if cur is None:
                raise OutOfSubset('bare raise outside handler', st)
            raise RaiseEx(cur)
        v = self.eval(st.exc, fr)
        raise RaiseEx(P.to_exception(self, v))

    def st_Global(self, st, fr):
        raise OutOfSubset('global', st)

    def st_Nonlocal(self, st, fr):
        fr.nonlocals = set(getattr(fr, 'nonlocals', ())) | set(st.names)

    def st_Import(self, st, fr):
        for a in st.names:
            fr.locals[a.asname or a.name.split('.')[0]] = ModuleVal(self.table.module_or_ext(a.name if a.asname else a.name.split('.')[0]))

    def st_ImportFrom(self, st, fr):
        mod = st.module or ''
        if st.level:
            base = fr.module.name.split('.')
            base = base[:len(base) - st.level]
            mod = '.'.join(base + ([mod] if mod else []))
        m = self.table.module_or_ext(mod)
        for a in st.names:
            if isinstance(m, tuple):
                fr.locals[a.asname or a.name] = self.models.ext_value(f'{m[1]}.{a.name}')
            else:
                fr.locals[a.asname or a.name] = self.module_member(m, a.name)

    def st_FunctionDef(self, st, fr):
        from .source import FunctionInfo
        fi = FunctionInfo(fr.module, f'{fr.fi.qualname}.<{st.name}>', st, fr.self_cls, '')
        fv = self.make_func(fi, fr)
        for d in reversed(st.decorator_list):
            dv = self.eval(d, fr)
            fv = self.call(dv, [fv], {}, d)
        fr.locals[st.name] = fv

    st_AsyncFunctionDef = st_FunctionDef

    def make_func(self, fi, closure):
        node = fi.node
        a = node.args
        defaults = [self.eval(d, closure) for d in a.defaults] if closure is not None else []
        kwdefaults = {}
        for k, d in zip(a.kwonlyargs, a.kw_defaults):
            if d is not None:
                kwdefaults[k.arg] = self.eval(d, closure)
        return FuncVal(fi, closure, defaults, kwdefaults)

    def st_Try(self, st, fr):
        def run_finally():
            if st.finalbody:
                self.exec_block(st.finalbody, fr)
        try:
            try:
                self.exec_block(st.body, fr)
            except RaiseEx as r:
                handled = False
                for h in st.handlers:
                    if self.exc_matches(r.exc, h.type, fr):
                        handled = True
                        if h.name:
                            fr.locals[h.name] = r.exc
                        prev = getattr(fr, 'handling', None)
                        fr.handling = r.exc
                        try:
                            self.exec_block(h.body, fr)
                        finally:
                            fr.handling = prev
                        break
                if not handled:
                    raise
            else:
                self.exec_block(st.orelse, fr)
        except (RaiseEx, ReturnEx, BreakEx, ContinueEx):
            run_finally()
            raise
        run_finally()

    def exc_matches(self, exc, type_node, fr):
        if type_node is None:
            return True
        tv = self.eval(type_node, fr)
        types = tv if isinstance(tv, tuple) else (tv,)
        for t in types:
            if P.exc_isinstance(self, exc, t):
                return True
        return False

    def st_With(self, st, fr):
        mgrs = []
        for item in st.items:
            cm = self.eval(item.context_expr, fr)
            entered = P.ctx_enter(self, cm)
            if item.optional_vars is not None:
                self.assign(item.optional_vars, entered, fr)
            mgrs.append(cm)
        try:
            self.exec_block(st.body, fr)
        except (RaiseEx, ReturnEx, BreakEx, ContinueEx):
            for cm in reversed(mgrs):
                P.ctx_exit(self, cm)
            raise
        for cm in reversed(mgrs):
            P.ctx_exit(self, cm)

    def st_While(self, st, fr):
        raise OutOfSubset('while loop', st)

    def st_For(self, st, fr):
        from . import loops
        return loops.exec_for(self, st, fr)

    # ------------------------------------------------------------------ expressions
    def eval(self, node, fr):
        m = getattr(self, 'ex_' + type(node).__name__, None)
        if m is None:
            raise OutOfSubset(f'expression {type(node).__name__}', node)
        return m(node, fr)

    def ex_Constant(self, n, fr):
        if isinstance(n.value, (int, str, bool, float, bytes)) or n.value is None or n.value is Ellipsis:
            return n.value
        raise OutOfSubset(f'constant {n.value!r}', n)

    def ex_Name(self, n, fr):
        f, v = fr.lookup(n.id)
        if f is not None:
            return v
        return self.global_name(fr.module, n.id, n)

    def global_name(self, module, name, node=None):
        if hasattr(module, 'name'):
            if name in module.classes:
                return ClassVal(module.classes[name])
            if name in module.functions:
                return self.module_function(module.functions[name])
            if name in module.imports:
                return self.module_member(module, name)
            if name in module.assigns:
                return self.module_assign(module, name)
        return self.models.builtin(name, node)

    def module_function(self, fi):
        key = ('modfn', fi.key)
        cache = self.run.ghost.setdefault('_modcache', {})
        if key not in cache:
            fr = Frame(None, fi.module)
            cache[key] = self.make_func(fi, fr)
            cache[key].closure = None
        return cache[key]

    def module_assign(self, module, name):
        cache = self.run.ghost.setdefault('_modcache', {})
        key = ('assign', module.name, name)
        if key not in cache:
            ov = self.contracts.module_const(module.name, name) if self.contracts else None
            if ov is not None:
                cache[key] = ov(self)
            else:
                fr = Frame(None, module)
                fr.fi = type('X', (), {'qualname': '<module>', 'key': module.name})()
                cache[key] = self.eval(module.assigns[name], fr)
        return cache[key]

    def module_member(self, module, name):
        if name in module.classes:
            return ClassVal(module.classes[name])
        if name in module.functions:
            return self.module_function(module.functions[name])
        if name in module.assigns:
            return self.module_assign(module, name)
        if name in module.imports:
            imp = module.imports[name]
            if imp[0] == 'module':
                m = self.table.module_or_ext(imp[1])
                return ModuleVal(m) if not isinstance(m, tuple) else self.models.ext_value(imp[1])
            m = self.table.module_or_ext(imp[1])
            if isinstance(m, tuple):
                sub = self.table.module_or_ext(f'{imp[1]}.{imp[2]}')
                if not isinstance(sub, tuple):
                    return ModuleVal(sub)
                return self.models.ext_value(f'{imp[1]}.{imp[2]}')
            if imp[2] in m.classes or imp[2] in m.functions or imp[2] in m.assigns or imp[2] in m.imports:
                return self.module_member(m, imp[2])
            sub = self.table.module_or_ext(f'{imp[1]}.{imp[2]}')
            if not isinstance(sub, tuple):
                return ModuleVal(sub)
            raise OutOfSubset(f'cannot resolve {imp}')
        raise RaiseEx(ExcVal('AttributeError', origin=f'module {module.name}.{name}'))

    def ex_Attribute(self, n, fr):
        obj = self.eval(n.value, fr)
        return P.getattr_(self, obj, n.attr, n)

    def eval_index(self, s, fr):
        if isinstance(s, ast.Slice):
            return slice(self.eval(s.lower, fr) if s.lower else None,
                         self.eval(s.upper, fr) if s.upper else None,
                         self.eval(s.step, fr) if s.step else None)
        return self.eval(s, fr)

    def ex_Subscript(self, n, fr):
        obj = self.eval(n.value, fr)
        idx = self.eval_index(n.slice, fr)
        return P.getitem(self, obj, idx, n)

    def ex_BinOp(self, n, fr):
        return P.binop(self, n.op, self.eval(n.left, fr), self.eval(n.right, fr))

    def ex_UnaryOp(self, n, fr):
        v = self.eval(n.operand, fr)
        if isinstance(n.op, ast.Not):
            return P.not_(self, v)
        if isinstance(n.op, ast.USub):
            if isinstance(v, (int, float)):
                return -v
            if isinstance(v, Sym) and v.kind == K.Int:
                return Sym(K.Int, -v.t)
        raise OutOfSubset('unary op', n)

    def ex_BoolOp(self, n, fr):
        # short-circuit, value-returning
        is_and = isinstance(n.op, ast.And)
        last = None
        for i, e in enumerate(n.values):
            last = self.eval(e, fr)
            if i == len(n.values) - 1:
                return last
            t = self.truth(last)
            if is_and and not t:
                return last
            if not is_and and t:
                return last
        return last

    def ex_Compare(self, n, fr):
        left = self.eval(n.left, fr)
        result = True
        for op, rn in zip(n.ops, n.comparators):
            right = self.eval(rn, fr)
            r = P.compare(self, op, left, right, n)
            if len(n.ops) == 1:
                return r
            if not self.truth(r):
                return False
            left = right
        return result

    def ex_IfExp(self, n, fr):
        if self.truth(self.eval(n.test, fr)):
            return self.eval(n.body, fr)
        return self.eval(n.orelse, fr)

    def ex_NamedExpr(self, n, fr):
        v = self.eval(n.value, fr)
        fr.locals[n.target.id] = v
        return v

    def ex_JoinedStr(self, n, fr):
        parts = []
        for v in n.values:
            if isinstance(v, ast.Constant):
                parts.append(v.value)
            else:
                parts.append(self.ex_FormattedValue(v, fr))
        return P.concat_strs(self, parts)

    def ex_FormattedValue(self, n, fr):
        v = self.eval(n.value, fr)
        if n.format_spec is not None:
            raise OutOfSubset('format spec', n)
        if n.conversion == ord('r'):
            return P.py_repr(self, v)
        return P.py_str(self, v)

    def ex_Tuple(self, n, fr):
        out = []
        for e in n.elts:
            if isinstance(e, ast.Starred):
                out.extend(P.iterate_concrete(self, self.eval(e.value, fr)))
            else:
                out.append(self.eval(e, fr))
        return tuple(out)

    def ex_List(self, n, fr):
        out = []
        for e in n.elts:
            if isinstance(e, ast.Starred):
                out.extend(P.iterate_concrete(self, self.eval(e.value, fr)))
            else:
                out.append(self.eval(e, fr))
        return self.run.alloc(HList(items=out))

    def ex_Set(self, n, fr):
        out = []
        for e in n.elts:
            out.append(self.eval(e, fr))
        r = self.run.alloc(HSet(items=[]))
        for it in out:
            P.set_add(self, r, it)
        return r

    def ex_Dict(self, n, fr):
        d = self.run.alloc(HDict(items={}))
        for k, v in zip(n.keys, n.values):
            if k is None:
                P.dict_update(self, d, self.eval(v, fr))
            else:
                P.setitem(self, d, self.eval(k, fr), self.eval(v, fr))
        return d

    def ex_Lambda(self, n, fr):
        from .source import FunctionInfo
        fi = FunctionInfo(fr.module, f'{fr.fi.qualname if fr.fi else "<module>"}.<lambda@{n.lineno}>', n, fr.self_cls, '')
        return self.make_func(fi, fr)

    def ex_ListComp(self, n, fr):
        from . import loops
        return loops.comprehension(self, n, fr, 'list')

    def ex_GeneratorExp(self, n, fr):
        from . import loops
        return loops.comprehension(self, n, fr, 'gen')

    def ex_SetComp(self, n, fr):
        from . import loops
        return loops.comprehension(self, n, fr, 'set')

    def ex_DictComp(self, n, fr):
        from . import loops
        return loops.comprehension(self, n, fr, 'dict')

    def ex_Starred(self, n, fr):
        raise OutOfSubset('starred expression', n)

    def ex_Await(self, n, fr):
        return P.await_(self, self.eval(n.value, fr))

    def ex_Yield(self, n, fr):
        f = fr
        while f is not None and f.yields is None:
            f = f.closure
        if f is None:
            raise OutOfSubset('yield outside generator', n)
        v = self.eval(n.value, fr) if n.value is not None else None
        P.do_yield(self, f, v)
        return None

    def ex_YieldFrom(self, n, fr):
        f = fr
        while f is not None and f.yields is None:
            f = f.closure
        v = self.eval(n.value, fr)
        for it in P.iterate_concrete(self, v):
            P.do_yield(self, f, it)
        return None

    def ex_Call(self, n, fr):
        # super() special form
        if isinstance(n.func, ast.Name) and n.func.id == 'super':
            return self.make_super(n, fr)
        fn = self.eval(n.func, fr)
        args = []
        for a in n.args:
            if isinstance(a, ast.Starred):
                sv = self.eval(a.value, fr)
                try:
                    args.extend(P.iterate_concrete(self, sv))
                except OutOfSubset:
                    # *args of symbolic length: only abstract callees accept it (as one packed argument)
                    from . import loops
                    args.append(P.StarPack(loops.as_seq(self, sv)))
            else:
                args.append(self.eval(a, fr))
        kwargs = {}
        for kw in n.keywords:
            if kw.arg is None:
                d = self.eval(kw.value, fr)
                try:
                    for k, v in P.dict_items_concrete(self, d):
                        kwargs[k] = v
                except OutOfSubset:
                    from . import loops
                    m = loops.map_of(self, d)
                    if m is None:
                        raise
                    kwargs['**'] = m
            else:
                kwargs[kw.arg] = self.eval(kw.value, fr)
        temps = [a for a in list(args) + list(kwargs.values()) if type(a).__name__ == 'FileHandle' and not a.closed]
        # a file object that exists only as an argument value (f(path.open('w'))) is a temporary: CPython closes it
        # (reference count) as soon as the call returns or unwinds (A-refcount)
        temps = [t for t, an in zip(list(args) + list(kwargs.values()), list(n.args) + [k.value for k in n.keywords])
                 if type(t).__name__ == 'FileHandle' and not t.closed and isinstance(an, ast.Call)] if temps else []
        if not temps:
            return self.call(fn, args, kwargs, n)
        try:
            return self.call(fn, args, kwargs, n)
        finally:
            for t in temps:
                t.exit(self)

    def make_super(self, n, fr):
        f = fr
        while f is not None and f.first_arg is None:
            f = f.closure
        if f is None or f.self_cls is None:
            raise OutOfSubset('super() outside method', n)
        if n.args:
            # super(Config, self): start after the named class
            start = self.eval(n.args[0], fr)
            selfv = self.eval(n.args[1], fr)
            return P.SuperProxy(start.ci, selfv)
        return P.SuperProxy(f.self_cls, f.first_arg)

    # ------------------------------------------------------------------ truthiness
    def truth(self, v):
        return P.truth(self, v)

    # ------------------------------------------------------------------ calls
    def call(self, fn, args, kwargs, node=None):
        if isinstance(fn, BoundMethod):
            return self.call(fn.func, [fn.self_val] + list(args), kwargs, node)
        if isinstance(fn, Builtin):
            if fn.self_val is not None:
                return fn.fn(self, [fn.self_val] + list(args), kwargs)
            return fn.fn(self, list(args), kwargs)
        if isinstance(fn, FuncVal):
            return self.call_func(fn, args, kwargs, node)
        if isinstance(fn, ClassVal):
            return P.instantiate(self, fn, args, kwargs, node)
        if isinstance(fn, P.AbstractFn):
            return fn.call(self, args, kwargs)
        if isinstance(fn, Ref):
            cell = self.run.cell(fn)
            if isinstance(cell, HObj) and not isinstance(cell.cls, tuple):
                r = cell.cls.lookup('__call__')
                if r and r[0] == 'method':
                    return self.call(BoundMethod(self.func_of(r[1]), fn), args, kwargs, node)
            if isinstance(cell, AbstractObj):
                return P.abstract_call(self, fn, '__call__', args, kwargs)
        raise OutOfSubset(f'call of {fn!r}', node)

    def func_of(self, fi):
        return FuncVal(fi, None, *self._defaults_of(fi))

    def _defaults_of(self, fi):
        a = fi.node.args
        fr = Frame(fi, fi.module)
        defaults = [self.eval(d, fr) for d in a.defaults]
        kwdefaults = {}
        for k, d in zip(a.kwonlyargs, a.kw_defaults):
            if d is not None:
                kwdefaults[k.arg] = self.eval(d, fr)
        return defaults, kwdefaults

    def bind_args(self, fv, args, kwargs, node=None):
        a = fv.fi.node.args
        names = [x.arg for x in a.posonlyargs + a.args]
        loc = {}
        args = list(args)
        kwargs = dict(kwargs)
        npos = len(names)
        for i, nm in enumerate(names):
            if i < len(args):
                loc[nm] = args[i]
                if nm in kwargs:
                    raise RaiseEx(ExcVal('TypeError', origin=f'multiple values for {nm}'))
            elif nm in kwargs:
                loc[nm] = kwargs.pop(nm)
            else:
                di = i - (npos - len(fv.defaults))
                if di >= 0:
                    loc[nm] = fv.defaults[di]
                else:
                    raise RaiseEx(ExcVal('TypeError', origin=f'missing argument {nm} of {fv.name}'))
        if len(args) > npos:
            if a.vararg:
                extra = args[npos:]
                if len(extra) == 1 and isinstance(extra[0], P.StarPack):
                    loc[a.vararg.arg] = extra[0].seq        # f(*xs) with xs of symbolic length
                else:
                    loc[a.vararg.arg] = tuple(extra)
            else:
                raise RaiseEx(ExcVal('TypeError', origin=f'too many positional arguments for {fv.name}'))
        elif a.vararg:
            loc[a.vararg.arg] = ()
        for k in a.kwonlyargs:
            if k.arg in kwargs:
                loc[k.arg] = kwargs.pop(k.arg)
            elif k.arg in fv.kwdefaults:
                loc[k.arg] = fv.kwdefaults[k.arg]
            else:
                raise RaiseEx(ExcVal('TypeError', origin=f'missing kw-only argument {k.arg}'))
        if kwargs:
            if a.kwarg:
                pack = kwargs.pop('**', None)
                if pack is not None and not kwargs:
                    d = self.run.alloc(HDict(sym=pack))     # f(**kw) with a symbolic mapping
                else:
                    d = self.run.alloc(HDict(items=dict(kwargs)))
                loc[a.kwarg.arg] = d
            else:
                raise RaiseEx(ExcVal('TypeError', origin=f'unexpected keyword {list(kwargs)} for {fv.name}'))
        elif a.kwarg:
            loc[a.kwarg.arg] = self.run.alloc(HDict(items={}))
        return loc

    def call_func(self, fv, args, kwargs, node=None, force_inline=False):
        fi = fv.fi
        # callee under contract?
        if self.contracts is not None and not force_inline:
            cc = self.contracts.callee(fi.key, self.current_target)
            if cc is not None:
                self.contract_calls.add(fi.key)
                return cc.apply(self, fv, args, kwargs)
        if self.run.depth >= self.max_inline_depth:
            raise OutOfSubset(f'inline depth exceeded at {fi.key}', node)
        rs = self.contracts.recursive_spec(fi.key) if self.contracts is not None else None
        if rs is not None and not getattr(fv, '_unfold', False):
            return self.call_recursive_spec(fv, rs, args, kwargs, node)
        loc = self.bind_args(fv, args, kwargs, node)
        fr = Frame(fi, fi.module, fv.closure, fi.cls)
        fr.locals.update(loc)
        a = fi.node.args
        pos = a.posonlyargs + a.args
        if pos and fi.cls is not None and not fi.is_static:
            fr.first_arg = loc[pos[0].arg]
        if not isinstance(fi.node, ast.Lambda):
            self.called.add(fi.key)
        self.run.depth += 1
        try:
            if isinstance(fi.node, ast.Lambda):
                return self.eval(fi.node.body, fr)
            is_gen = _is_generator(fi.node)
            if is_gen:
                fr.yields = self.run.alloc(HList(items=[]))
                fr.locals['__yields__'] = fr.yields
            try:
                self.exec_block(fi.node.body, fr)
                ret = None
            except ReturnEx as r:
                ret = r.value
            if is_gen:
                return fr.yields
            return ret
        finally:
            self.run.depth -= 1


def _call_recursive_spec(self, fv, rs, args, kwargs, node):
    """A recursive spec function f is an uninterpreted symbol; each call site outside f's own unfolding adds
    one definitional instance  f(args) == body[recursive calls := f(...)]  (fuel 1)."""
    arg_kinds, ret_kind = rs[0], rs[1]
    fuel = rs[2] if len(rs) > 2 else 1
    loc = self.bind_args(fv, args, kwargs, node)
    names = [x.arg for x in fv.fi.node.args.args]
    ts = [P.lift(self, loc[n], k) for n, k in zip(names, arg_kinds)]
    f = P.ufn('spec_' + fv.fi.qualname, [k.sort() for k in arg_kinds], ret_kind.sort())
    app = Sym(ret_kind, f(*ts))
    unfolding = self.run.ghost.setdefault('_unfolding', {})
    key = fv.fi.key
    inst = self.run.ghost.setdefault('_spec_inst', set())
    ikey = (key, tuple(t.sexpr() for t in ts))
    if unfolding.get(key, 0) >= fuel:
        return app
    if getattr(self.run, 'in_merge', False):
        # inside a comprehension body the argument mentions the bound variable: an instance there is useless
        from . import loops
        frees = []
        for t in ts:
            loops._free_locals(t, frees, set())
        if frees:
            return app
    inst.add(ikey)
    unfolding[key] = unfolding.get(key, 0) + 1
    pc_mark = len(self.run.pc)
    try:
        fv2 = FuncVal(fv.fi, fv.closure, fv.defaults, fv.kwdefaults)
        fv2._unfold = True
        body = self.call_func(fv2, [Sym(k, t) for k, t in zip(arg_kinds, ts)], {}, node, force_inline=True)
    finally:
        unfolding[key] -= 1
    # valid under the decisions taken while evaluating the body (this path of the unfolding)
    delta = self.run.pc[pc_mark:]
    eqn = app.t == P.lift(self, body, ret_kind)
    self.run.axiom(z3.Implies(z3.And(*delta), eqn) if delta else eqn)
    return app


Executor.call_recursive_spec = _call_recursive_spec


def _as_load(t):
    import copy
    t2 = copy.copy(t)
    t2.ctx = ast.Load()
    return t2


def _is_generator(node):
    stack = list(node.body) if not isinstance(node, ast.Lambda) else []
    while stack:
        n = stack.pop()
        if isinstance(n, (ast.Yield, ast.YieldFrom)):
            return True
        if isinstance(n, (ast.FunctionDef, ast.AsyncFunctionDef, ast.Lambda, ast.ClassDef)):
            continue
        stack.extend(ast.iter_child_nodes(n))
    return False
