"""The sidecar contract language.

A contract module under /verif/contracts is an ordinary Python module:

* module-level `def`s are spec functions and clause functions, written in the executor's subset.  The
  same source is (i) executed natively by CPython in replays and bounded searches, (ii) executed
  symbolically by the executor when a clause is turned into a verification condition;
* `CONTRACTS = [Contract(...), ...]` declares, per target function of /repo: the shape of its symbolic
  inputs, how each callee is treated, requires / ensures clauses (by function name), loop contracts.

Nothing here imports taskchain.
"""
from . import kinds as K
from .kinds import Int, Bool, Str, Dyn, DynL, U, Opt, Tup, Rec, Seq, Map, SetOf, Cls as ClsTag, Path as PathK  # re-exported for contract modules


# ---------------------------------------------------------------- shapes of symbolic inputs
class Shape:
    pass


class S(Shape):
    """A symbolic value of a kind."""

    def __init__(self, kind, name=None):
        self.kind = kind
        self.name = name


class Obj(Shape):
    """A heap object of a /repo class with the given field shapes (other attributes come from the class)."""

    def __init__(self, cls, **fields):
        self.cls = cls
        self.name = None
        self.fields = fields


class Abs(Shape):
    """An object known only through an interface (contracts.Iface)."""

    def __init__(self, iface, name=None, **fields):
        self.iface = iface
        self.name = name
        self.fields = fields


class Const(Shape):
    def __init__(self, value):
        self.value = value


class Fn(Shape):
    """An opaque callable argument."""

    def __init__(self, name, arg_kinds, ret_kind, may_raise=True, functional=True):
        self.name = name
        self.arg_kinds = arg_kinds
        self.ret_kind = ret_kind
        self.may_raise = may_raise
        self.functional = functional


class ListOf(Shape):
    def __init__(self, *items):
        self.items = items


class DictOf(Shape):
    def __init__(self, _items=None, **items):
        self.items = dict(_items or {})     # DictOf({0: shape}) for non-string keys
        self.items.update(items)


class Cls(Shape):
    def __init__(self, cls):
        self.cls = cls


class SymList(Shape):
    """A python list object (mutable cell) with symbolic content of kind Seq(elem)."""

    def __init__(self, elem, name=None):
        self.elem = elem
        self.name = name


class SymDict(Shape):
    """A python dict object (mutable cell) with symbolic content of kind Map(key, val)."""

    def __init__(self, key, val, name=None):
        self.key = key
        self.val = val
        self.name = name


class Same(Shape):
    """Alias of another input (same object)."""

    def __init__(self, other):
        self.other = other


# ---------------------------------------------------------------- interfaces of abstract objects
class Prop:
    """Attribute of an abstract object: a stable field (fresh symbol on first read) unless `fn` given."""

    def __init__(self, kind=None, fn=None, settable=False, const=None, native=None):
        self.native = native        # native twin of fn: callable(stub) -> value
        self.kind = kind            # Kind, or an Abs shape for a nested abstract object
        self.fn = fn
        self.settable = settable
        self.const = const


class Meth:
    """Method of an abstract object.
    ret: Kind | None | callable(ex, ref, args)->value ; raises: False | True | [exception class names];
    pure: result is a function of (object, ghost epoch, args) ; effect(ex, ref, args, ret) mutates ghost state."""

    def __init__(self, ret=None, raises=False, pure=False, effect=None, pre=None, event=True, nargs=None, field=None, native=None):
        self.field = field          # the method returns this field of the object (no event)
        self.native = native        # native stub behaviour: callable(stub, *args)
        self.ret = ret
        self.raises = raises
        self.pure = pure
        self.effect = effect
        self.pre = pre
        self.event = event
        self.nargs = nargs


class Iface:
    def __init__(self, name, props=None, methods=None, truthy=True, classes=(), hasattr=None, native_factory=None,
                 isinstance=None):
        self.isinstance = isinstance           # callable(ex, ref, class key or ext name) -> bool (may fork)
        self.native_factory = native_factory   # callable(name, source, log, fields) -> native stand-in (default: pyvc.native.Stub)
        self.name = name
        self.props = props or {}
        self.methods = methods or {}
        self.truthy = truthy
        self.classes = tuple(classes)      # class keys / ext names the object is an instance of
        self.hasattr = hasattr
        self.type_of = None


# ---------------------------------------------------------------- callee handling
class ByContract:
    """Treat a /repo callee by contract instead of inlining it.
    post: name of a function f(*args, result) -> bool in the contract module (assumed after the call), or
    spec: name of a spec function; the call returns spec(*args) (a pure function of the arguments);
    ret: Kind of the result; raises: exception class names the callee may raise (each forks a path)."""

    def __init__(self, ret=None, spec=None, post=None, raises=(), pure=True, event=None, pre=None, havoc=(), raise_post=None, assumed_form=None):
        self.assumed_form = assumed_form    # text: the form used at this call site is NOT the one verified under the callee's own id (listed as assumed)
        self.raise_post = raise_post        # clause f(*args, raised) assumed on the raising paths of the callee
        self.ret = ret
        self.spec = spec
        self.post = post
        self.raises = tuple(raises)
        self.pure = pure
        self.event = event
        self.pre = pre
        self.havoc = havoc


class Inline:
    pass


class Loop:
    """Contract of one `for` loop over a symbolic-length iterable.
    vars: {local name: Kind} the locals the body modifies (they are havocked at the loop head);
    invariant: name of a clause function inv(k, done, xs, <vars by name>, <inputs by name>) -> bool;
    cells: {local name: Kind} mutable cells (lists / dicts) the body mutates in place."""

    def __init__(self, invariant, vars=None, cells=None, decreases=None, attrs=None, step=None, fs=False):
        self.fs = fs                # the body changes the ghost file system: it is havocked at the loop head (invariant gets fs, fs_loop0)
        self.step = step or {}      # {clause name: function} checked at the end of an arbitrary iteration; `trace` = this iteration's events
        self.invariant = invariant
        self.vars = vars or {}
        self.cells = cells or {}
        self.attrs = attrs or {}


class Contract:
    def __init__(self, id, target, props, inputs, call=None, requires=(), ensures=None, ensures_raise=None,
                 ensures_all=None, callees=None, loops=None, canary=None, assume=(), receiver=None,
                 covers=None, note='', kwargs=None, as_property=False, bounded=None, l0=(), native_gens=None, searchable=True,
                 clause_props=None, signatures=None, native_setup=None, crash_invariant=None, fs_faults=False,
                 closure_vars=None, star=None, starstar=None, native_target=None, may_raise=(), constructors=None, feas_ms=None):
        self.feas_ms = feas_ms              # per-contract time limit (ms) of one in-process feasibility query (a timeout keeps the branch)
        self.constructors = constructors or {}  # {class key: callable(ex, classval, args, kwargs) -> value}: constructor taken by contract
        self.may_raise = tuple(may_raise)       # exception classes a path may end with although no ensures_raise clause speaks about it
        self.closure_vars = closure_vars or {}   # {free variable of a nested target function: input name}
        self.star = star                        # input name passed as *args (a symbolic sequence)
        self.starstar = starstar                # input name passed as **kwargs (a symbolic mapping)
        self.native_target = native_target      # callable(values) -> the real callable for replays of nested targets
        self.uses_fs = crash_invariant is not None
        self.crash_invariant = crash_invariant or {}   # {clause name: function(inputs..., fs, fs0)} asserted after EVERY ghost-FS event
        self.fs_faults = fs_faults
        self.signatures = signatures or {}      # {callee key: input name} declared signatures for inspect.signature
        self.native_setup = native_setup        # callable(values, patches, source, log): extra native preparation for replays
        self.clause_props = clause_props or {}  # {clause name: [property ids]}; default: every property of the contract
        self.native_gens = native_gens or {}    # {input name: f(gen, values so far)} generators for the bounded search
        self.searchable = searchable
        self.id = id
        self.target = target                # 'module:qualname'
        self.props = props                  # {property id: 'decisive' | 'supporting'}
        self.inputs = inputs                # {name: Shape}  (ordered; `call` says how they are passed)
        self.call = call                    # list of input names passed positionally (default: all, in order)
        self.kwargs = kwargs or {}          # {param name: input name}
        self.requires = tuple(requires)
        self.ensures = ensures or {}        # {clause name: function name}  on normal return
        self.ensures_raise = ensures_raise or {}
        self.ensures_all = ensures_all or {}
        self.callees = callees or {}
        self.loops = loops or {}            # {ordinal: Loop}  ordinals count symbolic loops of the target in execution order
        self.canary = canary
        self.assume = tuple(assume)         # names of lemma/axiom functions (assumed facts, each tagged with an L0 id)
        self.covers = covers or {}
        self.note = note
        self.as_property = as_property
        self.bounded = bounded
        self.l0 = tuple(l0)
        self.module = None
