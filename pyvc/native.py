"""Native side: run the REAL function under CPython on concrete inputs and evaluate the contract clauses
natively.  Used for (a) replaying solver counter-models, (b) the bounded search that stands in when a
proof is lost, (c) cross-checking the encoder.  Callees that the contract treats by contract are
replaced by their contract (modular replay); everything else is the code of /repo as it is on disk.
"""
import copy
import importlib
import itertools
import json
import random
import sys
import types
from . import dsl
from . import kinds as K


# =============================================================================================
# resolving real objects
# =============================================================================================

def real_attr(key):
    """'taskchain.parameter:ParameterRegistry.repr' -> (owner, name, raw attribute from __dict__)."""
    mod, qual = key.split(':')
    m = importlib.import_module(mod)
    parts = qual.split('.')
    owner = m
    for p in parts[:-1]:
        owner = getattr(owner, p)
    name = parts[-1]
    raw = owner.__dict__[name] if hasattr(owner, '__dict__') and name in owner.__dict__ else getattr(owner, name)
    return owner, name, raw


def real_class(key):
    mod, qual = key.split(':')
    m = importlib.import_module(mod)
    c = m
    for p in qual.split('.'):
        c = getattr(c, p)
    return c


def real_callable(key):
    owner, name, raw = real_attr(key)
    if isinstance(raw, property):
        return raw.fget
    if isinstance(raw, (staticmethod, classmethod)):
        return raw.__func__
    return raw


# =============================================================================================
# native values from decoded models / generators
# =============================================================================================

class Rec(types.SimpleNamespace):
    pass


_dummy_classes = {}


def cls_for(name):
    from pathlib import Path
    table = {'pathlib.Path': Path, 'str': str, 'int': int, 'float': float, 'bool': bool, 'list': list, 'dict': dict}
    if name in table:
        return table[name]
    if ':' in name:
        try:
            return real_class(name)
        except Exception:
            pass
    if name not in _dummy_classes:
        _dummy_classes[name] = type('Cls_' + ''.join(ch if ch.isalnum() else '_' for ch in name), (), {})
    return _dummy_classes[name]


class Opaque(Exception):
    """exception raised by a stubbed abstract callee in replays / searches"""


class Source:
    """Where native input values and the outcomes of abstract calls come from."""

    def value(self, name, kind):
        raise NotImplementedError

    def outcome(self, evname):
        return 'ret'

    def __call__(self, name, kind):
        return self.value(name, kind)


class FnSource(Source):
    def __init__(self, fn, outcomes=None):
        self.fn = fn
        self.outcomes = outcomes or {}
        self.counts = {}

    def value(self, name, kind):
        return self.fn(name, kind)

    def outcome(self, evname):
        seq = self.outcomes.get(evname)
        n = self.counts.get(evname, 0)
        self.counts[evname] = n + 1
        if seq is None or n >= len(seq):
            return 'ret'
        return seq[n]


class RandomSource(Source):
    def __init__(self, gen, contract, raise_p=0.25):
        self.g = gen
        self.c = contract
        self.sofar = {}
        self.raise_p = raise_p
        self.script = []

    def value(self, name, kind):
        cg = getattr(self.c, 'native_gens', {}).get(name)
        if cg is not None:
            v = cg(self.g, self.sofar)
        elif isinstance(kind, K.Kind):
            v = self.g.of(kind, hint='name' if 'name' in name else None)
        else:
            raise ValueError(f'search cannot generate {kind!r}')
        self.sofar[name] = v
        return v

    def outcome(self, evname):
        o = 'raise' if self.g.r.random() < self.raise_p else 'ret'
        self.script.append((evname, o))
        return o


def outcomes_from_tags(tags):
    """path tags like 'data.load:raise', 'run:ret' -> {evname: [outcome, ...]} in call order"""
    out = {}
    for t in tags:
        if ':' not in t or t.startswith(('exit:', 'loop', 'comprehension')):
            continue
        ev, o = t.rsplit(':', 1)
        if o in ('T', 'F'):
            continue
        out.setdefault(ev, []).append(o)
    return out


class Stub:
    """Native stand-in for an abstract object: attributes from the value source, methods scripted."""

    def __init__(self, iface, name, source, log, fields=None):
        d = object.__getattribute__(self, '__dict__')
        d['_iface'] = iface
        d['_name'] = name
        d['_source'] = source
        d['_log'] = log
        d['_counts'] = {}
        for f, v in (fields or {}).items():
            d[f] = v
        d['_dyn'] = {}
        for pn, p in iface.props.items():
            if pn in d:
                continue
            if p.native is not None:
                d['_dyn'][pn] = p.native
            elif p.const is not None:
                d[pn] = p.const
            elif isinstance(p.kind, dsl.Abs):
                sub = p.kind
                d[pn] = Stub(sub.iface, sub.name or f'{name}.{pn}', source, log)
            elif isinstance(p.kind, K.Kind):
                d[pn] = source(f'{name}.{pn}', p.kind)

    def __getattr__(self, attr):
        d = object.__getattribute__(self, '__dict__')
        iface = d['_iface']
        if attr in d['_dyn']:
            return d['_dyn'][attr](self)
        if attr in iface.methods:
            m = iface.methods[attr]

            def call(*args, **kw):
                if m.field is not None:
                    return d[m.field]
                evname = f'{d["_name"]}.{attr}'
                if m.raises:
                    o = d['_source'].outcome(evname) if hasattr(d['_source'], 'outcome') else 'ret'
                    if o != 'ret':
                        if m.event:
                            d['_log'].append((attr, args, None, 'raise'))
                        raise make_exc(o, evname)
                n = d['_counts'].get(attr, 0)
                d['_counts'][attr] = n + 1
                ret = None
                if m.native is not None:
                    ret = m.native(self, *args, **kw)
                elif isinstance(m.ret, K.Kind):
                    memo = d.setdefault('_pure', {})
                    if m.pure and attr in memo:
                        ret = memo[attr]
                    else:
                        key = f'{evname}#{1 if m.pure else n}'
                        ret = d['_source'](key, m.ret)
                        memo[attr] = ret
                if m.event:
                    d['_log'].append((attr, args, ret, 'ret'))
                return ret
            return call
        raise AttributeError(attr)

    def __bool__(self):
        return True


# (Stub is used by NativeInputs for dsl.Abs shapes)


def from_decoded(kind, d, ctx):
    """Decoded model data (kinds.decode output) -> native python value of the real code's types."""
    if isinstance(kind, K.Opt):
        return None if d is None else from_decoded(kind.inner, d, ctx)
    n = kind.name
    if n in ('Int', 'Bool', 'Str'):
        return d
    if n == 'Cls':
        return cls_for(d)
    if n == 'Path':
        from pathlib import Path
        return Path(d)
    if isinstance(kind, K.Tup):
        return tuple(from_decoded(k, x, ctx) for k, x in zip(kind.items, d))
    if isinstance(kind, K.Seq):
        return [from_decoded(kind.elem, x, ctx) for x in d]
    if isinstance(kind, K.Map):
        return {from_decoded(kind.key, k_, ctx): from_decoded(kind.val, v_, ctx) for k_, v_ in d['__map__']}
    if isinstance(kind, K.Rec):
        fields = {f: from_decoded(k, d[f], ctx) for f, k in kind.fields.items()}
        return make_record(kind, fields, ctx)
    if n == 'Dyn':
        return dyn_native(d, ctx)
    if isinstance(kind, K.U):
        return ctx.opaque(kind.name, d)
    raise ValueError(f'cannot build native value of kind {kind}')


def make_record(kind, fields, ctx):
    if kind.cls:
        cls = real_class(kind.cls)
        o = object.__new__(cls)
        for f, v in fields.items():
            try:
                object.__setattr__(o, f, v)
            except AttributeError:
                o.__dict__[f] = v
        return o
    return Rec(**fields)


class DynObj:
    """Stand-in for a user ParameterObject in replays: .repr() returns a fixed text."""

    def __init__(self, ident, text=None):
        self.ident = ident
        self._text = text if text is not None else f'Obj{ident}()'

    def repr(self):
        return self._text

    def __repr__(self):
        return self._text

    def __eq__(self, o):
        return isinstance(o, DynObj) and o.ident == self.ident

    def __hash__(self):
        return hash(('DynObj', self.ident))


class DynInst:
    def __init__(self, ident, text=None):
        self.ident = ident
        self._taskchain_instantiate_repr = text if text is not None else f'pkg.Inst{ident}()'

    def __eq__(self, o):
        return isinstance(o, DynInst) and o.ident == self.ident

    def __hash__(self):
        return hash(('DynInst', self.ident))


def dyn_native(d, ctx):
    if d is None or isinstance(d, (bool, int, str)):
        return d
    if isinstance(d, list):
        return [dyn_native(x, ctx) for x in d]
    if isinstance(d, dict):
        if '__dict__' in d:
            out = {}
            for k_, v_ in d['__dict__']:
                kk = dyn_native(k_, ctx)
                try:
                    hash(kk)
                except TypeError:
                    kk = repr(kk)
                if kk not in out:
                    out[kk] = dyn_native(v_, ctx)
            return out
        if '__reprstr__' in d:
            from taskchain.utils.data import ReprStr
            return ReprStr(d['__reprstr__'][0], d['__reprstr__'][1])
        if '__path__' in d:
            from pathlib import Path
            return Path(d['__path__'])
        if '__float__' in d:
            return ctx.float_for(d['__float__'])
        if '__obj__' in d:
            return ctx.obj_for(d['__obj__'])
        if '__inst__' in d:
            return ctx.inst_for(d['__inst__'])
        if '__other__' in d:
            return ctx.other_for(d['__other__'])
    raise ValueError(f'bad dyn data {d!r}')


class Ctx:
    """Interpretation of opaque model values (floats, objects) in a replay."""

    def __init__(self, tables=None):
        self.tables = tables or {}
        self.floats = {}
        self.objs = {}

    def float_for(self, name):
        if name not in self.floats:
            self.floats[name] = 0.5 + len(self.floats)
        return self.floats[name]

    def obj_for(self, ident):
        if ident not in self.objs:
            txt = self.tables.get('obj_repr', {}).get(ident)
            self.objs[ident] = DynObj(ident, txt)
        return self.objs[ident]

    def inst_for(self, ident):
        txt = self.tables.get('inst_repr', {}).get(ident)
        return DynInst(ident, txt)

    def other_for(self, ident):
        return (ident, ident)    # a tuple: repr() is well defined

    def opaque(self, sort, d):
        return f'<{d}>'


# =============================================================================================
# generators for the bounded search
# =============================================================================================

ALPHABET = ['a', 'b', 'x', 'n', 'ab', "a'b", 'a, b', 'a:b', 'n::a', 'x=1', 'a###b', '$$$', '', 'A', 'aB', '{A}', "'", '\\', ' ', 'm.v1', 'a.b.c', 'exp.big']
NAMES = ['a', 'b', 'c', 'ab', 'n', 'xn', 'p', 'q', 'm.v1', 'a.b', 'exp.big', 'a_tmp']


class Gen:
    def __init__(self, seed):
        self.r = random.Random(seed)
        self.ctx = Ctx()

    def of(self, kind, depth=0, hint=None):
        r = self.r
        n = kind.name
        if isinstance(kind, K.Opt):
            return None if r.random() < 0.3 else self.of(kind.inner, depth, hint)
        if n == 'Int':
            return r.choice([0, 1, 2, 3, -1, 5, 10, 11, 12])
        if n == 'Bool':
            return r.random() < 0.5
        if n == 'Str':
            if hint == 'name':
                return r.choice(NAMES)
            return r.choice(ALPHABET)
        if n == 'Cls':
            return cls_for(r.choice(['pathlib.Path', 'str', 'int', 'list', 'dict', 'other.X']))
        if n == 'Path':
            from pathlib import Path
            return Path('/' + r.choice(['d', 'data', 'x/y']))
        if isinstance(kind, K.Tup):
            return tuple(self.of(k, depth + 1) for k in kind.items)
        if isinstance(kind, K.Seq):
            ln = r.choice([0, 1, 1, 2, 2, 3, 4])
            return [self.of(kind.elem, depth + 1, hint) for _ in range(ln)]
        if isinstance(kind, K.Map):
            ln = r.choice([0, 1, 2, 2, 3])
            out = {}
            for _ in range(ln):
                k_ = self.of(kind.key, depth + 1, 'name')
                try:
                    out[k_] = self.of(kind.val, depth + 1)
                except TypeError:
                    pass
            return out
        if isinstance(kind, K.Rec):
            gen = getattr(kind, 'native_gen', None)
            if gen is not None:
                return gen(self)
            fields = {f: self.of(k, depth + 1, 'name' if 'name' in f else None) for f, k in kind.fields.items()}
            return make_record(kind, fields, self.ctx)
        if n == 'Dyn':
            return self.dyn(depth)
        if isinstance(kind, K.U):
            return f'<{kind.name}{r.randrange(3)}>'
        raise ValueError(f'no generator for {kind}')

    def dyn(self, depth=0):
        r = self.r
        choices = ['none', 'bool', 'int', 'str', 'str', 'float', 'rstr', 'path', 'obj']
        if depth < 2:
            choices += ['list', 'list', 'dict', 'dict']
        c = r.choice(choices)
        if c == 'none':
            return None
        if c == 'bool':
            return r.random() < 0.5
        if c == 'int':
            return r.choice([0, 1, 2, -1, 10])
        if c == 'float':
            return r.choice([0.5, 1.0, 1e-13, 2e-13, 0.1 + 0.2, 0.3, 2.5])
        if c == 'str':
            return r.choice(ALPHABET)
        if c == 'rstr':
            from taskchain.utils.data import ReprStr
            return ReprStr(r.choice(['/d/x', 'v']), r.choice(['{A}/x', '{B}']))
        if c == 'path':
            from pathlib import Path
            return Path(r.choice(['/x', '/d/y']))
        if c == 'obj':
            return DynObj(r.randrange(3))
        if c == 'list':
            return [self.dyn(depth + 1) for _ in range(r.choice([0, 1, 2, 3]))]
        return {r.choice(['k', 'a', 'b', "a'b", 'z']): self.dyn(depth + 1) for _ in range(r.choice([0, 1, 2, 3]))}


# =============================================================================================
# building the inputs of a contract natively
# =============================================================================================

class NativeInputs:
    def __init__(self, contract, source):
        """source(name, kind) -> native value for the S-shapes."""
        self.c = contract
        self.source = source
        self.values = {}
        self.log = []

    def build_all(self):
        for name, shape in self.c.inputs.items():
            self.values[name] = self.build(shape, name)
        return self.values

    def build(self, sh, path):
        if isinstance(sh, K.Kind):
            sh = dsl.S(sh)
        if isinstance(sh, dsl.S):
            return self.source(sh.name or path, sh.kind)
        if isinstance(sh, dsl.Const):
            return copy.deepcopy(sh.value)
        if isinstance(sh, dsl.Cls):
            return real_class(sh.cls)
        if isinstance(sh, dsl.Obj):
            cls = real_class(sh.cls)
            if issubclass(cls, str):
                payload = self.build(sh.fields.get('__payload__', dsl.Const('')), f'{path}.payload')
                o = str.__new__(cls, payload)
            else:
                o = cls.__new__(cls) if not issubclass(cls, dict) else dict.__new__(cls)
            for f, fs in sh.fields.items():
                if f in ('__payload__',):
                    continue
                if f == '__basedict__':
                    dict.update(o, self.build(fs, f'{path}.basedict'))
                    continue
                v = self.build(fs, f'{path}.{f}')
                try:
                    object.__setattr__(o, f, v)
                except AttributeError:
                    o.__dict__[f] = v
            return o
        if isinstance(sh, dsl.SymList):
            return self.source(sh.name or path, K.Seq(sh.elem))
        if isinstance(sh, dsl.SymDict):
            return self.source(sh.name or path, K.Map(sh.key, sh.val))
        if isinstance(sh, dsl.ListOf):
            return [self.build(s, f'{path}[{i}]') for i, s in enumerate(sh.items)]
        if isinstance(sh, dsl.DictOf):
            return {k_: self.build(s, f'{path}[{k_!r}]') for k_, s in sh.items.items()}
        if isinstance(sh, dsl.Same):
            return self.values[sh.other]
        if isinstance(sh, tuple):
            return tuple(self.build(s, f'{path}[{i}]') for i, s in enumerate(sh))
        if isinstance(sh, dsl.Abs):
            fields = {f: self.build(fs, f'{path}.{f}') for f, fs in sh.fields.items()}
            if sh.iface.native_factory is not None:
                return sh.iface.native_factory(sh.name or path, self.source, self.log, fields)
            return Stub(sh.iface, sh.name or path, self.source, self.log, fields)
        if isinstance(sh, dsl.Fn):
            return self.source(getattr(sh, 'name', None) or path, sh)
        if sh is None or isinstance(sh, (bool, int, str)):
            return sh
        raise ValueError(f'shape {sh!r}')


# =============================================================================================
# running one concrete case
# =============================================================================================

def make_exc(outcome, evname):
    import builtins
    if outcome in ('raise', 'Opaque'):
        return Opaque(evname)
    cls = getattr(builtins, outcome, None)
    if isinstance(cls, type) and issubclass(cls, BaseException):
        return cls(evname)
    if ':' in outcome:
        try:
            return real_class(outcome)(evname)
        except Exception:
            pass
    return Opaque(evname)


class Patches:
    def __init__(self):
        self.saved = []

    def set(self, owner, name, value):
        had = name in owner.__dict__
        self.saved.append((owner, name, owner.__dict__.get(name), had))
        setattr(owner, name, value)

    def undo(self):
        for owner, name, old, had in reversed(self.saved):
            if had:
                setattr(owner, name, old)
            else:
                try:
                    delattr(owner, name)
                except AttributeError:
                    pass
        self.saved = []


def install_callee_contracts(contract, patches, log, source=None):
    """Replace each callee that the contract takes by contract with its contract (spec function)."""
    cm = contract.module.py
    for key, spec in contract.callees.items():
        if not isinstance(spec, dsl.ByContract):
            continue
        try:
            owner, name, raw = real_attr(key)
        except (AttributeError, KeyError, ModuleNotFoundError):
            continue
        evname = spec.event or key.split(':')[1]
        if spec.spec:
            fn = getattr(cm, spec.spec)
        elif isinstance(spec.ret, K.Kind) or spec.ret is None:
            counter = {'n': 0}

            def fn(*a, _ev=evname, _spec=spec, _c=counter, **k):
                _c['n'] += 1
                if _spec.ret is None:
                    return None
                return source(f'{_ev}#{_c["n"] - 1}', _spec.ret)
        else:
            continue

        def make(fn=fn, evname=evname, spec=spec):
            def stub(*a, **k):
                if spec.raises:
                    o = source.outcome(evname) if hasattr(source, 'outcome') else 'ret'
                    if o != 'ret':
                        log.append((evname, a, None, 'raise'))
                        raise make_exc(o if o != 'raise' else spec.raises[0], evname)
                r = fn(*a, **k)
                if spec.event is not None or not spec.pure:
                    log.append((evname, a, r, 'ret'))
                return r
            return stub
        stub = make()
        if isinstance(raw, property):
            patches.set(owner, name, property(stub))
        elif isinstance(raw, staticmethod):
            patches.set(owner, name, staticmethod(stub))
        elif isinstance(raw, classmethod):
            patches.set(owner, name, classmethod(stub))
        else:
            patches.set(owner, name, stub)


def snapshot(v, memo, depth=0):
    """Entry snapshot of an input for `old_<name>` clause parameters (structural copy; stubs are frozen)."""
    if id(v) in memo:
        return memo[id(v)]
    if depth > 8 or v is None or isinstance(v, (str, int, float, bool, type)):
        return v
    if isinstance(v, Stub):
        d = object.__getattribute__(v, '__dict__')
        snap = types.SimpleNamespace()
        memo[id(v)] = snap
        for k_, x in d.items():
            if not k_.startswith('_'):
                setattr(snap, k_, snapshot(x, memo, depth + 1))
        for k_, fn in d.get('_dyn', {}).items():
            try:
                setattr(snap, k_, fn(v))
            except Exception:
                pass
        return snap
    if isinstance(v, list):
        out = []
        memo[id(v)] = out
        out.extend(snapshot(x, memo, depth + 1) for x in v)
        return out
    if isinstance(v, tuple):
        return tuple(snapshot(x, memo, depth + 1) for x in v)
    if type(v) is dict:
        out = {}
        memo[id(v)] = out
        for k_, x in v.items():
            out[k_] = snapshot(x, memo, depth + 1)
        return out
    mod = type(v).__module__
    if hasattr(v, '__dict__') and (mod.startswith('taskchain') or mod.startswith('pyvc') or mod == 'types'):
        try:
            if isinstance(v, str):
                o = str.__new__(type(v), str(v))
            elif isinstance(v, dict):
                o = dict.__new__(type(v))
                dict.update(o, {k_: snapshot(x, memo, depth + 1) for k_, x in dict.items(v)})
            else:
                o = object.__new__(type(v))
            memo[id(v)] = o
            for k_, x in vars(v).items():
                o.__dict__[k_] = snapshot(x, memo, depth + 1)
            return o
        except Exception:
            return v
    try:
        return copy.deepcopy(v)
    except Exception:
        return v


def call_by_name(fn, available):
    import inspect
    params = list(inspect.signature(fn).parameters)
    return fn(*[available[p] for p in params])


def run_case(contract, values, log=None, source=None):
    """Run the real target on native inputs; returns dict(outcome, result, raised, clause results)."""
    cm = contract.module.py
    patches = Patches()
    log = log if log is not None else []
    out = {'clauses': {}, 'requires_ok': True}
    try:
        for rq in list(contract.requires):
            try:
                if not call_by_name(getattr(cm, rq), values):
                    out['requires_ok'] = False
                    return out
            except Exception as e:
                out['requires_ok'] = False
                out['requires_error'] = repr(e)
                return out
        olds = {}
        memo = {}
        for n, v in values.items():
            olds[f'old_{n}'] = snapshot(v, memo)
        target = contract.native_target(values) if getattr(contract, 'native_target', None) else real_callable(contract.target)
        install_callee_contracts(contract, patches, log, source)
        if getattr(contract, 'native_setup', None):
            try:
                contract.native_setup(values, patches, source, log)
            except HarnessGap:
                out['requires_ok'] = False
                return out
        names = contract.call if contract.call is not None else list(contract.inputs.keys())
        args = [values[n] for n in names]
        kwargs = {p: values[n] for p, n in contract.kwargs.items()}
        if getattr(contract, 'star', None):
            args += list(values[contract.star])
        if getattr(contract, 'starstar', None):
            kwargs.update(values[contract.starstar])
        avail = dict(values)
        avail.update(olds)
        try:
            res = target(*args, **kwargs)
            if isinstance(res, types.GeneratorType):
                res = list(res)
            out['outcome'] = 'return'
            avail['result'] = res
            avail['raised'] = None
            clauses = list(contract.ensures.items()) + list(contract.ensures_all.items())
        except Exception as e:
            if isinstance(e, AttributeError) and _shape_gap(e, values):
                raise HarnessGap(str(e))
            out['outcome'] = 'raise'
            out['exception'] = f'{type(e).__name__}: {e}'
            avail['result'] = None
            avail['raised'] = exc_name(e)
            avail['exc'] = e
            clauses = list(contract.ensures_raise.items()) + list(contract.ensures_all.items())
        avail['trace'] = TraceLog(log)
        out['result'] = _short(avail.get('result'))
        out['raised'] = avail['raised']
        patches.undo()
        for cname, fname in clauses:
            try:
                ok = bool(call_by_name(getattr(cm, fname), avail))
                out['clauses'][cname] = ok
            except Exception as e:
                out['clauses'][cname] = f'clause error: {type(e).__name__}: {e}'
        return out
    finally:
        patches.undo()


class HarnessGap(Exception):
    """the real code touched an attribute the contract's input shape does not provide: not a verdict"""


def _shape_gap(e, values):
    obj = getattr(e, 'obj', None)
    if obj is None:
        return False
    seen = set()

    def reach(v, d=0):
        if id(v) in seen or d > 4:
            return False
        seen.add(id(v))
        if v is obj:
            return True
        if isinstance(v, (list, tuple)):
            return any(reach(x, d + 1) for x in v)
        if isinstance(v, dict):
            return any(reach(x, d + 1) for x in v.values())
        if hasattr(v, '__dict__') and not isinstance(v, type):
            return any(reach(x, d + 1) for x in vars(v).values())
        return False
    return any(reach(v) for v in values.values())


def exc_name(e):
    t = type(e)
    if t.__module__ == 'builtins':
        return t.__name__
    if t.__module__.startswith('taskchain'):
        return f'{t.__module__}:{t.__qualname__}'
    # map to the nearest builtin base for clause purposes
    for b in t.__mro__:
        if b.__module__ == 'builtins':
            return b.__name__
    return t.__name__


class TraceLog:
    def __init__(self, log):
        self.events = [tuple(e) + ('ret',) * (4 - len(e)) if len(e) < 4 else tuple(e) for e in log]

    def count(self, name, recv=None):
        return sum(1 for e in self.events if e[0] == name)

    def has(self, name, recv=None):
        return any(e[0] == name for e in self.events)

    def index(self, name, recv=None):
        for i, e in enumerate(self.events):
            if e[0] == name:
                return i
        return -1

    def last_index(self, name, recv=None):
        r = -1
        for i, e in enumerate(self.events):
            if e[0] == name:
                r = i
        return r

    def names(self):
        return tuple(e[0] for e in self.events)

    def returned(self, name, recv=None):
        return sum(1 for e in self.events if e[0] == name and e[3] == 'ret')

    def arg(self, name, i, nth=0, recv=None):
        return [e for e in self.events if e[0] == name][nth][1][i]

    def ret(self, name, nth=0, recv=None):
        return [e for e in self.events if e[0] == name][nth][2]

    @property
    def length(self):
        return len(self.events)


def describe(v, depth=0):
    if depth > 6:
        return '...'
    if isinstance(v, (str, int, float, bool)) or v is None:
        return repr(v)
    if isinstance(v, (list, tuple)):
        inner = ', '.join(describe(x, depth + 1) for x in v)
        return f'[{inner}]' if isinstance(v, list) else f'({inner})'
    if isinstance(v, dict) and type(v) is dict:
        return '{' + ', '.join(f'{describe(k_, depth + 1)}: {describe(x, depth + 1)}' for k_, x in v.items()) + '}'
    if isinstance(v, (DynObj, DynInst)):
        return f'{type(v).__name__}({v.ident})'
    if hasattr(v, '__dict__') and not isinstance(v, type) and type(v).__module__.startswith(('taskchain', 'pyvc', 'types')):
        try:
            fields = ', '.join(f'{k_}={describe(x, depth + 1)}' for k_, x in vars(v).items())
            base = ''
            if isinstance(v, str):
                base = repr(str(v)) + '; '
            return f'{type(v).__name__}<{base}{fields}>'
        except Exception:
            pass
    return repr(v)


def _short(v, n=300):
    s = describe(v)
    return s if len(s) <= n else s[:n] + '...'


# =============================================================================================
# bounded search
# =============================================================================================

def search(contract, clause_names, seed, budget, per_case=None, seconds=None):
    """Random bounded search on the real code for an input falsifying one of the clauses.
    Returns (case or None, stats)."""
    import time
    found = None
    tried = 0
    valid = 0
    t0 = time.time()
    for i in range(budget):
        if seconds is not None and time.time() - t0 > seconds:
            break
        g = Gen(seed * 1000003 + i)
        source = RandomSource(g, contract)
        src_vals = source.sofar
        try:
            ni = NativeInputs(contract, source)
            vals = ni.build_all()
        except ValueError:
            return None, {'tried': 0, 'valid': 0, 'unsupported': True}
        tried += 1
        try:
            out = run_case(contract, vals, ni.log, source)
        except HarnessGap:
            continue
        except Exception as e:   # harness problem, not a verdict
            continue
        if not out.get('requires_ok'):
            continue
        valid += 1
        bad = [c for c, ok in out['clauses'].items() if ok is not True and (not clause_names or c in clause_names)]
        if bad:
            found = {'inputs': {k_: _short(v, 2000) for k_, v in src_vals.items()}, 'raw': src_vals, 'out': out, 'failed': bad,
                     'regen': seed * 1000003 + i, 'script': list(source.script)}
            break
    return found, {'tried': tried, 'valid': valid}
