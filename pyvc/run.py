"""Per-path state (Run) and the re-execution path explorer.

A function under contract is executed from the start once per path.  Every symbolic branch asks
Run.decide(); decisions beyond the given prefix take the first feasible side and queue the other.
Fresh symbols are numbered deterministically, so re-executing a prefix rebuilds identical terms.
"""
import os
import time
import z3
from . import kinds as K
from .values import *


class Obligation:
    def __init__(self, name, kind, hyps, goal, meta=None):
        self.name = name
        self.kind = kind            # 'post' | 'inv.init' | 'inv.step' | 'pre' | 'frame' | 'crash' | 'cover' | 'canary' | 'lemma'
        self.hyps = list(hyps)
        self.goal = goal
        self.meta = meta or {}
        self.expect = 'unsat'       # 'unsat' for proof obligations (negated goal), 'sat' for covers/canaries
        self.result = None

    def __repr__(self):
        return f'<obl {self.name} {self.kind}>'


class PathResult:
    def __init__(self):
        self.kind = None            # 'return' | 'raise' | 'end:<why>'
        self.value = None
        self.exc = None
        self.run = None
        self.tags = []


_feas_stats = {'calls': 0, 'time': 0.0}


class Run:
    def __init__(self, prefix, explorer):
        self.prefix = list(prefix)
        self.explorer = explorer
        self.decisions = []
        self.alternatives = []
        self.pc = []                # path condition + assumed facts (z3 Bools)
        self.axioms = []            # definitional instances of assumed (L0) contracts / spec functions: valid on every path
        self.heap = {}
        self.next_addr = 1
        self.trace = []
        self.obligations = []
        self.obligations_sink = self.obligations   # sub-evaluations (merged clauses) record lemma obligations in the outer run
        self.tags = []
        self.ghost = {'_qdefs': {}, '_pure': {}, '_spec_inst': set(), '_unfolding': {}, '_combs': {}, '_fm_apps': [], '_snoc': {}, '_gsnoc': {}, '_captured': [], '_pure_args': {},
                      '_join_inst': set(), '_wf_maps': set(), '_axiom_ids': set(), '_modcache': {}, '_lemma_ids': set()}
        # named ghost state (file system, handler lists, definitions of named formulas ...) + caches shared with sub-evaluations
        self.inputs = {}            # name -> (kind, term) : the symbols a replay has to decode
        self.assumed = set()        # ids of L0 contracts used on this path
        self.snapshots = []         # (label, pc copy, ghost copy) for crash invariants
        self.depth = 0
        self.fresh_n = 0
        self.notes = []

    # -- fresh symbols (deterministic per path prefix) -------------------------------------
    def fresh(self, kind, hint='v'):
        self.fresh_n += 1
        return Sym(kind, z3.Const(f'{hint}!{self.fresh_n}', kind.sort()))

    def input(self, kind, name):
        s = Sym(kind, z3.Const(name, kind.sort()))
        self.inputs[name] = (kind, s.t)
        return s

    # -- heap ----------------------------------------------------------------------------
    def alloc(self, cell):
        a = self.next_addr
        self.next_addr += 1
        self.heap[a] = cell
        return Ref(a)

    def cell(self, ref):
        return self.heap[ref.addr]

    # -- assumptions / decisions ---------------------------------------------------------
    def assume(self, fact, l0=None):
        if fact is True:
            return
        if fact is False:
            if __import__('os').environ.get('PYVC_TRACE'):
                import traceback
                traceback.print_stack(limit=12)
            raise PathEnd('infeasible')
        fact = z3.simplify(fact) if not isinstance(fact, bool) else fact
        if z3.is_true(fact):
            return
        if z3.is_false(fact):
            raise PathEnd('infeasible')
        self.pc.append(fact)
        if l0:
            self.assumed.add(l0)

    def axiom(self, fact, l0=None):
        """a universally valid fact (instance of a definition / assumed library contract): independent of the path"""
        if l0:
            self.assumed.add(l0)
        if fact is True or (not isinstance(fact, bool) and z3.is_true(fact)):
            return
        key = fact.get_id()
        seen = self.ghost.setdefault('_axiom_ids', set())
        if key in seen:
            return
        seen.add(key)
        self.axioms.append(fact)

    def feasible(self, extra):
        _feas_stats['calls'] += 1
        t0 = time.time()
        s = z3.Solver()
        s.set('timeout', self.explorer.feas_timeout_ms)
        for f in self.axioms:
            s.add(f)
        for f in self.pc:
            s.add(f)
        for f in self.ghost.get('_qdefs', {}).values():
            s.add(f)
        for f in extra:
            s.add(f)
        r = timed_check(s, self.explorer.feas_timeout_ms)
        _feas_stats['time'] += time.time() - t0
        return r != z3.unsat

    def decide(self, cond, tag=None):
        """Branch on a z3 Bool (or python bool).  Returns the python bool of the side taken."""
        if isinstance(cond, bool):
            return cond
        cond = z3.simplify(cond)
        if z3.is_true(cond):
            return True
        if z3.is_false(cond):
            return False
        idx = len(self.decisions)
        if idx < len(self.prefix):
            choice = self.prefix[idx]
        else:
            if getattr(self, 'in_merge', False):
                # inside a merged (pure) evaluation every branch is kept: an infeasible one only contributes a
                # dead arm to the ITE
                ft = ff = True
            else:
                ft = self.feasible([cond])
                ff = self.feasible([z3.Not(cond)])
            if self.explorer.check_prune and not (ft and ff):
                hyps = list(self.axioms) + list(self.pc) + list(self.ghost.get('_qdefs', {}).values())
                for side_ok, c_ in ((ft, cond), (ff, z3.Not(cond))):
                    if not side_ok:
                        ob = Obligation('pruned_branch', 'prune', hyps, z3.Not(c_), {'tags': list(self.tags) + [f'pruned:{tag or idx}'], 'cname': None})
                        self.explorer.pruned.append(ob)
            if ft and ff:
                choice = True
                self.alternatives.append(self.decisions + [False])
            elif ft:
                choice = True
            elif ff:
                choice = False
            else:
                raise PathEnd('infeasible')
        self.decisions.append(choice)
        self.pc.append(cond if choice else z3.Not(cond))
        if tag:
            self.tags.append(f'{tag}:{"T" if choice else "F"}')
        return choice

    def choose(self, n, tag=None, labels=None):
        """Non-deterministic n-way choice made by the environment (e.g. an abstract callee returns or
        raises).  No path condition is attached."""
        idx = len(self.decisions)
        if idx < len(self.prefix):
            choice = self.prefix[idx]
        else:
            choice = 0
            for alt in range(1, n):
                self.alternatives.append(self.decisions + [alt])
        self.decisions.append(choice)
        if tag:
            self.tags.append(f'{tag}:{labels[choice] if labels else choice}')
        return choice

    def oblige(self, name, kind, goal, meta=None):
        if isinstance(goal, bool):
            goal = z3.BoolVal(goal)
        goal = z3.simplify(goal)        # the same normal form as the assumed facts (equal formulas become identical terms)
        m = {'tags': list(self.tags)}
        m.update(meta or {})
        ob = Obligation(name, kind, list(self.axioms) + list(self.pc) + list(self.ghost.get('_qdefs', {}).values()), goal, m)
        ob.meta['inputs'] = dict(self.inputs)
        ob.meta['trace'] = list(self.trace)
        ob.meta['input_values'] = dict(self.ghost.get('_input_values', {}))
        ob.meta['heap'] = {a: c.copy() for a, c in self.heap.items()}
        if kind != 'lemma':
            self.obligations.append(ob)
        return ob

    def snapshot(self, label):
        self.snapshots.append((label, list(self.pc), dict(self.ghost), list(self.tags)))


def timed_check(solver, timeout_ms):
    """solver.check() with a hard wall-clock limit (z3's own timeout is not honoured inside the sequence solver)"""
    import threading
    ctx = solver.ctx
    t = threading.Timer(timeout_ms / 1000.0 + 0.2, ctx.interrupt)
    t.start()
    try:
        try:
            return solver.check()
        except z3.Z3Exception:
            return z3.unknown
    finally:
        t.cancel()


class Explorer:
    def __init__(self, feas_timeout_ms=2000, max_paths=400):
        self.feas_timeout_ms = feas_timeout_ms
        self.max_paths = max_paths
        # branches the in-process feasibility check declared infeasible: re-checked by the solver portfolio when
        # PYVC_CHECK_PRUNE is set (thorough tier), since a wrong 'infeasible' would silently drop a path
        self.pruned = []
        self.check_prune = bool(os.environ.get('PYVC_CHECK_PRUNE'))

    def explore(self, entry):
        """entry(run) executes the function once; returns list of PathResult."""
        results = []
        work = [[]]
        while work:
            if len(results) >= self.max_paths:
                raise OutOfSubset(f'more than {self.max_paths} paths')
            prefix = work.pop()
            run = Run(prefix, self)
            res = PathResult()
            res.run = run
            try:
                v = entry(run)
                res.kind = 'return'
                res.value = v
            except ReturnEx as r:
                res.kind = 'return'
                res.value = r.value
            except RaiseEx as r:
                res.kind = 'raise'
                res.exc = r.exc
            except PathEnd as p:
                res.kind = 'end:' + p.kind
            res.tags = list(run.tags)
            for alt in run.alternatives:
                work.append(alt)
            if res.kind != 'end:infeasible':
                results.append(res)
        return results
