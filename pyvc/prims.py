"""Primitive functions usable in spec / clause functions of contract modules.  Native definitions here;
their symbolic counterparts are registered in pyvc.models (ext_overrides)."""
import hashlib


def sha256_hex(text):
    """hashlib.sha256(text.encode()).hexdigest()  -- A-sha: an uninterpreted total function to 64 hex digits."""
    return hashlib.sha256(text.encode()).hexdigest()


def pyrepr(v):
    return repr(v)


def implies(a, b):
    return (not a) or b


def seq_prefix(xs, k):
    return xs[:k]


# ---- serialisation libraries and file contents (assumed contracts; native twins for replays) -------------
def orjson_dumps(value, option):
    import orjson
    return orjson.dumps(value, option=_orjson_option(option)).decode()


def _orjson_option(option):
    import orjson
    o = 0
    for bit, flag in ((1, orjson.OPT_SORT_KEYS), (2, orjson.OPT_SERIALIZE_NUMPY), (4, orjson.OPT_NON_STR_KEYS), (8, orjson.OPT_INDENT_2)):
        if option & bit:
            o |= flag
    return o


def orjson_loads(text):
    import orjson
    return orjson.loads(text)


def content_append(content, text):
    return (content or '') + text


def content_text(content):
    return content or ''


def npy_bytes(value):
    import io
    import numpy as np
    b = io.BytesIO()
    np.save(b, value)
    return b.getvalue()


def npy_load(content):
    import io
    import numpy as np
    return np.load(io.BytesIO(content))


def lib_bytes(fn_name, value):
    """opaque serialised bytes of a value by the named library function (pd_bytes, fig_bytes, ...)"""
    return (fn_name, repr(value))


def lib_load(fn_name, content):
    return (fn_name, content)


def seq_fold(fn, init, xs):
    """left fold:  fn(...fn(fn(init, xs[0]), xs[1])..., xs[n-1])"""
    import functools
    return functools.reduce(fn, xs, init)


def str_strip(s):
    return s.strip()


def lib_text(fn_name, value):
    return (fn_name, repr(value))


def lemma(fact):
    """proof hint inside a clause: `fact` becomes a separate (supporting) obligation under the clause's current
    hypotheses and is then available to the clause's own obligation.  Natively it must simply hold."""
    return bool(fact)


def all_of(*facts):
    """conjunction whose operands are all evaluated (no short-circuit): one formula, no case split"""
    return all(bool(f) for f in facts)


def any_of(*facts):
    return any(bool(f) for f in facts)


def seq_take(xs, n):
    """xs[:n] for n >= 0"""
    assert n >= 0
    return xs[:n]


def seq_drop(xs, n):
    """xs[n:] for n >= 0"""
    assert n >= 0
    return xs[n:]


def seq_slice(xs, lo, hi):
    """xs[lo:hi] for lo >= 0"""
    assert lo >= 0
    return xs[lo:hi] if hi >= lo else xs[0:0]


def same_map(a, b):
    """equal mappings INCLUDING insertion order (python's == on dicts ignores the order)"""
    return list(a.items()) == list(b.items())


def empty_map(key_kind, val_kind):
    """an empty dict whose (symbolic) kind is Map(key_kind, val_kind); kinds by name: 'Str', 'Int', 'Bool', 'Dyn', 'Val'"""
    return {}


def empty_seq(elem_kind):
    return []


# ---- networkx (A-nx): the mathematical notions on the edge set
def nx_desc(graph, node):
    import networkx as nx
    return set(nx.descendants(graph, node))


def nx_anc(graph, node):
    import networkx as nx
    return set(nx.ancestors(graph, node))


def nx_has_path(graph, a, b):
    import networkx as nx
    return nx.has_path(graph, a, b)


# ---- C10: the resolution rule of a chain's accessors as ONE abstract relation (what `in` answers, what `get` returns);
#      symbolically two uninterpreted functions of (name, tasks) - a contract stated with them holds for whatever rule
#      the accessors implement, and ties a caller to that rule exactly
def c10_resolves(item, names):
    from contracts.names import resolvable
    return resolvable(item, list(names))


def c10_target(item, names):
    from contracts.names import name_matches, less_nested
    M = [t for t in names if name_matches(item, t, True)]
    for c in M:
        if all(less_nested(c, t) for t in M):
            return c
    return None


def set_with(s, x):
    return set(s) | {x}


def set_union(a, b):
    return set(a) | set(b)


def empty_set(elem_kind):
    return set()
