"""Primitive functions usable in spec / clause functions of contract modules.  Native definitions here;
their symbolic counterparts are registered in pyvc.models (ext_overrides)."""
import hashlib


def sha256_hex(text):
    """hashlib.sha256(text.encode()).hexdigest()  -- A-sha: an uninterpreted total function to 64 hex digits."""
    return hashlib.sha256(text.encode()).hexdigest()


def pyrepr(v):
    return repr(v)


def implies(a, b):
    return (not a) or b


def seq_prefix(xs, k):
    return xs[:k]
