"""Python semantics over symbolic values: truthiness, comparison, arithmetic, str/list/dict methods,
attribute access, instantiation.  Assumed contracts of builtins (L0) are tagged through run.assumed."""
import ast
import z3
from . import kinds as K
from .kinds import Sym
from .values import *


# =============================================================================================
# helpers
# =============================================================================================

def is_str(v):
    return isinstance(v, str) or (isinstance(v, Sym) and v.kind == K.Str)


def is_int(v):
    return (isinstance(v, int) and not isinstance(v, bool)) or (isinstance(v, Sym) and v.kind == K.Int)


def is_bool(v):
    return isinstance(v, bool) or (isinstance(v, Sym) and v.kind == K.Bool)


def lift(ex, v, kind):
    """Turn a value into a z3 term of the given kind."""
    if isinstance(v, Sym):
        if v.kind == kind:
            return v.t
        if isinstance(kind, K.Opt):
            if v.kind == kind.inner:
                return kind.some(v.t)
            if isinstance(v.kind, K.Opt) and v.kind.inner == kind.inner:
                return v.t
        if isinstance(v.kind, K.Opt) and v.kind.inner == kind:
            if ex.run.decide(v.kind.is_none(v.t)):
                raise OutOfSubset(f'None flows into a non-optional {kind} position')
            return v.kind.val(v.t)
        if kind == K.Str and v.kind == K.Path:
            return v.t
        if kind == K.Path and v.kind == K.Str:
            return v.t
        if kind == K.Dyn:
            return to_dyn(ex, v)
        raise OutOfSubset(f'cannot lift {v.kind} to {kind}')
    if isinstance(kind, K.Opt):
        if v is None:
            return kind.none()
        return kind.some(lift(ex, v, kind.inner))
    if kind == K.Int and isinstance(v, int) and not isinstance(v, bool):
        return z3.IntVal(v)
    if kind == K.Bool and isinstance(v, bool):
        return z3.BoolVal(v)
    if kind in (K.Str, K.Path) and isinstance(v, str):
        return z3.StringVal(v)
    if kind == K.Dyn:
        return to_dyn(ex, v)
    if isinstance(kind, K.Tup) and isinstance(v, tuple) and len(v) == len(kind.items):
        return kind.mk(*[lift(ex, x, k) for x, k in zip(v, kind.items)])
    if isinstance(kind, K.Seq):
        if isinstance(v, (tuple, list)):
            return seq_of(ex, [lift(ex, x, kind.elem) for x in v], kind)
        if isinstance(v, Ref):
            cell = ex.run.cell(v)
            if isinstance(cell, HList):
                if cell.sym is not None:
                    if cell.sym.kind == kind:
                        return cell.sym.t
                else:
                    return seq_of(ex, [lift(ex, x, kind.elem) for x in cell.items], kind)
    if isinstance(kind, K.Map) and isinstance(v, Ref):
        cell = ex.run.cell(v)
        if isinstance(cell, HDict):
            return dict_to_map(ex, cell, kind).t
    if isinstance(kind, K.Rec) and isinstance(v, Ref):
        cell = ex.run.cell(v)
        if isinstance(cell, HObj):
            return kind.mk(**{f: lift(ex, cell.fields[f], k) for f, k in kind.fields.items()})
    raise OutOfSubset(f'cannot lift {v!r} to {kind}')


def seq_of(ex, terms, kind):
    if not terms:
        return z3.Empty(kind.sort())
    if len(terms) == 1:
        return z3.Unit(terms[0])
    return z3.Concat(*[z3.Unit(t) for t in terms])


def kind_of(ex, v):
    """Best static kind for a value (used when a concrete container becomes symbolic)."""
    if isinstance(v, Sym):
        return v.kind
    if isinstance(v, bool):
        return K.Bool
    if isinstance(v, int):
        return K.Int
    if isinstance(v, str):
        return K.Str
    if isinstance(v, tuple):
        return K.Tup(*[kind_of(ex, x) for x in v])
    if isinstance(v, Ref):
        cell = ex.run.cell(v)
        if isinstance(cell, HList):
            if cell.sym is not None:
                return cell.sym.kind
            if cell.items:
                return K.Seq(kind_of(ex, cell.items[0]))
        if isinstance(cell, HDict) and cell.sym is not None:
            return cell.sym.kind
    raise OutOfSubset(f'no kind for {v!r}')


def str_t(ex, v):
    return lift(ex, v, K.Str)


def int_t(ex, v):
    return lift(ex, v, K.Int)


def concat_strs(ex, parts):
    parts = [p for p in parts if not (isinstance(p, str) and p == '')]
    if all(isinstance(p, str) for p in parts):
        return ''.join(parts)
    # merge adjacent constants
    merged = []
    for p in parts:
        if isinstance(p, str) and merged and isinstance(merged[-1], str):
            merged[-1] += p
        else:
            merged.append(p)
    ts = [str_t(ex, p) for p in merged]
    if len(ts) == 1:
        return Sym(K.Str, ts[0])
    return Sym(K.Str, z3.Concat(*ts))


# =============================================================================================
# truthiness / not
# =============================================================================================

def truth(ex, v):
    run = ex.run
    if v is None or isinstance(v, (bool, int, float, str, tuple)):
        return bool(v)
    if isinstance(v, Sym):
        k = v.kind
        if k == K.Bool:
            return run.decide(v.t)
        if k == K.Int:
            return run.decide(v.t != 0)
        if k in (K.Str,):
            return run.decide(z3.Length(v.t) > 0)
        if k == K.Path:
            return True
        if isinstance(k, K.Seq):
            return run.decide(z3.Length(v.t) > 0)
        if isinstance(k, K.Map):
            return run.decide(z3.Length(k.keys(v.t)) > 0)
        if isinstance(k, K.Opt):
            if run.decide(k.is_none(v.t)):
                return False
            return truth(ex, Sym(k.inner, k.val(v.t)))
        if isinstance(k, (K.Rec, K.U, K.Tup)):
            if isinstance(k, K.Rec) and k.cls:
                ci = ex.table.cls(k.cls)
                for nm in ('__bool__', '__len__'):
                    r = ci.lookup(nm)
                    if r and r[0] == 'method':
                        res = ex.call(BoundMethod(ex.func_of(r[1]), v), [], {})
                        return truth(ex, res)
            return True
        if k == K.Dyn:
            return run.decide(dyn_truth(ex, v.t))
        raise OutOfSubset(f'truthiness of {k}')
    if isinstance(v, Ref):
        cell = run.cell(v)
        if isinstance(cell, HList):
            if cell.sym is not None:
                return run.decide(z3.Length(cell.sym.t) > 0)
            return len(cell.items) > 0
        if isinstance(cell, HDict):
            if cell.sym is not None:
                return run.decide(z3.Length(cell.sym.kind.keys(cell.sym.t)) > 0)
            return len(cell.items) > 0
        if isinstance(cell, HSet):
            if cell.sym is not None:
                raise OutOfSubset('truth of symbolic set')
            return len(cell.items) > 0
        if isinstance(cell, HObj):
            if not isinstance(cell.cls, tuple):
                for nm in ('__bool__', '__len__'):
                    r = cell.cls.lookup(nm)
                    if r and r[0] == 'method':
                        res = ex.call(BoundMethod(ex.func_of(r[1]), v), [], {})
                        return truth(ex, res)
                if cell.cls.is_subclass_of(('ext', 'builtins.dict')) and cell.payload is not None:
                    return truth(ex, cell.payload)
                if cell.cls.is_subclass_of(('ext', 'builtins.str')) and cell.payload is not None:
                    return truth(ex, cell.payload)
            return True
        if isinstance(cell, AbstractObj):
            tr = cell.iface.truthy
            if tr is True:
                return True
            return truth(ex, tr(ex, v))
    if isinstance(v, (FuncVal, BoundMethod, Builtin, ClassVal, ModuleVal, ExcVal, AbstractFn)):
        return True
    raise OutOfSubset(f'truthiness of {v!r}')


def not_(ex, v):
    if isinstance(v, Sym) and v.kind == K.Bool:
        return Sym(K.Bool, z3.Not(v.t))
    return not truth(ex, v)


def dyn_truth(ex, t):
    J, JL, JD = K.dyn_sorts()
    return z3.And(z3.Not(J.is_JNone(t)),
                  z3.Implies(J.is_JBool(t), J.jbool(t)),
                  z3.Implies(J.is_JInt(t), J.jint(t) != 0),
                  z3.Implies(J.is_JStr(t), z3.Length(J.jstr(t)) > 0),
                  z3.Implies(J.is_JRStr(t), z3.Length(J.jrs_value(t)) > 0),
                  z3.Implies(J.is_JList(t), z3.Not(JL.is_JNil(J.jlist(t)))),
                  z3.Implies(J.is_JDict(t), z3.Not(JD.is_JDNil(J.jdict(t)))),
                  z3.Implies(J.is_JFloat(t), ufn('float_truth', [z3.IntSort()], z3.BoolSort())(J.jfloat(t))),
                  z3.Implies(J.is_JOther(t), ufn('other_truth', [z3.IntSort()], z3.BoolSort())(J.jother_id(t))))


_ufs = {}


def mpat(*ts):
    try:
        return z3.MultiPattern(*ts)
    except z3.Z3Exception:
        return None


def forall(vs, body, patterns=None):
    if patterns:
        patterns = [p for p in patterns if p is not None]
    """ForAll with explicit patterns when z3 accepts them (it rejects some over interpreted seq terms)."""
    if patterns:
        try:
            return z3.ForAll(vs, body, patterns=patterns)
        except z3.Z3Exception:
            pass
    return z3.ForAll(vs, body)


def ufn(name, dom, rng):
    key = (name, tuple(str(d) for d in dom), str(rng))
    if key not in _ufs:
        _ufs[key] = z3.Function(name, *dom, rng)
    return _ufs[key]


# =============================================================================================
# Dyn conversion
# =============================================================================================

def to_dyn(ex, v):
    J, JL, JD = K.dyn_sorts()
    if v is None:
        return J.JNone
    if isinstance(v, bool):
        return J.JBool(z3.BoolVal(v))
    if isinstance(v, int):
        return J.JInt(z3.IntVal(v))
    if isinstance(v, str):
        return J.JStr(z3.StringVal(v))
    if isinstance(v, Sym):
        if v.kind == K.Dyn:
            return v.t
        if v.kind == K.Str:
            return J.JStr(v.t)
        if v.kind == K.Int:
            return J.JInt(v.t)
        if v.kind == K.Bool:
            return J.JBool(v.t)
        if v.kind == K.Path:
            return J.JPath(v.t)
        if v.kind == K.DynL:
            return J.JList(v.t)
        if isinstance(v.kind, K.Opt):
            return z3.If(v.kind.is_none(v.t), J.JNone, to_dyn(ex, Sym(v.kind.inner, v.kind.val(v.t))))
    if isinstance(v, Ref):
        cell = ex.run.cell(v)
        if isinstance(cell, HList) and cell.items is not None:
            t = JL.JNil
            for it in reversed(cell.items):
                t = JL.JCons(to_dyn(ex, it), t)
            return J.JList(t)
        if isinstance(cell, HDict) and cell.items is not None:
            t = JD.JDNil
            for k, it in reversed(list(cell.items.items())):
                t = JD.JDCons(to_dyn(ex, k), to_dyn(ex, it), t)
            return J.JDict(t)
        if isinstance(cell, HObj) and not isinstance(cell.cls, tuple) and cell.cls.name == 'ReprStr':
            return J.JRStr(str_t(ex, cell.payload), str_t(ex, cell.ghost.get('orig', '')))
    raise OutOfSubset(f'cannot convert {v!r} to Dyn')


def dyn_elems(ex, tl):
    """Abstract view of a JL cons-list as a sequence of J (axioms instantiated for the constructors seen)."""
    J, JL, JD = K.dyn_sorts()
    f = ufn('dyn_elems', [JL], z3.SeqSort(J))
    return f(tl)


def dyn_items(ex, td):
    J, JL, JD = K.dyn_sorts()
    kv = K.Tup(K.Dyn, K.Dyn)
    f = ufn('dyn_items', [JD], z3.SeqSort(kv.sort()))
    return f(td)


# =============================================================================================
# str() / repr()
# =============================================================================================

def int_to_str(t):
    return z3.If(t < 0, z3.Concat(z3.StringVal('-'), z3.IntToStr(-t)), z3.IntToStr(t))


def py_str(ex, v):
    if v is None or isinstance(v, (bool, int, str)):
        return str(v)
    if isinstance(v, float):
        return str(v)
    if isinstance(v, Sym):
        k = v.kind
        if k in (K.Str, K.Path):
            return Sym(K.Str, v.t)
        if k == K.Cls:
            return Sym(K.Str, ufn('pystr_class', [z3.StringSort()], z3.StringSort())(v.t))
        if k == K.Int:
            return Sym(K.Str, int_to_str(v.t))
        if k == K.Bool:
            return Sym(K.Str, z3.If(v.t, z3.StringVal('True'), z3.StringVal('False')))
        if isinstance(k, K.Opt):
            inner = py_str(ex, Sym(k.inner, k.val(v.t)))
            return Sym(K.Str, z3.If(k.is_none(v.t), z3.StringVal('None'), str_t(ex, inner)))
        if k == K.Dyn:
            ex.run.assumed.add('A-repr')
            J = K.dyn_sorts()[0]
            return Sym(K.Str, z3.If(J.is_JStr(v.t), J.jstr(v.t), z3.If(J.is_JRStr(v.t), J.jrs_value(v.t), dyn_str(ex, v.t))))
        if isinstance(k, K.Rec) and k.cls:
            ci = ex.table.cls(k.cls)
            r = ci.lookup('__str__')
            if r and r[0] == 'method':
                return ex.call(BoundMethod(ex.func_of(r[1]), v), [], {})
        if isinstance(k, K.U):
            return Sym(K.Str, ufn(f'pystr_{k.name}', [k.sort()], z3.StringSort())(v.t))
        if isinstance(k, K.Rec):
            return Sym(K.Str, ufn(f'pystr_{k.name}', [k.sort()], z3.StringSort())(v.t))
        if isinstance(k, K.Seq) or isinstance(k, K.Tup) or isinstance(k, K.Map):
            return Sym(K.Str, ufn(f'pystr_{k.name}', [k.sort()], z3.StringSort())(v.t))
    if isinstance(v, Ref):
        cell = ex.run.cell(v)
        if isinstance(cell, HObj) and not isinstance(cell.cls, tuple):
            r = cell.cls.lookup('__str__')
            if r and r[0] == 'method':
                return ex.call(BoundMethod(ex.func_of(r[1]), v), [], {})
            if cell.cls.is_subclass_of(('ext', 'builtins.str')):
                return cell.payload
            r = cell.cls.lookup('__repr__')
            if r and r[0] == 'method':
                return ex.call(BoundMethod(ex.func_of(r[1]), v), [], {})
            return Sym(K.Str, ufn('pystr_obj', [z3.IntSort()], z3.StringSort())(z3.IntVal(v.addr)))
        if isinstance(cell, AbstractObj):
            if '__str__' in cell.iface.methods:
                return abstract_call(ex, v, '__str__', [], {})
            return Sym(K.Str, ufn('pystr_abs', [z3.StringSort()], z3.StringSort())(z3.StringVal(cell.name)))
        if isinstance(cell, (HList, HDict, HSet)):
            return py_repr(ex, v)
    if isinstance(v, ClassVal):
        ci = v.ci
        if isinstance(ci, tuple):
            return f"<class '{ci[1].replace('builtins.', '')}'>"
        return f"<class '{ci.module.name}.{ci.name}'>"
    if isinstance(v, ExcVal):
        return Sym(K.Str, ufn('pystr_exc', [z3.StringSort()], z3.StringSort())(z3.StringVal(str(v.cls))))
    if type(v).__name__ == 'DynType':
        return Sym(K.Str, ufn('pystr_type_of', [K.Dyn.sort()], z3.StringSort())(v.v.t))
    raise OutOfSubset(f'str() of {v!r}')


def py_repr(ex, v):
    if v is None or isinstance(v, (bool, int, str, float)):
        return repr(v)
    ex.run.assumed.add('A-repr')
    if isinstance(v, Sym):
        k = v.kind
        if k == K.Str:
            return Sym(K.Str, pyrepr_str(v.t))
        if k == K.Path:
            return Sym(K.Str, z3.Concat(z3.StringVal('PosixPath('), pyrepr_str(v.t), z3.StringVal(')')))
        if k in (K.Int, K.Bool):
            return py_str(ex, v)
        if isinstance(k, K.Opt):
            inner = py_repr(ex, Sym(k.inner, k.val(v.t)))
            return Sym(K.Str, z3.If(k.is_none(v.t), z3.StringVal('None'), str_t(ex, inner)))
        if k == K.Dyn:
            ex.run.axiom(dyn_repr_axioms(ex, v.t))
            return Sym(K.Str, dyn_repr(ex, v.t))
        if isinstance(k, K.Rec) and k.cls:
            ci = ex.table.cls(k.cls)
            r = ci.lookup('__repr__')
            if r and r[0] == 'method':
                return ex.call(BoundMethod(ex.func_of(r[1]), v), [], {})
        return Sym(K.Str, ufn(f'pyrepr_{k.name}', [k.sort()], z3.StringSort())(v.t))
    if isinstance(v, Ref):
        cell = ex.run.cell(v)
        if isinstance(cell, HObj) and not isinstance(cell.cls, tuple):
            r = cell.cls.lookup('__repr__')
            if r and r[0] == 'method':
                return ex.call(BoundMethod(ex.func_of(r[1]), v), [], {})
            if cell.cls.is_subclass_of(('ext', 'builtins.str')):
                return py_repr(ex, cell.payload)
        if isinstance(cell, HList):
            if cell.items is not None:
                parts = ['[']
                for i, it in enumerate(cell.items):
                    if i:
                        parts.append(', ')
                    parts.append(py_repr(ex, it))
                parts.append(']')
                return concat_strs(ex, parts)
            return py_repr(ex, cell.sym)
    if isinstance(v, tuple):
        parts = ['(']
        for i, it in enumerate(v):
            if i:
                parts.append(', ')
            parts.append(py_repr(ex, it))
        parts.append(',)' if len(v) == 1 else ')')
        return concat_strs(ex, parts)
    raise OutOfSubset(f'repr() of {v!r}')


def pyrepr_str(t):
    """repr of a str: A-repr says it is an injective function; on quote-free printable strings it is
    "'" + s + "'" (the axiom is instantiated by contracts that need it)."""
    return ufn('pyrepr_str', [z3.StringSort()], z3.StringSort())(t)


def dyn_repr(ex, t):
    J, JL, JD = K.dyn_sorts()
    return ufn('dyn_repr', [J], z3.StringSort())(t)


def dyn_str(ex, t):
    J, JL, JD = K.dyn_sorts()
    return ufn('dyn_str', [J], z3.StringSort())(t)


def dyn_repr_axioms(ex, t):
    """Instances of A-repr for builtin repr() on the Dyn universe at term t."""
    J, JL, JD = K.dyn_sorts()
    r = dyn_repr(ex, t)
    F = z3.IntSort()
    return z3.And(
        z3.Implies(J.is_JNone(t), r == z3.StringVal('None')),
        z3.Implies(J.is_JBool(t), r == z3.If(J.jbool(t), z3.StringVal('True'), z3.StringVal('False'))),
        z3.Implies(J.is_JInt(t), r == int_to_str(J.jint(t))),
        z3.Implies(J.is_JStr(t), r == pyrepr_str(J.jstr(t))),
        z3.Implies(J.is_JRStr(t), r == pyrepr_str(J.jrs_orig(t))),
        z3.Implies(J.is_JPath(t), r == z3.Concat(z3.StringVal('PosixPath('), pyrepr_str(J.jpath(t)), z3.StringVal(')'))),
        z3.Implies(J.is_JFloat(t), r == ufn('pyrepr_float', [F], z3.StringSort())(J.jfloat(t))),
    )


# =============================================================================================
# equality / comparison
# =============================================================================================

def eq(ex, a, b):
    """Python == ; returns python bool or Sym Bool."""
    for x_, y_ in ((a, b), (b, a)):
        if isinstance(x_, Ref) and isinstance(ex.run.cell(x_), HSet) and ex.run.cell(x_).sym is not None:
            if isinstance(y_, Sym) and isinstance(y_.kind, K.SetOf):
                return Sym(K.Bool, ex.run.cell(x_).sym.t == y_.t)
            if isinstance(y_, Ref) and isinstance(ex.run.cell(y_), HSet) and ex.run.cell(y_).sym is not None:
                return Sym(K.Bool, ex.run.cell(x_).sym.t == ex.run.cell(y_).sym.t)
    if isinstance(a, Sym) and not isinstance(b, Sym):
        return _eq_sym_const(ex, a, b)
    if isinstance(b, Sym) and not isinstance(a, Sym):
        return _eq_sym_const(ex, b, a)
    if isinstance(a, Sym) and isinstance(b, Sym):
        if a.kind == b.kind:
            if isinstance(a.kind, K.Map):
                return Sym(K.Bool, map_eq(ex, a, b))
            return Sym(K.Bool, a.t == b.t)
        if {a.kind.name, b.kind.name} == {'Str', 'Path'}:
            return False
        if isinstance(a.kind, K.Opt) and a.kind.inner == b.kind:
            return Sym(K.Bool, z3.And(z3.Not(a.kind.is_none(a.t)), a.kind.val(a.t) == b.t))
        if isinstance(b.kind, K.Opt) and b.kind.inner == a.kind:
            return eq(ex, b, a)
        if a.kind == K.Dyn or b.kind == K.Dyn:
            return Sym(K.Bool, dyn_eq(ex, to_dyn(ex, a), to_dyn(ex, b)))
        return False
    if isinstance(a, Ref) and isinstance(b, Ref):
        if a.addr == b.addr:
            return True
        ca, cb = ex.run.cell(a), ex.run.cell(b)
        if isinstance(ca, HObj) and isinstance(cb, HObj):
            if not isinstance(ca.cls, tuple):
                r = ca.cls.lookup('__eq__')
                if r and r[0] == 'method':
                    return ex.call(BoundMethod(ex.func_of(r[1]), a), [b], {})
                # dict / str subclasses inherit the base type's equality over the *base* payload
                if ca.cls.is_subclass_of(('ext', 'builtins.dict')) and not isinstance(cb.cls, tuple) \
                        and cb.cls.is_subclass_of(('ext', 'builtins.dict')):
                    return eq(ex, ca.ghost.get('basedict'), cb.ghost.get('basedict'))
                if ca.cls.is_subclass_of(('ext', 'builtins.str')) and not isinstance(cb.cls, tuple) \
                        and cb.cls.is_subclass_of(('ext', 'builtins.str')):
                    return eq(ex, ca.payload, cb.payload)
            return False
        if isinstance(ca, HList) and isinstance(cb, HList):
            if ca.items is not None and cb.items is not None:
                if len(ca.items) != len(cb.items):
                    return False
                acc = True
                for x, y in zip(ca.items, cb.items):
                    acc = and_(ex, acc, eq(ex, x, y))
                return acc
            k = kind_of(ex, a) if ca.sym is not None else kind_of(ex, b)
            return Sym(K.Bool, lift(ex, a, k) == lift(ex, b, k))
        if isinstance(ca, HDict) and isinstance(cb, HDict):
            if ca.items is not None and cb.items is not None:
                if set(ca.items) != set(cb.items):
                    return False
                acc = True
                for k_ in ca.items:
                    acc = and_(ex, acc, eq(ex, ca.items[k_], cb.items[k_]))
                return acc
            ka = ca.sym.kind if ca.sym is not None else cb.sym.kind
            if ca.sym is not None and cb.sym is not None and ca.sym.kind.name != cb.sym.kind.name:
                raise OutOfSubset(f'== between dicts of different kinds ({ca.sym.kind.name} / {cb.sym.kind.name})')
            return Sym(K.Bool, map_eq(ex, dict_to_map(ex, ca, ka), dict_to_map(ex, cb, ka)))
        return False
    if isinstance(a, Ref) or isinstance(b, Ref):
        r, o = (a, b) if isinstance(a, Ref) else (b, a)
        cell = ex.run.cell(r)
        if isinstance(cell, HObj) and not isinstance(cell.cls, tuple) and cell.cls.is_subclass_of(('ext', 'builtins.str')):
            return eq(ex, cell.payload, o)
        if isinstance(cell, HList) and isinstance(o, Sym) and isinstance(o.kind, K.Seq):
            return Sym(K.Bool, lift(ex, r, o.kind) == o.t)
        return False
    if isinstance(a, ClassVal) and isinstance(b, ClassVal):
        return a.ci == b.ci
    if isinstance(a, tuple) and isinstance(b, tuple):
        if len(a) != len(b):
            return False
        acc = True
        for x, y in zip(a, b):
            acc = and_(ex, acc, eq(ex, x, y))
        return acc
    if type(a) in (int, bool, str, float, type(None)) and type(b) in (int, bool, str, float, type(None)):
        return a == b
    if isinstance(a, (FuncVal, BoundMethod, Builtin, ModuleVal, ExcVal, AbstractFn)) or \
            isinstance(b, (FuncVal, BoundMethod, Builtin, ModuleVal, ExcVal, AbstractFn)):
        return a is b
    return False


def and_(ex, a, b):
    if a is True:
        return b
    if b is True:
        return a
    if a is False or b is False:
        return False
    return Sym(K.Bool, z3.And(lift(ex, a, K.Bool), lift(ex, b, K.Bool)))


def or_(ex, a, b):
    if a is False:
        return b
    if b is False:
        return a
    if a is True or b is True:
        return True
    return Sym(K.Bool, z3.Or(lift(ex, a, K.Bool), lift(ex, b, K.Bool)))


SENTINELS = {'inspect.Parameter.empty', 'taskchain.parameter:NO_DEFAULT', 'taskchain.parameter:NO_VALUE', 'taskchain.cache:NO_VALUE'}


def is_sentinel(cv):
    ci = cv.ci
    return (ci[1] if isinstance(ci, tuple) else ci.key) in SENTINELS


def _eq_sym_const(ex, s, c):
    k = s.kind
    if isinstance(c, ClassVal) and is_sentinel(c) and isinstance(k, K.Opt):
        # sentinels (inspect.Parameter.empty, NO_DEFAULT, NO_VALUE): the none of an Opt kind stands for them
        return Sym(K.Bool, k.is_none(s.t))
    if isinstance(c, Ref):
        cell = ex.run.cell(c)
        if isinstance(cell, HList) and isinstance(k, K.Seq):
            return Sym(K.Bool, s.t == lift(ex, c, k))
        if isinstance(cell, HDict) and isinstance(k, K.Map):
            return Sym(K.Bool, map_eq(ex, s, dict_to_map(ex, cell, k)))
        if isinstance(cell, HObj) and not isinstance(cell.cls, tuple) and cell.cls.is_subclass_of(('ext', 'builtins.str')):
            return eq(ex, s, cell.payload)
        if k == K.Dyn:
            try:
                return Sym(K.Bool, dyn_eq(ex, s.t, to_dyn(ex, c)))
            except OutOfSubset:
                return False
        return False
    if isinstance(k, K.Opt):
        if c is None:
            return Sym(K.Bool, k.is_none(s.t))
        inner = eq(ex, Sym(k.inner, k.val(s.t)), c)
        if inner is False:
            return False
        return Sym(K.Bool, z3.And(z3.Not(k.is_none(s.t)), lift(ex, inner, K.Bool)))
    if c is None:
        if k == K.Dyn:
            return Sym(K.Bool, K.dyn_sorts()[0].is_JNone(s.t))
        return False
    if k == K.Str and isinstance(c, str):
        return Sym(K.Bool, s.t == z3.StringVal(c))
    if k == K.Int and isinstance(c, (int,)):
        return Sym(K.Bool, s.t == z3.IntVal(int(c)))
    if k == K.Bool and isinstance(c, (bool, int)):
        if isinstance(c, bool):
            return Sym(K.Bool, s.t == z3.BoolVal(c))
        return Sym(K.Bool, z3.If(s.t, 1, 0) == z3.IntVal(c))
    if k == K.Dyn:
        try:
            return Sym(K.Bool, dyn_eq(ex, s.t, to_dyn(ex, c)))
        except OutOfSubset:
            return False
    if isinstance(k, K.Tup) and isinstance(c, tuple):
        return Sym(K.Bool, s.t == lift(ex, c, k))
    if isinstance(k, K.Seq) and isinstance(c, (tuple,)):
        return Sym(K.Bool, s.t == lift(ex, c, k))
    return False


def dyn_eq(ex, a, b):
    """Python == on Dyn values: structural, except bool/int/float compare numerically (True == 1 == 1.0)
    and ReprStr compares as its value.  The numeric cross-type part is an uninterpreted relation
    (A-repr/A-num); structural equality implies it."""
    f = ufn('dyn_pyeq', [a.sort(), b.sort()], z3.BoolSort())
    ex.run.axiom(z3.Implies(a == b, f(a, b)))
    J = K.dyn_sorts()[0]
    same_ctor = z3.Or(*[z3.And(getattr(J, 'is_' + c)(a), getattr(J, 'is_' + c)(b))
                        for c in ('JNone', 'JStr', 'JList', 'JDict', 'JPath', 'JObj', 'JInst', 'JOther')])
    # for constructors without cross-type equality, == is structural (objects: identity/opaque __eq__ excluded)
    struct = z3.Or(*[z3.And(getattr(J, 'is_' + c)(a), getattr(J, 'is_' + c)(b)) for c in ('JNone', 'JStr', 'JPath')])
    ex.run.axiom(z3.Implies(struct, f(a, b) == (a == b)))
    for c in ('JNone',):
        ex.run.axiom(z3.Implies(getattr(J, 'is_' + c)(a) != getattr(J, 'is_' + c)(b), z3.Not(f(a, b))))
    # str vs non-str never equal (ReprStr is a str)
    sa = z3.Or(J.is_JStr(a), J.is_JRStr(a))
    sb = z3.Or(J.is_JStr(b), J.is_JRStr(b))
    ex.run.axiom(z3.Implies(sa != sb, z3.Not(f(a, b))))
    va = z3.If(J.is_JStr(a), J.jstr(a), J.jrs_value(a))
    vb = z3.If(J.is_JStr(b), J.jstr(b), J.jrs_value(b))
    ex.run.axiom(z3.Implies(z3.And(sa, sb), f(a, b) == (va == vb)))
    return f(a, b)


def map_eq(ex, a, b):
    k = a.kind
    # dict equality ignores insertion order: same arrays (absent keys are none)
    return k.arr(a.t) == k.arr(b.t)


def is_(ex, a, b):
    """Python `is`."""
    if a is None or b is None:
        other = b if a is None else a
        if other is None:
            return True
        if isinstance(other, Sym):
            if isinstance(other.kind, K.Opt):
                t_ = other.kind.is_none(other.t)
                k_, v_ = other.kind, other.t
                # nested options (a mapping whose values may themselves be None, read with .get): None at any level
                while isinstance(k_.inner, K.Opt):
                    v_ = k_.val(v_)
                    k_ = k_.inner
                    t_ = z3.Or(t_, k_.is_none(v_))
                return Sym(K.Bool, t_)
            if other.kind == K.Dyn:
                return Sym(K.Bool, K.dyn_sorts()[0].is_JNone(other.t))
        return False
    if isinstance(a, Ref) and isinstance(b, Ref):
        return a.addr == b.addr
    if isinstance(a, ClassVal) and isinstance(b, ClassVal):
        return a.ci == b.ci
    for x, y in ((a, b), (b, a)):
        if isinstance(x, Sym) and isinstance(y, ClassVal):
            if isinstance(x.kind, K.Opt) and is_sentinel(y) and x.kind.inner != K.Cls:
                return Sym(K.Bool, x.kind.is_none(x.t))
            if x.kind == K.Cls:
                return Sym(K.Bool, x.t == z3.StringVal(cls_tag(y)))
            if isinstance(x.kind, K.Opt) and x.kind.inner == K.Cls:
                return Sym(K.Bool, z3.And(z3.Not(x.kind.is_none(x.t)), x.kind.val(x.t) == z3.StringVal(cls_tag(y))))
    if isinstance(a, bool) and isinstance(b, bool):
        return a is b
    if isinstance(a, Sym) and isinstance(b, Sym) and a.kind == b.kind and isinstance(a.kind, (K.U, K.Rec)):
        return Sym(K.Bool, a.t == b.t)
    if isinstance(a, Sym) and a.kind == K.Bool and isinstance(b, bool):
        return Sym(K.Bool, a.t == z3.BoolVal(b))
    if isinstance(b, Sym) and b.kind == K.Bool and isinstance(a, bool):
        return Sym(K.Bool, b.t == z3.BoolVal(a))
    if isinstance(a, Sym) and isinstance(b, Sym) and a.kind == b.kind:
        if isinstance(a.kind, K.Opt) and isinstance(a.kind.inner, (K.U, K.Rec)):
            return Sym(K.Bool, a.t == b.t)
    if isinstance(a, Sym) and isinstance(a.kind, K.Opt) and isinstance(b, (ClassVal, Ref)):
        # e.g. `value is NO_VALUE` where value is Opt: the sentinel is never None/inner
        return False
    if isinstance(a, (ClassVal, Ref, Sym)) and isinstance(b, (ClassVal, Ref, Sym)):
        if type(a) is not type(b):
            return False
    if a is b:
        return True
    if isinstance(a, (int, str)) and isinstance(b, (int, str)) and type(a) is type(b):
        return a == b
    return False


def cls_tag(cv):
    ci = cv.ci
    if isinstance(ci, tuple):
        n = ci[1].replace('builtins.', '')
        return {'pathlib.PosixPath': 'pathlib.Path'}.get(n, n)
    return ci.key


def compare(ex, op, a, b, node=None):
    if isinstance(op, ast.Eq):
        return eq(ex, a, b)
    if isinstance(op, ast.NotEq):
        r = eq(ex, a, b)
        return (not r) if isinstance(r, bool) else Sym(K.Bool, z3.Not(r.t))
    if isinstance(op, ast.Is):
        return is_(ex, a, b)
    if isinstance(op, ast.IsNot):
        r = is_(ex, a, b)
        return (not r) if isinstance(r, bool) else Sym(K.Bool, z3.Not(r.t))
    if isinstance(op, ast.In):
        return contains(ex, b, a)
    if isinstance(op, ast.NotIn):
        r = contains(ex, b, a)
        return (not r) if isinstance(r, bool) else Sym(K.Bool, z3.Not(r.t))
    # ordering
    if isinstance(a, (int, float)) and isinstance(b, (int, float)):
        return {ast.Lt: a < b, ast.LtE: a <= b, ast.Gt: a > b, ast.GtE: a >= b}[type(op)]
    if is_int(a) and is_int(b):
        x, y = int_t(ex, a), int_t(ex, b)
        return Sym(K.Bool, {ast.Lt: x < y, ast.LtE: x <= y, ast.Gt: x > y, ast.GtE: x >= y}[type(op)])
    if is_str(a) and is_str(b):
        x, y = str_t(ex, a), str_t(ex, b)
        return Sym(K.Bool, {ast.Lt: x < y, ast.LtE: x <= y, ast.Gt: y < x, ast.GtE: y <= x}[type(op)])
    raise OutOfSubset(f'comparison {type(op).__name__} of {a!r}, {b!r}', node)


def contains(ex, container, item):
    run = ex.run
    if isinstance(container, str) and isinstance(item, str):
        return item in container
    if is_str(container):
        return Sym(K.Bool, z3.Contains(str_t(ex, container), str_t(ex, item)))
    if isinstance(container, (tuple, list)):
        acc = False
        for x in container:
            acc = or_(ex, acc, eq(ex, x, item))
        return acc
    if isinstance(container, Sym):
        k = container.kind
        if isinstance(k, K.Seq):
            return Sym(K.Bool, z3.Contains(container.t, z3.Unit(lift(ex, item, k.elem))))
        if isinstance(k, K.Map):
            return Sym(K.Bool, z3.Not(k.optv.is_none(z3.Select(k.arr(container.t), lift(ex, item, k.key)))))
        if isinstance(k, K.SetOf):
            return Sym(K.Bool, z3.Select(container.t, lift(ex, item, k.elem)))
        if isinstance(k, K.Opt):
            if run.decide(k.is_none(container.t)):
                raise RaiseEx(ExcVal('TypeError', origin='in None'))
            return contains(ex, Sym(k.inner, k.val(container.t)), item)
        if isinstance(k, K.Rec) and k.cls:
            ci = ex.table.cls(k.cls)
            r = ci.lookup('__contains__')
            if r and r[0] == 'method':
                return ex.call(BoundMethod(ex.func_of(r[1]), container), [item], {})
        if k == K.Dyn:
            return Sym(K.Bool, ufn('dyn_contains', [K.Dyn.sort(), K.Dyn.sort()], z3.BoolSort())(container.t, to_dyn(ex, item)))
    if isinstance(container, Ref):
        cell = run.cell(container)
        if isinstance(cell, HList):
            if cell.items is not None:
                return contains(ex, list(cell.items), item)
            return contains(ex, cell.sym, item)
        if isinstance(cell, HDict):
            if cell.items is not None:
                if isinstance(item, Sym):
                    acc = False
                    for k_ in cell.items:
                        acc = or_(ex, acc, eq(ex, k_, item))
                    return acc
                try:
                    return item in cell.items
                except TypeError:
                    return False
            return contains(ex, cell.sym, item)
        if isinstance(cell, HSet):
            if cell.items is not None:
                return contains(ex, list(cell.items), item)
            return contains(ex, cell.sym, item)
        if isinstance(cell, HObj):
            if not isinstance(cell.cls, tuple):
                r = cell.cls.lookup('__contains__')
                if r and r[0] == 'method':
                    return ex.call(BoundMethod(ex.func_of(r[1]), container), [item], {})
                if cell.cls.is_subclass_of(('ext', 'builtins.dict')):
                    return contains(ex, cell.ghost['basedict'], item)
                if cell.cls.is_subclass_of(('ext', 'builtins.str')):
                    return contains(ex, cell.payload, item)
        if isinstance(cell, AbstractObj):
            return abstract_call(ex, container, '__contains__', [item], {})
    raise OutOfSubset(f'`in` on {container!r}')


# =============================================================================================
# arithmetic / concatenation
# =============================================================================================

def _unwrap_opt(ex, v, what):
    if isinstance(v, Sym) and isinstance(v.kind, K.Opt):
        if ex.run.decide(v.kind.is_none(v.t)):
            raise RaiseEx(ExcVal('TypeError', origin=f'None in {what}'))
        return Sym(v.kind.inner, v.kind.val(v.t))
    return v


def binop(ex, op, a, b):
    if not isinstance(op, ast.Add):
        a = _unwrap_opt(ex, a, type(op).__name__)
        b = _unwrap_opt(ex, b, type(op).__name__)
    if isinstance(op, ast.Add):
        if is_str(a) and is_str(b):
            return concat_strs(ex, [a, b])
        if isinstance(a, (int, float)) and isinstance(b, (int, float)) and not isinstance(a, bool):
            return a + b
        if is_int(a) and is_int(b):
            return Sym(K.Int, int_t(ex, a) + int_t(ex, b))
        if isinstance(a, tuple) and isinstance(b, tuple):
            return a + b
        la, lb = as_list_cell(ex, a), as_list_cell(ex, b)
        if la is not None and lb is not None:
            if la.items is not None and lb.items is not None:
                return ex.run.alloc(HList(items=list(la.items) + list(lb.items)))
            k = la.sym.kind if la.sym is not None else lb.sym.kind
            ta = la.sym.t if la.sym is not None else seq_of(ex, [lift(ex, x, k.elem) for x in la.items], k)
            tb = lb.sym.t if lb.sym is not None else seq_of(ex, [lift(ex, x, k.elem) for x in lb.items], k)
            return ex.run.alloc(HList(sym=Sym(k, z3.Concat(ta, tb))))
        if isinstance(a, Sym) and isinstance(a.kind, K.Seq):
            other = lift(ex, b, a.kind)
            return Sym(a.kind, z3.Concat(a.t, other))
        if isinstance(b, Sym) and isinstance(b.kind, K.Seq):
            other = lift(ex, a, b.kind)
            return Sym(b.kind, z3.Concat(other, b.t))
        if isinstance(a, Sym) and isinstance(a.kind, K.Opt):
            if ex.run.decide(a.kind.is_none(a.t)):
                raise RaiseEx(ExcVal('TypeError', origin='None + x'))
            return binop(ex, op, Sym(a.kind.inner, a.kind.val(a.t)), b)
        if isinstance(b, Sym) and isinstance(b.kind, K.Opt):
            if ex.run.decide(b.kind.is_none(b.t)):
                raise RaiseEx(ExcVal('TypeError', origin='x + None'))
            return binop(ex, op, a, Sym(b.kind.inner, b.kind.val(b.t)))
    if isinstance(op, ast.Sub):
        if isinstance(a, (int, float)) and isinstance(b, (int, float)):
            return a - b
        if is_int(a) and is_int(b):
            return Sym(K.Int, int_t(ex, a) - int_t(ex, b))
    if isinstance(op, ast.Mult):
        if isinstance(a, (int, float)) and isinstance(b, (int, float)):
            return a * b
        if is_int(a) and is_int(b):
            return Sym(K.Int, int_t(ex, a) * int_t(ex, b))
    if isinstance(op, ast.Div) and not isinstance(a, Sym):
        # pathlib: handled below
        pass
    if isinstance(op, ast.Div):
        pa = path_text(ex, a)
        if pa is not None:
            return path_join(ex, pa, b)
    if isinstance(op, ast.BitOr):
        ca = ex.run.cell(a) if isinstance(a, Ref) else None
        if isinstance(ca, HSet):
            r = ex.run.alloc(ca.copy())
            set_update(ex, r, b)
            return r
        if isinstance(a, int) and isinstance(b, int):
            return a | b
    if isinstance(op, ast.Mod) and isinstance(a, int) and isinstance(b, int):
        return a % b
    raise OutOfSubset(f'binop {type(op).__name__} on {a!r}, {b!r}')


def as_list_cell(ex, v):
    if isinstance(v, Ref):
        c = ex.run.cell(v)
        if isinstance(c, HList):
            return c
    return None


# ---- paths (pathlib.Path as its text) --------------------------------------------------------

def path_text(ex, v):
    if isinstance(v, Sym) and v.kind == K.Path:
        return v.t
    return None


def path_join(ex, base_t, b):
    """Path / segment : A-fs assumes segments are relative, non-empty and the base has no trailing '/'
    so that the text is base + '/' + segment."""
    ex.run.assumed.add('A-path')
    if isinstance(b, Sym) and b.kind == K.Path:
        seg = b.t
    else:
        seg = str_t(ex, py_str(ex, b) if not is_str(b) else b)
    return Sym(K.Path, z3.Concat(base_t, z3.StringVal('/'), seg))


# =============================================================================================
# unpack / iterate (concrete spines only)
# =============================================================================================

def unpack(ex, v, n):
    if isinstance(v, tuple):
        if len(v) != n:
            raise RaiseEx(ExcVal('ValueError', origin='unpack'))
        return list(v)
    if isinstance(v, Sym) and isinstance(v.kind, K.Tup):
        if len(v.kind.items) != n:
            raise RaiseEx(ExcVal('ValueError', origin='unpack'))
        return [Sym(k, v.kind.get(v.t, i)) for i, k in enumerate(v.kind.items)]
    if isinstance(v, Ref):
        c = ex.run.cell(v)
        if isinstance(c, HList) and c.items is not None:
            if len(c.items) != n:
                raise RaiseEx(ExcVal('ValueError', origin='unpack'))
            return list(c.items)
    if isinstance(v, Sym) and isinstance(v.kind, K.Seq):
        ex.run.assume(z3.Length(v.t) == n)   # caller's contract must establish the length
        return [Sym(v.kind.elem, v.t[i]) for i in range(n)]
    raise OutOfSubset(f'unpack of {v!r}')


def iterate_concrete(ex, v):
    """Iterate a value with a concrete spine; raises OutOfSubset for symbolic-length ones."""
    if isinstance(v, (tuple, list)):
        return list(v)
    if isinstance(v, str):
        return list(v)
    if isinstance(v, Ref):
        c = ex.run.cell(v)
        if isinstance(c, HList) and c.items is not None:
            return list(c.items)
        if isinstance(c, HDict) and c.items is not None:
            return list(c.items.keys())
        if isinstance(c, HSet) and c.items is not None:
            return list(c.items)
        if isinstance(c, HObj) and not isinstance(c.cls, tuple) and c.cls.is_subclass_of(('ext', 'builtins.dict')):
            return iterate_concrete(ex, c.ghost['basedict'])
    if isinstance(v, IterView):
        return v.concrete(ex)
    raise OutOfSubset(f'iteration over symbolic-length value {v!r} needs a loop contract')


def dict_items_concrete(ex, d):
    if isinstance(d, Ref):
        c = ex.run.cell(d)
        if isinstance(c, HDict) and c.items is not None:
            return list(c.items.items())
    raise OutOfSubset('** of a symbolic dict')


class IterView:
    """Lazy view produced by dict.items()/keys()/values(), enumerate, zip, sorted ... over symbolic
    containers; loops.py knows how to turn it into a symbolic sequence."""

    def __init__(self, kind, base, extra=None):
        self.kind = kind        # 'items' | 'keys' | 'values' | 'enumerate' | 'sorted' | 'reversed' | 'zip' | 'seq'
        self.base = base
        self.extra = extra

    def concrete(self, ex):
        k = self.kind
        if k in ('items', 'keys', 'values'):
            c = ex.run.cell(self.base) if isinstance(self.base, Ref) else None
            if isinstance(c, HDict) and c.items is not None:
                if k == 'items':
                    return [(kk, vv) for kk, vv in c.items.items()]
                if k == 'keys':
                    return list(c.items.keys())
                return list(c.items.values())
            raise OutOfSubset('concrete iteration of symbolic dict view')
        if k == 'enumerate':
            items = iterate_concrete(ex, self.base)
            start = self.extra or 0
            return [(i + start, x) for i, x in enumerate(items)]
        if k == 'zip':
            lists = [iterate_concrete(ex, b) for b in self.base]
            return list(zip(*lists))
        if k == 'reversed':
            return list(reversed(iterate_concrete(ex, self.base)))
        if k == 'seq':
            return iterate_concrete(ex, self.base)
        raise OutOfSubset(f'concrete iteration of view {k}')

    def __repr__(self):
        return f'<view {self.kind} of {self.base!r}>'


# =============================================================================================
# exceptions
# =============================================================================================

BUILTIN_EXC = {
    'BaseException': None, 'Exception': 'BaseException', 'ValueError': 'Exception', 'KeyError': 'LookupError',
    'LookupError': 'Exception', 'IndexError': 'LookupError', 'TypeError': 'Exception', 'AttributeError': 'Exception',
    'AssertionError': 'Exception', 'RuntimeError': 'Exception', 'RecursionError': 'RuntimeError',
    'NotImplementedError': 'RuntimeError', 'OSError': 'Exception', 'FileNotFoundError': 'OSError',
    'FileExistsError': 'OSError', 'ImportError': 'Exception', 'ModuleNotFoundError': 'ImportError',
    'StopIteration': 'Exception', 'KeyboardInterrupt': 'BaseException', 'SystemExit': 'BaseException',
    'Opaque': 'Exception',           # an exception raised by an abstract callee: some subclass of Exception
    'OpaqueBase': 'BaseException',
}


def exc_chain(ex, name):
    out = []
    if ':' in name:
        ci = ex.table.cls(name)
        for c in ci.mro():
            if hasattr(c, 'key'):
                out.append(c.key)
            else:
                nm = c[1].replace('builtins.', '')
                while nm:
                    out.append(nm)
                    nm = BUILTIN_EXC.get(nm)
        return out
    while name:
        out.append(name)
        name = BUILTIN_EXC.get(name)
    return out


def exc_isinstance(ex, exc, t):
    if isinstance(t, ClassVal):
        tname = t.ci.key if hasattr(t.ci, 'key') else t.ci[1].replace('builtins.', '')
    else:
        raise OutOfSubset(f'except clause type {t!r}')
    chain = exc_chain(ex, exc.cls)
    if tname in chain:
        return True
    if exc.cls == 'Opaque':
        # an unknown Exception subclass: matches `Exception`/`BaseException` only; whether it matches a
        # more specific class is decided by the abstract callee's contract (raises=[...])
        return False
    return False


def to_exception(ex, v):
    if isinstance(v, ExcVal):
        return v
    if isinstance(v, ClassVal):
        return instantiate(ex, v, [], {})
    raise OutOfSubset(f'raise of {v!r}')


# =============================================================================================
# abstract callables
# =============================================================================================

class StarPack:
    """f(*xs) with xs of symbolic length."""

    def __init__(self, seq):
        self.seq = seq


class AbstractFn:
    """An opaque callable argument (`fun`, `computer`, a task's `run`): calls append an event; the result
    is a function of the arguments when `functional` (deterministic), else a fresh value per call."""

    def __init__(self, name, arg_kinds, ret_kind, may_raise=True, functional=True):
        self.name = name
        self.arg_kinds = arg_kinds
        self.ret_kind = ret_kind
        self.may_raise = may_raise
        self.functional = functional

    def app(self, ex, args):
        args = [a.seq if isinstance(a, StarPack) else a for a in args]
        ts = [lift(ex, a, k) for a, k in zip(args, self.arg_kinds)]
        f = ufn(f'fn_{self.name}', [k.sort() for k in self.arg_kinds], self.ret_kind.sort())
        return Sym(self.ret_kind, f(*ts) if ts else f())

    def call(self, ex, args, kwargs):
        if kwargs:
            # keyword arguments are appended (a symbolic ** mapping as one packed argument)
            args = list(args) + [kwargs[k_] for k_ in kwargs]
        run = ex.run
        if self.may_raise:
            c = run.choose(2, tag=f'{self.name}', labels=['ret', 'raise'])
            if c == 1:
                run.trace.append(Event(self.name, None, args, 'raise'))
                e = ExcVal('Opaque', origin=self.name, payload=run.fresh(K.U('Exc'), 'exc'))
                raise RaiseEx(e)
        if self.functional:
            ret = self.app(ex, args)
        else:
            ret = run.fresh(self.ret_kind, f'ret_{self.name}')
            n = sum(1 for e in run.trace if e.name == self.name)
            run.inputs[f'{self.name}#{n}'] = (self.ret_kind, ret.t)
        if not getattr(run, 'in_merge', False) or not self.functional:
            run.trace.append(Event(self.name, None, args, 'ret', ret))
        return ret


def abstract_call(ex, ref, name, args, kwargs):
    cell = ex.run.cell(ref)
    spec = cell.iface.methods.get(name)
    if spec is None:
        raise OutOfSubset(f'abstract object {cell.name} has no method {name} in its interface')
    return spec.invoke(ex, ref, cell, name, args, kwargs)


# remaining pieces (attribute access, methods, instantiate ...) live in pyops2 to keep files readable
from .pyops2 import *  # noqa: E402,F401
