"""Discharging obligations: SMT-LIB export, z3 || cvc5 portfolio in a process pool, model decoding.

Verdicts per obligation:  'unsat' (discharged) | 'sat' (+ decoded model) | 'unknown'.
A sat/unsat disagreement between the two solvers is a checker fault (exit 3), never a verdict.
"""
import os
import re
import subprocess
import tempfile
import time
import multiprocessing as mp
import z3
from . import kinds as K

CVC5 = '/usr/bin/cvc5'


def to_smt2(hyps, goal, expect):
    s = z3.Solver()
    for h in hyps:
        s.add(h)
    if expect == 'unsat':
        s.add(z3.Not(goal))
    else:
        s.add(goal)
    return s.to_smt2()


_Z3_TO_CVC5 = [
    (r'\(declare-fun pyvc_replace_all \(String String String\) String\)\n', ''),
    (r'pyvc_replace_all', 'str.replace_all'),
    (r'seq\.nth_u', 'seq.nth'),
    (r'seq\.nth_i', 'seq.nth'),
]


def smt2_for_cvc5(txt):
    for a, b in _Z3_TO_CVC5:
        txt = re.sub(a, b, txt)
    txt = txt.replace('(set-info :status unknown)', '')
    return '(set-logic ALL)\n' + txt


def _start_cvc5(txt, timeout_s):
    f = tempfile.NamedTemporaryFile('w', suffix='.smt2', delete=False, dir=os.environ.get('PYVC_TMP', None))
    f.write(smt2_for_cvc5(txt))
    f.close()
    p = subprocess.Popen([CVC5, '--strings-exp', f'--tlimit={int(timeout_s * 1000)}', f.name],
                         stdout=subprocess.PIPE, stderr=subprocess.PIPE, text=True)
    return p, f.name


def _finish_cvc5(p, path, wait_s):
    try:
        try:
            out, err = p.communicate(timeout=max(0.1, wait_s))
        except subprocess.TimeoutExpired:
            p.kill()
            p.communicate()
            return 'unknown', 'timeout'
        lines = out.strip().splitlines()
        head = lines[0].strip() if lines else ''
        if head in ('sat', 'unsat'):
            return head, ''
        return 'unknown', (out + err)[-300:]
    finally:
        try:
            os.unlink(path)
        except OSError:
            pass


Z3CLI = '/opt/veriftools/pyvenv/bin/z3' if os.path.exists('/opt/veriftools/pyvenv/bin/z3') else 'z3-new'


def _z3_bin():
    import shutil as _sh
    return _sh.which('z3-new') or _sh.which('z3')


def _worker(job):
    """job = (name, smt2 text, expect, timeout_s, use_cvc5[, solvers]).

    z3 5.1 (default configuration), z3 5.1 with auto_config=false ('z3b') and cvc5 run side by side as subprocesses (a hard
    wall-clock limit is enforced by killing them).  z3 was seen to answer `unsat` on satisfiable sequence + quantifier
    problems (both 5.1 and 4.8.12, reproducibly; `auto_config=false` and cvc5 answered correctly), therefore an `unsat`
    counts only when cvc5 gives it, or when BOTH z3 configurations give it and no solver says `sat`.  A `sat` next to a
    cvc5 `unsat` is a disagreement (checker fault), never a verdict."""
    name, txt, expect, timeout_s, use_cvc5 = job[:5]
    solvers = job[5] if len(job) > 5 else ('z3', 'z3b', 'cvc5')
    t0 = time.time()
    res = {'name': name, 'z3': None, 'cvc5': None, 'verdict': 'unknown', 'by': None, 'time': 0.0, 'detail': ''}
    tmpdir = os.environ.get('PYVC_TMP', None)
    f = tempfile.NamedTemporaryFile('w', suffix='.smt2', delete=False, dir=tmpdir)
    f.write(txt)
    f.close()
    procs = {}
    files = [f.name]
    try:
        if 'z3' in solvers:
            procs['z3'] = subprocess.Popen([_z3_bin(), f'-T:{int(timeout_s)}', f.name], stdout=subprocess.PIPE, stderr=subprocess.PIPE, text=True)
        if 'z3b' in solvers:
            procs['z3b'] = subprocess.Popen([_z3_bin(), f'-T:{int(timeout_s)}', 'auto_config=false', f.name], stdout=subprocess.PIPE, stderr=subprocess.PIPE, text=True)
        if 'z3old' in solvers and os.path.exists('/usr/bin/z3'):
            procs['z3old'] = subprocess.Popen(['/usr/bin/z3', f'-T:{int(timeout_s)}', f.name], stdout=subprocess.PIPE, stderr=subprocess.PIPE, text=True)
        if use_cvc5 and 'cvc5' in solvers:
            try:
                p, path = _start_cvc5(txt, timeout_s)
                procs['cvc5'] = p
                files.append(path)
            except Exception:
                pass
        answers = {}
        deadline = t0 + timeout_s + 2

        agreed = {}

        def settled():
            if any(a == 'sat' for a in answers.values()) and expect == 'sat':
                return True
            if expect == 'unsat':
                if answers.get('cvc5') == 'unsat' and not any(a == 'sat' for a in answers.values()):
                    return True
                if answers.get('z3') == 'unsat' and answers.get('z3b') == 'unsat':
                    if 'cvc5' in answers or 'cvc5' not in procs:
                        return True
                    # both z3 configurations agree: cvc5 gets a short grace period to object
                    agreed.setdefault('t', time.time())
                    if time.time() - agreed['t'] > min(3.0, timeout_s / 3.0):
                        return True
                if any(a == 'sat' for a in answers.values()) and ('cvc5' in answers or 'cvc5' not in procs):
                    return True
            return False

        while procs and time.time() < deadline:
            for nm, p in list(procs.items()):
                rc = p.poll()
                if rc is None:
                    continue
                out, err = p.communicate()
                lines = out.strip().splitlines()
                head = lines[0].strip() if lines else ''
                answers[nm] = head if head in ('sat', 'unsat') else 'unknown'
                if answers[nm] == 'unknown':
                    res['detail'] += f'{nm}: {(out + err).strip()[-120:]}; '
                del procs[nm]
            if settled():
                break
            if procs:
                time.sleep(0.02)
        for nm, p in procs.items():
            p.kill()
            p.communicate()
            answers.setdefault(nm, 'unknown')
            res['detail'] += f'{nm}: timeout; '
        res['z3'] = answers.get('z3')
        res['cvc5'] = answers.get('cvc5')
        res['answers'] = answers
        sats = sorted(nm for nm, a in answers.items() if a == 'sat')
        unsats = sorted(nm for nm, a in answers.items() if a == 'unsat')
        zfam = [nm for nm in ('z3', 'z3b') if nm in solvers]
        if sats and 'cvc5' in unsats or ('cvc5' in sats and unsats):
            res['verdict'] = 'disagree'
            res['detail'] = ' '.join(f'{k_}={v_}' for k_, v_ in answers.items())
        elif sats:
            res['verdict'] = 'sat'
            res['by'] = sats[0]
            if unsats:
                res['detail'] += f'z3 configurations disagree ({answers}); the sat answer is taken (an unsat needs cvc5 or both configurations); '
        elif 'cvc5' in unsats:
            res['verdict'] = 'unsat'
            res['by'] = 'cvc5' + ('+z3' if ('z3' in unsats or 'z3b' in unsats) else '')
        elif unsats and all(nm in unsats for nm in zfam) and len(zfam) >= (2 if 'z3b' in solvers or 'z3' not in solvers else 1):
            res['verdict'] = 'unsat'
            res['by'] = '+'.join(unsats)
        elif unsats and set(solvers) <= {'z3old', 'cvc5'}:
            res['verdict'] = 'unsat'
            res['by'] = '+'.join(unsats)
        elif unsats:
            res['detail'] += f'unconfirmed unsat by {unsats} only (answers {answers}); '
    finally:
        for p_ in files:
            try:
                os.unlink(p_)
            except OSError:
                pass
    res['time'] = time.time() - t0
    return res


def discharge(obligations, timeout_s=10, procs=None, use_cvc5=True):
    """Solve all obligations in a process pool.  Sets ob.result = dict(verdict, by, time, ...)."""
    jobs = []
    for ob in obligations:
        try:
            txt = to_smt2(ob.hyps, ob.goal, ob.expect)
        except Exception as e:
            ob.result = {'name': ob.name, 'verdict': 'unknown', 'by': None, 'time': 0.0, 'detail': f'smt export failed: {e}'}
            continue
        ob.smt2 = txt
        jobs.append((ob.name, txt, ob.expect, timeout_s, use_cvc5))
    by_name = {ob.name: ob for ob in obligations}
    if not jobs:
        return
    # cover queries: the hypotheses of every path alone.  A solver that calls them inconsistent although another
    # finds a model is not believed for the obligations of that path (guards against spurious `unsat` answers:
    # z3 5.1 was seen to answer unsat on a satisfiable sequence problem, with a satisfiable "core")
    import hashlib
    groups = {}
    for ob in obligations:
        if getattr(ob, 'smt2', None) is None:
            continue
        key = hashlib.sha256('|'.join(sorted(str(h.get_id()) for h in ob.hyps)).encode()).hexdigest()[:16]
        ob.cover_key = key
        if key not in groups:
            groups[key] = to_smt2(ob.hyps, z3.BoolVal(True), 'sat')
    cover_jobs = [(f'cover:{k_}', txt, 'sat', min(timeout_s, 5), False, ('z3', 'z3b')) for k_, txt in groups.items()]
    procs = procs or min(8, max(1, len(jobs)))      # three solver processes per job
    ctx = mp.get_context('fork')
    covers = {}
    with ctx.Pool(procs) as pool:
        for res in pool.imap_unordered(_worker, jobs + cover_jobs, chunksize=1):
            if res['name'].startswith('cover:'):
                covers[res['name'][6:]] = res
            else:
                by_name[res['name']].result = res
        # an undecided conjunction is retried conjunct by conjunct (each conjunct under the same hypotheses):
        # all conjuncts unsat -> discharged; a refuted conjunct -> refuted
        split_jobs = []
        split_of = {}
        for ob in obligations:
            r = getattr(ob, 'result', None)
            if r and ob.expect == 'unsat' and r.get('verdict') == 'unknown' and z3.is_and(ob.goal) and len(ob.goal.children()) > 1:
                parts = ob.goal.children()
                split_of[ob.name] = {'n': len(parts), 'res': {}}
                for i_, p_ in enumerate(parts):
                    try:
                        split_jobs.append((f'split:{i_}:{ob.name}', to_smt2(ob.hyps, p_, 'unsat'), 'unsat', timeout_s, use_cvc5))
                    except Exception:
                        split_of.pop(ob.name, None)
                        break
        split_jobs = [j for j in split_jobs if j[0].split(':', 2)[2] in split_of]
        for res in pool.imap_unordered(_worker, split_jobs, chunksize=1):
            _, i_, nm = res['name'].split(':', 2)
            split_of[nm]['res'][int(i_)] = res
        for nm, sp in split_of.items():
            rs = [sp['res'].get(i_) for i_ in range(sp['n'])]
            ob = by_name[nm]
            tm = ob.result.get('time', 0.0) + sum((r_ or {}).get('time', 0.0) for r_ in rs)
            if all(r_ and r_['verdict'] == 'unsat' for r_ in rs):
                ob.result = {'name': nm, 'verdict': 'unsat', 'by': 'split:' + '+'.join(sorted({str(r_.get('by')) for r_ in rs})), 'time': tm,
                             'detail': f'conjunction of {sp["n"]} discharged conjunct by conjunct'}
            elif any(r_ and r_['verdict'] == 'sat' for r_ in rs):
                bad = [i_ for i_, r_ in enumerate(rs) if r_ and r_['verdict'] == 'sat']
                ob.result = {'name': nm, 'verdict': 'sat', 'by': rs[bad[0]].get('by'), 'time': tm, 'detail': f'conjunct {bad} refuted'}
            else:
                ob.result['time'] = tm
        # second opinion where z3 alone said unsat on a path whose hypotheses z3 itself calls inconsistent
        redo = []
        for ob in obligations:
            r = getattr(ob, 'result', None)
            c = covers.get(getattr(ob, 'cover_key', None))
            if r and c and ob.expect == 'unsat' and r.get('verdict') == 'unsat' and 'cvc5' not in str(r.get('by')) and c.get('verdict') == 'unsat':
                redo.append((ob.name, ob.smt2, ob.expect, timeout_s, True, ('cvc5', 'z3old')))
            elif r and ob.expect == 'sat' and r.get('verdict') == 'unsat' and 'cvc5' not in str(r.get('by')):
                # a canary / cover "refuted" by z3 alone is not conclusive
                redo.append((ob.name, ob.smt2, ob.expect, timeout_s, True, ('cvc5', 'z3old')))
        for res in pool.imap_unordered(_worker, redo, chunksize=1):
            res['detail'] = 'z3 (5.1) called the path hypotheses inconsistent; second opinion by cvc5 / z3 4.8: ' + res.get('detail', '')
            by_name[res['name']].result = res
    for ob in obligations:
        c = covers.get(getattr(ob, 'cover_key', None))
        if c is not None and getattr(ob, 'result', None) is not None:
            ob.result['cover'] = c.get('verdict')


def model_for(ob, timeout_s=10, extra=None):
    """Re-solve a refuted obligation in-process to obtain a z3 model object (for decoding)."""
    s = z3.Solver()
    s.set('timeout', int(timeout_s * 1000))
    for h in ob.hyps:
        s.add(h)
    s.add(z3.Not(ob.goal) if ob.expect == 'unsat' else ob.goal)
    for e in extra or []:
        s.add(e)
    r = s.check()
    if r == z3.sat:
        return s.model()
    return None


def decode_inputs(model, inputs):
    out = {}
    for name, (kind, term) in inputs.items():
        try:
            out[name] = K.decode(model, kind, term)
        except Exception as e:
            out[name] = f'<undecodable: {e}>'
    return out
