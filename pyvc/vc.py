"""Discharging obligations: SMT-LIB export, z3 || cvc5 portfolio in a process pool, model decoding.

Verdicts per obligation:  'unsat' (discharged) | 'sat' (+ decoded model) | 'unknown'.
A sat/unsat disagreement between the two solvers is a checker fault (exit 3), never a verdict.
"""
import os
import re
import subprocess
import tempfile
import time
import multiprocessing as mp
import z3
from . import kinds as K

CVC5 = '/usr/bin/cvc5'


def to_smt2(hyps, goal, expect):
    s = z3.Solver()
    for h in hyps:
        s.add(h)
    if expect == 'unsat':
        s.add(z3.Not(goal))
    else:
        s.add(goal)
    return s.to_smt2()


_Z3_TO_CVC5 = [
    (r'\(declare-fun pyvc_replace_all \(String String String\) String\)\n', ''),
    (r'pyvc_replace_all', 'str.replace_all'),
    (r'seq\.nth_u', 'seq.nth'),
    (r'seq\.nth_i', 'seq.nth'),
]


def smt2_for_cvc5(txt):
    for a, b in _Z3_TO_CVC5:
        txt = re.sub(a, b, txt)
    txt = txt.replace('(set-info :status unknown)', '')
    return '(set-logic ALL)\n' + txt


def _run_cvc5(txt, timeout_s):
    with tempfile.NamedTemporaryFile('w', suffix='.smt2', delete=False, dir=os.environ.get('PYVC_TMP', None)) as f:
        f.write(smt2_for_cvc5(txt))
        path = f.name
    try:
        p = subprocess.run([CVC5, '--strings-exp', f'--tlimit={int(timeout_s * 1000)}', path],
                           capture_output=True, text=True, timeout=timeout_s + 5)
        out = p.stdout.strip().splitlines()
        head = out[0].strip() if out else ''
        if head in ('sat', 'unsat'):
            return head, ''
        return 'unknown', (p.stdout + p.stderr)[-300:]
    except subprocess.TimeoutExpired:
        return 'unknown', 'timeout'
    finally:
        try:
            os.unlink(path)
        except OSError:
            pass


def _solve_z3(txt, timeout_s, decode_plan):
    ctx = z3.Context()
    s = z3.Solver(ctx=ctx)
    s.set('timeout', int(timeout_s * 1000))
    s.from_string(txt)
    t0 = time.time()
    r = s.check()
    dt = time.time() - t0
    if r == z3.unsat:
        return 'unsat', None, dt, ''
    if r == z3.sat:
        return 'sat', s.model().sexpr()[:20000], dt, ''
    return 'unknown', None, dt, s.reason_unknown()


def _worker(job):
    """job = (name, smt2 text, expect, timeout_s, use_cvc5)."""
    name, txt, expect, timeout_s, use_cvc5 = job
    t0 = time.time()
    res = {'name': name, 'z3': None, 'cvc5': None, 'verdict': 'unknown', 'by': None, 'time': 0.0, 'detail': ''}
    try:
        zr, zmodel, zt, zwhy = _solve_z3(txt, timeout_s, None)
    except Exception as e:  # z3 parse problems etc.
        zr, zmodel, zt, zwhy = 'unknown', None, 0.0, f'z3 error: {e}'
    res['z3'] = zr
    res['detail'] = zwhy
    if zr in ('sat', 'unsat'):
        res['verdict'] = zr
        res['by'] = 'z3'
        res['model_text'] = zmodel
    want_cross = use_cvc5 and (zr == 'unknown' or (zr != expect))
    if want_cross:
        cr, cwhy = _run_cvc5(txt, timeout_s)
        res['cvc5'] = cr
        if cr in ('sat', 'unsat'):
            if zr in ('sat', 'unsat') and zr != cr:
                res['verdict'] = 'disagree'
                res['detail'] = f'z3={zr} cvc5={cr}'
            elif zr == 'unknown':
                res['verdict'] = cr
                res['by'] = 'cvc5'
        elif zr == 'unknown':
            res['detail'] = f'z3: {zwhy}; cvc5: {cwhy}'
    res['time'] = time.time() - t0
    return res


def discharge(obligations, timeout_s=10, procs=None, use_cvc5=True):
    """Solve all obligations in a process pool.  Sets ob.result = dict(verdict, by, time, ...)."""
    jobs = []
    for ob in obligations:
        try:
            txt = to_smt2(ob.hyps, ob.goal, ob.expect)
        except Exception as e:
            ob.result = {'name': ob.name, 'verdict': 'unknown', 'by': None, 'time': 0.0, 'detail': f'smt export failed: {e}'}
            continue
        ob.smt2 = txt
        jobs.append((ob.name, txt, ob.expect, timeout_s, use_cvc5))
    by_name = {ob.name: ob for ob in obligations}
    if not jobs:
        return
    procs = procs or min(16, max(1, len(jobs)))
    ctx = mp.get_context('fork')
    with ctx.Pool(procs) as pool:
        for res in pool.imap_unordered(_worker, jobs, chunksize=1):
            by_name[res['name']].result = res


def model_for(ob, timeout_s=10, extra=None):
    """Re-solve a refuted obligation in-process to obtain a z3 model object (for decoding)."""
    s = z3.Solver()
    s.set('timeout', int(timeout_s * 1000))
    for h in ob.hyps:
        s.add(h)
    s.add(z3.Not(ob.goal) if ob.expect == 'unsat' else ob.goal)
    for e in extra or []:
        s.add(e)
    r = s.check()
    if r == z3.sat:
        return s.model()
    return None


def decode_inputs(model, inputs):
    out = {}
    for name, (kind, term) in inputs.items():
        try:
            out[name] = K.decode(model, kind, term)
        except Exception as e:
            out[name] = f'<undecodable: {e}>'
    return out
