"""L0: assumed contracts of builtins and of the external libraries the verified functions call.

Every model that is more than Python's documented core semantics tags the run with the id of the
assumed contract (DESIGN.md section 3) so that evidence lists exactly what was trusted.
"""
import ast
import z3
from . import kinds as K
from .kinds import Sym
from .values import *
from . import pyops as P
from .pyops2 import ExtObj


def install(ex):
    ex.models = Models(ex)


class Models:
    def __init__(self, ex):
        self.ex = ex
        self.ext_overrides = {}       # dotted name -> value factory(ex)   (contracts may add)

    # ------------------------------------------------------------------ builtins by name
    def builtin(self, name, node=None):
        ex = self.ex
        if name in ('True', 'False', 'None'):
            return {'True': True, 'False': False, 'None': None}[name]
        if name in P.BUILTIN_EXC:
            return ClassVal(('ext', f'builtins.{name}'))
        if name in ('list', 'dict', 'set', 'str', 'int', 'float', 'bool', 'tuple', 'object', 'type', 'frozenset', 'bytes'):
            return ClassVal(('ext', f'builtins.{name}'))
        m = getattr(self, 'b_' + name, None)
        if m is not None:
            return Builtin(name, lambda ex_, args, kw, m=m: m(*args, **kw))
        raise OutOfSubset(f'unknown name {name}', node)

    def ext_value(self, dotted):
        if dotted in self.ext_overrides:
            return self.ext_overrides[dotted](self.ex)
        if dotted.startswith('builtins.'):
            return self.builtin(dotted[9:])
        m = getattr(self, 'x_' + dotted.replace('.', '_'), None)
        if m is not None:
            return m()
        # unknown external: a module / class placeholder; using it will fail with OutOfSubset
        return ModuleVal(('ext', dotted))

    # ------------------------------------------------------------------ builtin functions
    def b_len(self, v):
        ex = self.ex
        if isinstance(v, (str, tuple, list)):
            return len(v)
        if isinstance(v, Sym):
            k = v.kind
            if k == K.Str or isinstance(k, K.Seq):
                return Sym(K.Int, z3.Length(v.t))
            if isinstance(k, K.Map):
                return Sym(K.Int, z3.Length(k.keys(v.t)))
            if isinstance(k, K.Opt):
                if ex.run.decide(k.is_none(v.t)):
                    raise RaiseEx(ExcVal('TypeError', origin='len(None)'))
                return self.b_len(Sym(k.inner, k.val(v.t)))
            if isinstance(k, K.Tup):
                return len(k.items)
            if k == K.Dyn:
                ex.run.assumed.add('A-dyn')
                f = P.ufn('dyn_len', [K.Dyn.sort()], z3.IntSort())
                ex.run.axiom(f(v.t) >= 0)
                J, JL, JD = K.dyn_sorts()
                ex.run.axiom(z3.Implies(J.is_JDict(v.t), (f(v.t) == 0) == JD.is_JDNil(J.jdict(v.t))))
                ex.run.axiom(z3.Implies(z3.And(J.is_JDict(v.t), z3.Not(JD.is_JDNil(J.jdict(v.t))), JD.is_JDNil(JD.jdtail(J.jdict(v.t)))), f(v.t) == 1))
                return Sym(K.Int, f(v.t))
        if isinstance(v, Ref):
            c = ex.run.cell(v)
            if isinstance(c, HList):
                return len(c.items) if c.items is not None else Sym(K.Int, z3.Length(c.sym.t))
            if isinstance(c, HDict):
                return len(c.items) if c.items is not None else Sym(K.Int, z3.Length(c.sym.kind.keys(c.sym.t)))
            if isinstance(c, HSet) and c.items is not None:
                return len(c.items)
            if isinstance(c, HObj) and not isinstance(c.cls, tuple):
                r = c.cls.lookup('__len__')
                if r and r[0] == 'method':
                    return ex.call(BoundMethod(ex.func_of(r[1]), v), [], {})
                if c.cls.is_subclass_of(('ext', 'builtins.dict')):
                    return self.b_len(c.ghost['basedict'])
                if c.cls.is_subclass_of(('ext', 'builtins.str')):
                    return self.b_len(c.payload)
            if isinstance(c, AbstractObj):
                return P.abstract_call(ex, v, '__len__', [], {})
        if isinstance(v, P.IterView):
            return len(v.concrete(ex))
        if isinstance(v, SigParams):
            return v.length(ex)
        raise OutOfSubset(f'len of {v!r}')

    def b_isinstance(self, v, t):
        return isinstance_(self.ex, v, t)

    def b_issubclass(self, c, t):
        return issubclass_(self.ex, c, t)

    def b_hasattr(self, v, name):
        return P.hasattr_(self.ex, v, name)

    def b_getattr(self, v, name, *default):
        ex = self.ex
        if not isinstance(name, str):
            if isinstance(v, Ref) and isinstance(ex.run.cell(v), AbstractObj):
                return P.abstract_call(ex, v, '__getattr_dyn__', [name], {})
            raise OutOfSubset('getattr with symbolic name')
        if default:
            try:
                return P.getattr_(ex, v, name)
            except RaiseEx as r:
                if r.exc.cls == 'AttributeError':
                    return default[0]
                raise
        return P.getattr_(ex, v, name)

    def b_setattr(self, v, name, val):
        if not isinstance(name, str):
            raise OutOfSubset('setattr with symbolic name')
        P.setattr_(self.ex, v, name, val)

    def b_callable(self, v):
        ex = self.ex
        if isinstance(v, (FuncVal, BoundMethod, Builtin, ClassVal, P.AbstractFn)):
            return True
        if isinstance(v, Ref):
            c = ex.run.cell(v)
            if isinstance(c, HObj) and not isinstance(c.cls, tuple):
                return c.cls.lookup('__call__') is not None
            if isinstance(c, AbstractObj):
                return '__call__' in c.iface.methods
            return False
        if isinstance(v, Sym):
            if v.kind == K.Dyn:
                return Sym(K.Bool, P.ufn('dyn_callable', [K.Dyn.sort()], z3.BoolSort())(v.t))
            if isinstance(v.kind, K.Opt):
                if ex.run.decide(v.kind.is_none(v.t)):
                    return False
                return self.b_callable(Sym(v.kind.inner, v.kind.val(v.t)))
            if isinstance(v.kind, K.U):
                return Sym(K.Bool, P.ufn(f'callable_{v.kind.name}', [v.kind.sort()], z3.BoolSort())(v.t))
            return False
        if v is None or isinstance(v, (int, str, tuple, bool, float)):
            return False
        raise OutOfSubset(f'callable({v!r})')

    def b_str(self, v=''):
        return P.py_str(self.ex, v)

    def b_repr(self, v):
        return P.py_repr(self.ex, v)

    def b_int(self, v=0):
        ex = self.ex
        if isinstance(v, (int, str)):
            try:
                return int(v)
            except ValueError:
                raise RaiseEx(ExcVal('ValueError', origin='int()'))
        if isinstance(v, Sym) and v.kind == K.Int:
            return v
        if isinstance(v, Sym) and v.kind == K.Str:
            # int(s): for decimal digit strings str.to_int; otherwise ValueError
            n = z3.StrToInt(v.t)
            if not ex.run.decide(n >= 0, tag='int_parse'):
                raise RaiseEx(ExcVal('ValueError', origin='int()'))
            return Sym(K.Int, n)
        raise OutOfSubset(f'int({v!r})')

    def b_bool(self, v=False):
        t = self.ex.truth(v)
        return t

    def b_type(self, v):
        ex = self.ex
        if isinstance(v, Ref):
            c = ex.run.cell(v)
            if isinstance(c, HObj):
                return ClassVal(c.cls)
            if isinstance(c, HList):
                return ClassVal(('ext', 'builtins.list'))
            if isinstance(c, HDict):
                return ClassVal(('ext', 'builtins.dict'))
            if isinstance(c, HSet):
                return ClassVal(('ext', 'builtins.set'))
            if isinstance(c, AbstractObj):
                t = c.iface.type_of
                if t is not None:
                    return t(ex, v)
        if isinstance(v, bool):
            return ClassVal(('ext', 'builtins.bool'))
        if isinstance(v, int):
            return ClassVal(('ext', 'builtins.int'))
        if isinstance(v, str):
            return ClassVal(('ext', 'builtins.str'))
        if isinstance(v, tuple):
            return ClassVal(('ext', 'builtins.tuple'))
        if v is None:
            return ClassVal(('ext', 'builtins.NoneType'))
        if isinstance(v, Sym):
            k = v.kind
            simple = {'Str': 'builtins.str', 'Int': 'builtins.int', 'Bool': 'builtins.bool', 'Path': 'pathlib.PosixPath'}
            if k.name in simple:
                return ClassVal(('ext', simple[k.name]))
            if isinstance(k, K.Seq):
                return ClassVal(('ext', 'builtins.list'))
            if isinstance(k, K.Map):
                return ClassVal(('ext', 'builtins.dict'))
            if isinstance(k, K.Rec) and k.cls:
                return ClassVal(ex.table.cls(k.cls))
            if k == K.Dyn:
                return DynType(v)
            if isinstance(k, K.Opt):
                if ex.run.decide(k.is_none(v.t)):
                    return ClassVal(('ext', 'builtins.NoneType'))
                return self.b_type(Sym(k.inner, k.val(v.t)))
            if isinstance(k, K.U):
                return ClassVal(('ext', f'opaque.type_of_{k.name}'))
        if isinstance(v, ClassVal):
            mc = v.ci.metaclass() if hasattr(v.ci, 'metaclass') else None
            return ClassVal(mc if mc is not None else ('ext', 'builtins.type'))
        raise OutOfSubset(f'type({v!r})')

    def b_sorted(self, v, key=None, reverse=False):
        from . import loops
        return loops.sorted_(self.ex, v, key, reverse)

    def b_enumerate(self, v, start=0):
        return P.IterView('enumerate', v, start)

    def b_zip(self, *vs):
        return P.IterView('zip', list(vs))

    def b_reversed(self, v):
        return P.IterView('reversed', v)

    def b_iter(self, v):
        return v

    def b_list(self, v=None):
        from . import loops
        if v is None:
            return self.ex.run.alloc(HList(items=[]))
        return loops.to_list(self.ex, v)

    def b_tuple(self, v=()):
        from . import loops
        try:
            return tuple(P.iterate_concrete(self.ex, v))
        except OutOfSubset:
            lst = loops.to_list(self.ex, v)
            c = self.ex.run.cell(lst)
            return c.sym if c.sym is not None else tuple(c.items)

    def b_set(self, v=None):
        ex = self.ex
        if isinstance(v, Sym) and isinstance(v.kind, K.SetOf):
            return ex.run.alloc(HSet(sym=v))
        r = ex.run.alloc(HSet(items=[]))
        if v is not None:
            P.set_update(ex, r, v)
        return r

    def b_dict(self, v=None, **kw):
        ex = self.ex
        from . import loops
        if isinstance(v, Sym) and v.kind == K.Dyn and not kw:
            # dict(d) of a JSON-like mapping: an equal plain dict (Dyn values are compared by value, A-dyn)
            J = K.dyn_sorts()[0]
            if ex.run.decide(J.is_JDict(v.t), tag='dict_of_dyn'):
                ex.run.assumed.add('A-dyn')
                return v
            raise RaiseEx(ExcVal('TypeError', origin='dict() of a non-mapping'))
        m = loops.map_of(ex, v) if v is not None else None
        if m is not None and not kw:
            return ex.run.alloc(HDict(sym=m))       # dict(mapping): a new dict with the same content (same insertion order)
        d = ex.run.alloc(HDict(items={}))
        if v is not None:
            try:
                P.dict_update(ex, d, v)
            except OutOfSubset:
                for it in P.iterate_concrete(ex, v):
                    k_, v_ = P.unpack(ex, it, 2)
                    P.setitem(ex, d, k_, v_)
        for k_, v_ in kw.items():
            P.setitem(ex, d, k_, v_)
        return d

    def b_any(self, v):
        from . import loops
        return loops.any_all(self.ex, v, True)

    def b_all(self, v):
        from . import loops
        return loops.any_all(self.ex, v, False)

    def b_max(self, *vs, **kw):
        from . import loops
        return loops.max_min(self.ex, vs, kw, True)

    def b_min(self, *vs, **kw):
        from . import loops
        return loops.max_min(self.ex, vs, kw, False)

    def b_print(self, *a, **k):
        return None

    def b_id(self, v):
        raise OutOfSubset('id()')

    def b_map(self, f, *its):
        from . import loops
        return loops.map_(self.ex, f, its)

    def b_range(self, *a):
        if all(isinstance(x, int) for x in a):
            return tuple(range(*a))
        from . import loops
        return loops.range_(self.ex, a)

    def b_dir(self, v):
        raise OutOfSubset('dir()')

    def b_NotImplemented(self):
        return None

    # ------------------------------------------------------------------ str methods
    def str_method(self, s, name):
        m = getattr(self, 's_' + name, None)
        if m is None:
            raise OutOfSubset(f'str.{name}')
        return Builtin(f'str.{name}', lambda ex_, args, kw: m(*args, **kw), self_val=s)

    def _concrete(self, *vs):
        return all(isinstance(v, (str, int, tuple)) or v is None for v in vs)

    def s_startswith(self, s, p):
        ex = self.ex
        if isinstance(s, str) and isinstance(p, str):
            return s.startswith(p)
        if isinstance(p, tuple):
            acc = False
            for x in p:
                acc = P.or_(ex, acc, self.s_startswith(s, x))
            return acc
        pt = self._str_or_typeerror(p, 'startswith')
        return Sym(K.Bool, z3.PrefixOf(pt, P.str_t(ex, s)))

    def _str_or_typeerror(self, p, what):
        ex = self.ex
        if isinstance(p, Sym) and isinstance(p.kind, K.Opt) and p.kind.inner == K.Str:
            if ex.run.decide(p.kind.is_none(p.t)):
                raise RaiseEx(ExcVal('TypeError', origin=f'{what}(None)'))
            return p.kind.val(p.t)
        if p is None:
            raise RaiseEx(ExcVal('TypeError', origin=f'{what}(None)'))
        return P.str_t(ex, p)

    def s_endswith(self, s, p):
        ex = self.ex
        if isinstance(s, str) and isinstance(p, str):
            return s.endswith(p)
        pt = self._str_or_typeerror(p, 'endswith')
        return Sym(K.Bool, z3.SuffixOf(pt, P.str_t(ex, s)))

    def s_lower(self, s):
        if isinstance(s, str):
            return s.lower()
        self.ex.run.assumed.add('A-str')
        return Sym(K.Str, P.ufn('str_lower', [z3.StringSort()], z3.StringSort())(s.t))

    def s_strip(self, s, chars=None):
        if isinstance(s, str) and (chars is None or isinstance(chars, str)):
            return s.strip(chars)
        self.ex.run.assumed.add('A-str')
        return Sym(K.Str, P.ufn('str_strip', [z3.StringSort()], z3.StringSort())(P.str_t(self.ex, s)))

    def s_lstrip(self, s, chars=None):
        if isinstance(s, str) and (chars is None or isinstance(chars, str)):
            return s.lstrip(chars)
        self.ex.run.assumed.add('A-str')
        f = P.ufn('str_lstrip', [z3.StringSort(), z3.StringSort()], z3.StringSort())
        return Sym(K.Str, f(P.str_t(self.ex, s), P.str_t(self.ex, chars if chars is not None else ' ')))

    def s_replace(self, s, a, b):
        if self._concrete(s, a, b):
            return s.replace(a, b)
        ex = self.ex
        # Python's replace substitutes all occurrences = SMT-LIB str.replace_all
        st, at, bt = P.str_t(ex, s), P.str_t(ex, a), P.str_t(ex, b)
        f = z3.Function('str.replace_all', z3.StringSort(), z3.StringSort(), z3.StringSort(), z3.StringSort()) \
            if False else None
        return Sym(K.Str, replace_all(st, at, bt))

    def s_split(self, s, sep=None, maxsplit=-1):
        ex = self.ex
        if isinstance(s, str) and (sep is None or isinstance(sep, str)) and isinstance(maxsplit, int):
            return ex.run.alloc(HList(items=list(s.split(sep, maxsplit))))
        if not isinstance(sep, str) or maxsplit != -1:
            raise OutOfSubset('split with symbolic separator / maxsplit')
        return ex.run.alloc(HList(sym=split(ex, P.str_t(ex, s), sep)))

    def s_join(self, sep, it):
        from . import loops
        return loops.join(self.ex, sep, it)

    def s_format(self, s, *a, **k):
        raise OutOfSubset('str.format')

    def s_encode(self, s, *a):
        return Bytes(s)

    def s_find(self, s, sub):
        ex = self.ex
        if isinstance(s, str) and isinstance(sub, str):
            return s.find(sub)
        return Sym(K.Int, z3.IndexOf(P.str_t(ex, s), P.str_t(ex, sub), 0))

    def s_partition(self, s, sep):
        raise OutOfSubset('str.partition')

    def s_rpartition(self, s, sep):
        raise OutOfSubset('str.rpartition')

    # ------------------------------------------------------------------ list / seq methods
    def list_method(self, ref, name):
        m = getattr(self, 'l_' + name, None)
        if m is None:
            raise OutOfSubset(f'list.{name}')
        return Builtin(f'list.{name}', lambda ex_, args, kw: m(*args, **kw), self_val=ref)

    def l_append(self, ref, v):
        P.list_append(self.ex, ref, v)

    def l_extend(self, ref, other):
        P.list_extend(self.ex, ref, other)

    def l_index(self, ref, v):
        ex = self.ex
        c = ex.run.cell(ref)
        if c.items is not None:
            for i, it in enumerate(c.items):
                if ex.truth(P.eq(ex, it, v)):
                    return i
            raise RaiseEx(ExcVal('ValueError', origin='list.index'))
        raise OutOfSubset('index on symbolic list')

    def l_clear(self, ref):
        ex = self.ex
        c = ex.run.cell(ref)
        P.note_mutation(ex, ref, c)
        if c.items is not None:
            c.items = []
        else:
            c.sym = Sym(c.sym.kind, z3.Empty(c.sym.kind.sort()))

    def l_copy(self, ref):
        return self.ex.run.alloc(self.ex.run.cell(ref).copy())

    def l_pop(self, ref, idx=-1):
        ex = self.ex
        c = ex.run.cell(ref)
        P.note_mutation(ex, ref, c)
        if c.items is not None and isinstance(idx, int):
            try:
                return c.items.pop(idx)
            except IndexError:
                raise RaiseEx(ExcVal('IndexError', origin='pop'))
        raise OutOfSubset('pop on symbolic list')

    def seq_method(self, s, name):
        if name in ('index', 'count'):
            raise OutOfSubset(f'seq.{name}')
        raise OutOfSubset(f'mutation/method {name} on immutable symbolic sequence')

    # ------------------------------------------------------------------ dict / map methods
    def dict_method(self, ref, name):
        m = getattr(self, 'd_' + name, None)
        if m is None:
            raise OutOfSubset(f'dict.{name}')
        return Builtin(f'dict.{name}', lambda ex_, args, kw: m(*args, **kw), self_val=ref)

    def d_items(self, ref):
        return P.IterView('items', ref)

    def d_keys(self, ref):
        return P.IterView('keys', ref)

    def d_values(self, ref):
        return P.IterView('values', ref)

    def d_get(self, ref, key, default=None):
        ex = self.ex
        c = ex.run.cell(ref)
        if c.items is not None:
            try:
                return P.getitem(ex, ref, key)
            except RaiseEx as r:
                if r.exc.cls == 'KeyError':
                    return default
                raise
        return self.map_get(c.sym, key, default)

    def map_get(self, m, key, default):
        ex = self.ex
        k = m.kind
        ov = z3.Select(k.arr(m.t), P.lift(ex, key, k.key))
        if default is None:
            return Sym(k.optv, ov)
        if ex.run.decide(k.optv.is_none(ov)):
            return default
        return Sym(k.val, k.optv.val(ov))

    def d_update(self, ref, other=None, **kw):
        ex = self.ex
        if other is not None:
            P.dict_update(ex, ref, other)
        for k_, v_ in kw.items():
            P.setitem(ex, ref, k_, v_)

    def d_pop(self, ref, key, *default):
        ex = self.ex
        try:
            v = P.getitem(ex, ref, key)
        except RaiseEx as r:
            if r.exc.cls == 'KeyError' and default:
                return default[0]
            raise
        P.delitem(ex, ref, key)
        return v

    def d_setdefault(self, ref, key, default=None):
        ex = self.ex
        if ex.truth(P.contains(ex, ref, key)):
            return P.getitem(ex, ref, key)
        P.setitem(ex, ref, key, default)
        return default

    def d_copy(self, ref):
        return self.ex.run.alloc(self.ex.run.cell(ref).copy())

    def d___contains__(self, ref, key):
        return P.contains(self.ex, ref, key)

    def d___setitem__(self, ref, key, v):
        P.setitem(self.ex, ref, key, v)

    def d___getitem__(self, ref, key):
        return P.getitem(self.ex, ref, key)

    def map_method(self, m, name):
        ex = self.ex
        if name == 'items':
            return Builtin('map.items', lambda ex_, a, k: P.IterView('items', m))
        if name == 'keys':
            return Builtin('map.keys', lambda ex_, a, k: P.IterView('keys', m))
        if name == 'values':
            return Builtin('map.values', lambda ex_, a, k: P.IterView('values', m))
        if name == 'get':
            return Builtin('map.get', lambda ex_, a, k: self.map_get(m, a[0], a[1] if len(a) > 1 else k.get('default')))
        raise OutOfSubset(f'method {name} on immutable symbolic map')

    def set_method(self, ref, name):
        ex = self.ex
        if name == 'copy':
            return Builtin('set.copy', lambda ex_, a, k: ex.run.alloc(ex.run.cell(ref).copy()))
        if name == 'add':
            return Builtin('set.add', lambda ex_, a, k: P.set_add(ex, ref, a[0]))
        if name == 'update':
            return Builtin('set.update', lambda ex_, a, k: P.set_update(ex, ref, a[0]))
        raise OutOfSubset(f'set.{name}')

    # ------------------------------------------------------------------ methods inherited from external bases
    def ext_method(self, base, name, selfv):
        ex = self.ex
        base = base.replace('builtins.', '')
        if base == 'object':
            if name == '__init__':
                return Builtin('object.__init__', lambda ex_, a, k: None)
            if name == '__getattribute__':
                def ga(ex_, a, k):
                    raise RaiseEx(ExcVal('AttributeError', origin=f'object.__getattribute__({a[0]!r})'))
                return Builtin('object.__getattribute__', ga)
            if name == '__new__':
                return Builtin('object.__new__', lambda ex_, a, k: P.new_object(ex, a[0].ci))
            raise KeyError(name)
        if base == 'dict':
            cell = ex.run.cell(selfv) if isinstance(selfv, Ref) else None
            bd = cell.ghost.get('basedict') if cell is not None else None
            if name == '__init__':
                def init(ex_, a, k):
                    if a or k:
                        self.d_update(bd, *a, **k)
                return Builtin('dict.__init__', init)
            if name == '__getattribute__':
                def ga(ex_, a, k):
                    raise RaiseEx(ExcVal('AttributeError', origin=f'dict.__getattribute__({a[0]!r})'))
                return Builtin('dict.__getattribute__', ga)
            if bd is not None:
                m = getattr(self, 'd_' + name, None)
                if m is not None:
                    return Builtin(f'dict.{name}', lambda ex_, a, k: m(bd, *a, **k))
            raise KeyError(name)
        if base == 'str':
            cell = ex.run.cell(selfv)
            if name == '__new__':
                def new(ex_, a, k):
                    cls = a[0]
                    return P.new_object(ex, cls.ci, payload=P.py_str(ex, a[1]) if len(a) > 1 else '')
                return Builtin('str.__new__', new)
            return self.str_method(cell.payload, name)
        if base in ('abc.ABC', 'type'):
            if name == '__init__':
                return Builtin('ABC.__init__', lambda ex_, a, k: None)
            raise KeyError(name)
        raise KeyError(name)

    def ext_construct(self, dotted, args, kwargs, node=None):
        ex = self.ex
        d = dotted.replace('builtins.', '')
        if d in P.BUILTIN_EXC:
            return ExcVal(d, tuple(args))
        if d == 'list':
            return self.b_list(*args)
        if d == 'dict':
            return self.b_dict(*args, **kwargs)
        if d == 'set':
            return self.b_set(*args)
        if d == 'str':
            return self.b_str(*args)
        if d == 'int':
            return self.b_int(*args)
        if d == 'bool':
            return self.b_bool(*args)
        if d == 'tuple':
            return self.b_tuple(*args)
        if d == 'type':
            return self.b_type(*args)
        if d == 'object':
            return ex.run.alloc(HObj(('ext', 'builtins.object')))
        m = getattr(self, 'c_' + d.replace('.', '_'), None)
        if m is not None:
            return m(*args, **kwargs)
        if dotted in self.ext_overrides:
            return ex.call(self.ext_overrides[dotted](ex), args, kwargs)
        raise OutOfSubset(f'construction of external {dotted}', node)

    # ------------------------------------------------------------------ Dyn universe (config values)
    def dyn_hasattr(self, v, name):
        J = K.dyn_sorts()[0]
        self.ex.run.assumed.add('A-dyn')
        if name == 'repr':
            # ParameterObject instances (callable .repr) and ReprStr (attribute .repr set in __new__)
            return Sym(K.Bool, z3.Or(J.is_JObj(v.t), J.is_JRStr(v.t)))
        if name == '_taskchain_instantiate_repr':
            return Sym(K.Bool, J.is_JInst(v.t))
        raise OutOfSubset(f'hasattr(<config value>, {name})')

    def dyn_attr(self, v, name):
        ex = self.ex
        J = K.dyn_sorts()[0]
        ex.run.assumed.add('A-dyn')
        if name == 'repr':
            if ex.run.decide(J.is_JObj(v.t)):
                # a ParameterObject: .repr is its (user-defined) repr method -- an abstract pure function of the object
                return Builtin('obj.repr', lambda ex_, a, k: Sym(K.Str, P.ufn('obj_repr', [z3.IntSort()], z3.StringSort())(J.jobj_id(v.t))))
            if ex.run.decide(J.is_JRStr(v.t)):
                return Sym(K.Str, P.pyrepr_str(J.jrs_orig(v.t)))
            raise RaiseEx(ExcVal('AttributeError', origin='.repr'))
        if name == '_taskchain_instantiate_repr':
            if ex.run.decide(J.is_JInst(v.t)):
                return Sym(K.Str, P.ufn('inst_repr', [z3.IntSort()], z3.StringSort())(J.jinst_id(v.t)))
            raise RaiseEx(ExcVal('AttributeError', origin='._taskchain_instantiate_repr'))
        if name == 'items':
            if ex.run.decide(J.is_JDict(v.t)):
                kv = K.Tup(K.Dyn, K.Dyn)
                return Builtin('dyn.items', lambda ex_, a, k: Sym(K.Seq(kv), P.dyn_items(ex, J.jdict(v.t))))
            raise RaiseEx(ExcVal('AttributeError', origin='.items'))
        raise OutOfSubset(f'attribute {name} of config value')

    def dyn_getitem(self, v, idx):
        raise OutOfSubset('subscript of config value')

    # ------------------------------------------------------------------ pathlib (text model) -- FS part in fsmodel.py
    def path_attr(self, p, name):
        from . import fsmodel
        return fsmodel.path_attr(self.ex, p, name)

    def c_pathlib_Path(self, *parts):
        ex = self.ex
        if len(parts) == 1:
            v = parts[0]
            if isinstance(v, Sym) and v.kind == K.Path:
                return v
            if isinstance(v, Sym) and isinstance(v.kind, K.Opt):
                if ex.run.decide(v.kind.is_none(v.t)):
                    raise RaiseEx(ExcVal('TypeError', origin='Path(None)'))
                return self.c_pathlib_Path(Sym(v.kind.inner, v.kind.val(v.t)))
            if isinstance(v, Sym) and v.kind == K.Dyn:
                J = K.dyn_sorts()[0]
                ex.run.assumed.add('A-path')
                # Path(str) ; Path(ReprStr) uses the value ; Path(Path) identity ; others raise TypeError
                if ex.run.decide(z3.Or(J.is_JStr(v.t), J.is_JRStr(v.t), J.is_JPath(v.t))):
                    txt = z3.If(J.is_JStr(v.t), J.jstr(v.t), z3.If(J.is_JRStr(v.t), J.jrs_value(v.t), J.jpath(v.t)))
                    return Sym(K.Path, txt)
                raise RaiseEx(ExcVal('TypeError', origin='Path(non-str)'))
            if isinstance(v, Ref):
                c = ex.run.cell(v)
                if isinstance(c, HObj) and not isinstance(c.cls, tuple) and c.cls.is_subclass_of(('ext', 'builtins.str')):
                    return Sym(K.Path, P.str_t(ex, c.payload))
            return Sym(K.Path, P.str_t(ex, v))
        raise OutOfSubset('Path with several parts')

    def x_pathlib_Path(self):
        return ClassVal(('ext', 'pathlib.Path'))

    def u_method(self, v, name):
        """methods of opaque library values (a DataFrame, a Figure)"""
        from . import fsmodel
        ex = self.ex
        if name == 'to_pickle':
            def to_pickle(ex_, a, k):
                ex.run.assumed.add('A-pd')
                ex.run.trace.append(Event('to_pickle', None, [v, a[0]], 'ret'))
                fsmodel.write_in_place(ex, 'to_pickle', a[0], P.ufn('pd_bytes', [v.t.sort()], z3.IntSort())(v.t))
            return Builtin('to_pickle', to_pickle)
        if name == 'savefig':
            def savefig(ex_, a, k):
                ex.run.trace.append(Event('savefig', None, [v, a[0]], 'ret'))
                fsmodel.write_in_place(ex, 'savefig', a[0], P.ufn('fig_bytes', [v.t.sort()], z3.IntSort())(v.t))
            return Builtin('savefig', savefig)
        # attributes of opaque objects declared by the contract module: U_ATTRS = {kind name: {attr: Kind}} (functions of the object)
        c = ex.contracts.current if ex.contracts else None
        mods = [c.module.py] if c is not None else [cm.py for cm in (ex.contracts.modules.values() if ex.contracts else [])]
        for mod in mods:
            spec = getattr(mod, 'U_ATTRS', {}).get(v.kind.name, {})
            if name in spec:
                kd = spec[name]
                if isinstance(kd, tuple):       # (Kind, 'event'): reading the attribute is an observable request (e.g. task.value)
                    kd = kd[0]
                    ex.run.trace.append(Event(name, None, [v], 'ret'))
                return Sym(kd, P.ufn(f'{v.kind.name}_{name}', [v.kind.sort()], kd.sort())(v.t))
            pspec = getattr(mod, 'U_PURE_METHODS', {}).get(v.kind.name, {})
            if name in pspec:
                # pure method: a function of the receiver; object arguments must be the same object at every call site
                kd = pspec[name]

                def pcall(ex_, a, k, kd=kd, name=name):
                    seen = ex_.run.ghost.setdefault('_pure_args', {})
                    sig = tuple(x.addr if isinstance(x, Ref) else repr(x) for x in list(a) + list(k.values()))
                    if seen.setdefault((v.kind.name, name), sig) != sig:
                        raise OutOfSubset(f'pure method {v.kind.name}.{name} called with different arguments')
                    return Sym(kd, P.ufn(f'{v.kind.name}_{name}', [v.kind.sort()], kd.sort())(v.t))
                return Builtin(f'{v.kind.name}.{name}', pcall)
            mspec = getattr(mod, 'U_METHODS', {}).get(v.kind.name, {})
            if name in mspec:
                kd = mspec[name]

                def call(ex_, a, k, kd=kd, name=name):
                    ret = ex_.run.fresh(kd, f'{v.kind.name}.{name}') if kd is not None else None
                    ex_.run.trace.append(Event(name, None, [v] + list(a) + list(k.values()), 'ret', ret))
                    return ret
                return Builtin(f'{v.kind.name}.{name}', call)
        raise OutOfSubset(f'attribute {name} of opaque value {v.kind.name}')

    # ------------------------------------------------------------------ serialisation libraries (A-json, A-np, A-pd, A-pickle, A-yaml)
    def _lib_bytes(self, name, v, extra=None):
        """opaque serialised form of a value: an uninterpreted injective-by-assumption function"""
        ex = self.ex
        vt = lib_val(ex, v)
        if extra is None:
            return P.ufn(f'{name}_bytes', [vt.sort()], z3.IntSort())(vt)
        return P.ufn(f'{name}_bytes', [vt.sort(), z3.IntSort()], z3.IntSort())(vt, z3.IntVal(extra))

    def x_orjson(self):
        return OrjsonModule()

    def x_json(self):
        return JsonStdModule()

    def x_numpy(self):
        return NumpyModule()

    def x_pandas(self):
        return PandasModule()

    def x_pickle(self):
        return PickleModule()

    def x_yaml(self):
        return YamlModule()

    def x_matplotlib_pyplot(self):
        return PltModule()

    def x_pylab(self):
        return ModuleVal(('ext', 'pylab'))

    def x_h5py(self):
        return ModuleVal(('ext', 'h5py'))

    # ------------------------------------------------------------------ filelock (A-lock): sequential semantics only
    def x_filelock_FileLock(self):
        return Builtin('FileLock', lambda ex_, a, k: LockObj())

    def x_logging(self):
        return LoggingModule()

    # ------------------------------------------------------------------ clock and user (A-time): opaque values
    def x_getpass(self):
        return GetpassModule()

    def x_getpass_getuser(self):
        return Builtin('getpass.getuser', lambda ex_, a, k: GetpassModule().m_getuser(ex_))

    def x_datetime_datetime(self):
        return DatetimeClass()

    def x_threading_get_ident(self):
        # a single thread (stated assumption): the identifier of "this" thread is one fixed number
        return Builtin('threading.get_ident', lambda ex_, a, k: 0)

    def x_pkg_resources_get_distribution(self):
        return Builtin('pkg_resources.get_distribution', lambda ex_, a, k: DistributionObj())

    def x_math_isclose(self):
        def f(ex_, a, k):
            return Sym(K.Bool, P.ufn('math_isclose', [z3.IntSort(), z3.IntSort()], z3.BoolSort())(P.int_t(ex_, a[0]), P.int_t(ex_, a[1])))
        return Builtin('math.isclose', f)

    # ------------------------------------------------------------------ inspect (A-inspect)
    def x_inspect_signature(self):
        return Builtin('inspect.signature', lambda ex_, a, k: SigObj(ex_, a[0]))

    def x_inspect_isabstract(self):
        def isabs(ex_, a, k):
            v = a[0]
            if isinstance(v, Ref) and isinstance(ex_.run.cell(v), AbstractObj):
                return P.getattr_(ex_, v, '__isabstract__')
            if isinstance(v, ClassVal) and not isinstance(v.ci, tuple):
                return any(fi.is_abstract for c in v.ci.mro() if hasattr(c, 'methods') for fi in c.methods.values()
                           if v.ci.lookup(fi.qualname.split('.')[-1]) == ('method', fi))
            raise OutOfSubset('inspect.isabstract')
        return Builtin('inspect.isabstract', isabs)

    def x_inspect_isclass(self):
        def iscls(ex_, a, k):
            v = a[0]
            if isinstance(v, ClassVal):
                return True
            if isinstance(v, Ref) and isinstance(ex_.run.cell(v), AbstractObj):
                return P.getattr_(ex_, v, '__isclass__')
            return False
        return Builtin('inspect.isclass', iscls)

    def x_inspect_Parameter(self):
        return ClassVal(('ext', 'inspect.Parameter'))

    def x_inspect_Parameter_empty(self):
        return ClassVal(('ext', 'inspect.Parameter.empty'))

    def x_inspect(self):
        return ModuleVal(('ext', 'inspect'))

    # ------------------------------------------------------------------ copy (A-copy)
    def x_copy_deepcopy(self):
        return Builtin('copy.deepcopy', lambda ex_, a, k: deepcopy_(ex_, a[0]))

    def x_copy_copy(self):
        return Builtin('copy.copy', lambda ex_, a, k: deepcopy_(ex_, a[0], shallow=True))

    # ------------------------------------------------------------------ shutil (A-fs)
    def x_shutil_move(self):
        from . import fsmodel
        return Builtin('shutil.move', lambda ex_, a, k: fsmodel.sh_move(ex_, a[0], a[1]))

    def x_shutil_rmtree(self):
        from . import fsmodel
        return Builtin('shutil.rmtree', lambda ex_, a, k: fsmodel.sh_rmtree(ex_, a[0], **k))

    def x_shutil_copyfile(self):
        from . import fsmodel
        return Builtin('shutil.copyfile', lambda ex_, a, k: fsmodel.sh_copy(ex_, a[0], a[1], 'copyfile'))

    def x_shutil_copytree(self):
        from . import fsmodel
        return Builtin('shutil.copytree', lambda ex_, a, k: fsmodel.sh_copy(ex_, a[0], a[1], 'copytree', **k))

    def x_shutil(self):
        return ModuleVal(('ext', 'shutil'))

    # ------------------------------------------------------------------ re (A-re): opaque functions of (pattern, text)
    def x_re_sub(self):
        def sub(ex_, a, k):
            pat, repl, s = a[0], a[1], a[2]
            if not isinstance(pat, str) or not isinstance(repl, str):
                raise OutOfSubset('re.sub with non-constant pattern / callable replacement')
            ex_.run.assumed.add('A-re')
            if isinstance(s, str):
                import re
                return re.sub(pat, repl, s)
            f = P.ufn('re_sub_' + _sepname(pat) + '_' + _sepname(repl), [z3.StringSort()], z3.StringSort())
            return Sym(K.Str, f(P.str_t(ex_, s)))
        return Builtin('re.sub', sub)

    def x_re_subn(self):
        def subn(ex_, a, k):
            """re.subn(pattern, repl, s) (A-re): an uninterpreted scan of s; count 0 means nothing matched and the text is s itself"""
            pat, repl, s = a[0], a[1], a[2]
            if not isinstance(pat, str):
                raise OutOfSubset('re.subn with a symbolic pattern')
            ex_.run.assumed.add('A-re')
            st = P.str_t(ex_, s)
            rid = z3.StringVal(repr(getattr(getattr(repl, 'fi', None), 'key', repl)) if not isinstance(repl, str) else 'const:' + repl)
            text = P.ufn('re_subn_text_' + _sepname(pat), [z3.StringSort(), z3.StringSort()], z3.StringSort())(st, rid)
            count = P.ufn('re_subn_count_' + _sepname(pat), [z3.StringSort()], z3.IntSort())(st)
            ex_.run.axiom(count >= 0)
            ex_.run.axiom(z3.Implies(count == 0, text == st))
            ret = (Sym(K.Str, text), Sym(K.Int, count))
            ex_.run.trace.append(Event('re.subn', None, [pat, s], 'ret', ret))
            return ret
        return Builtin('re.subn', subn)

    def x_re_fullmatch(self):
        def fm(ex_, a, k):
            ex_.run.assumed.add('A-re')
            f = P.ufn('re_fullmatch', [z3.StringSort(), z3.StringSort()], z3.BoolSort())
            return Sym(K.Bool, f(P.str_t(ex_, a[0]), P.str_t(ex_, a[1])))
        return Builtin('re.fullmatch', fm)

    def x_re_compile(self):
        return Builtin('re.compile', lambda ex_, a, k: RegexObj(ex_, a[0]))

    def x_re(self):
        return ModuleVal(('ext', 're'))

    # ------------------------------------------------------------------ hashlib (A-sha)
    def x_hashlib_sha256(self):
        return Builtin('hashlib.sha256', lambda ex_, a, k: ShaObj(a[0]))

    # ------------------------------------------------------------------ pyvc.prims (symbolic twins)
    def x_pyvc_prims_sha256_hex(self):
        return Builtin('prims.sha256_hex', lambda ex_, a, k: sha256_hex(ex_, a[0]))

    def x_pyvc_prims_pyrepr(self):
        return Builtin('prims.pyrepr', lambda ex_, a, k: P.py_repr(ex_, a[0]))

    def x_pyvc_prims_orjson_dumps(self):
        def f(ex_, a, k):
            vt = lib_val(ex_, a[0])
            fn = P.ufn('orjson_dumps_' + str(vt.sort()), [vt.sort(), z3.IntSort()], z3.StringSort())
            return Sym(K.Str, fn(vt, P.int_t(ex_, a[1])))
        return Builtin('prims.orjson_dumps', f)

    def x_pyvc_prims_orjson_loads(self):
        return Builtin('prims.orjson_loads', lambda ex_, a, k: Sym(K.U('Val', plain=True), P.ufn('orjson_loads', [z3.StringSort()], K.U('Val').sort())(P.str_t(ex_, a[0]))))

    def x_pyvc_prims_content_append(self):
        return Builtin('prims.content_append', lambda ex_, a, k: Sym(K.Int, P.ufn('content_append', [z3.IntSort(), z3.StringSort()], z3.IntSort())(P.int_t(ex_, a[0]), P.str_t(ex_, a[1]))))

    def x_pyvc_prims_content_text(self):
        return Builtin('prims.content_text', lambda ex_, a, k: Sym(K.Str, P.ufn('content_text', [z3.IntSort()], z3.StringSort())(P.int_t(ex_, a[0]))))

    def x_pyvc_prims_npy_bytes(self):
        def f(ex_, a, k):
            vt = lib_val(ex_, a[0])
            return Sym(K.Int, P.ufn('npy_bytes', [vt.sort()], z3.IntSort())(vt))
        return Builtin('prims.npy_bytes', f)

    def x_pyvc_prims_npy_load(self):
        return Builtin('prims.npy_load', lambda ex_, a, k: Sym(K.U('Val', plain=True), P.ufn('npy_load', [z3.IntSort()], K.U('Val').sort())(P.int_t(ex_, a[0]))))

    def x_pyvc_prims_lib_bytes(self):
        def f(ex_, a, k):
            vt = lib_val(ex_, a[1])
            return Sym(K.Int, P.ufn(f'{a[0]}', [vt.sort()], z3.IntSort())(vt))
        return Builtin('prims.lib_bytes', f)

    def x_pyvc_prims_lib_text(self):
        def f(ex_, a, k):
            vt = lib_val(ex_, a[1])
            return Sym(K.Str, P.ufn(f'{a[0]}', [vt.sort()], z3.StringSort())(vt))
        return Builtin('prims.lib_text', f)

    def x_pyvc_prims_lib_load(self):
        return Builtin('prims.lib_load', lambda ex_, a, k: Sym(K.U('Val', plain=True), P.ufn(f'{a[0]}', [z3.IntSort()], K.U('Val').sort())(P.int_t(ex_, a[1]))))

    def x_pyvc_prims_seq_fold(self):
        from . import loops
        return Builtin('prims.seq_fold', lambda ex_, a, k: loops.seq_fold(ex_, a[0], a[1], a[2]))

    def x_pyvc_prims_str_strip(self):
        return Builtin('prims.str_strip', lambda ex_, a, k: self.s_strip(a[0]))

    def _seq_arg(self, ex_, v):
        from . import loops
        s_ = loops.as_seq(ex_, v)
        if isinstance(s_, list):
            k = K.Seq(P.kind_of(ex_, s_[0])) if s_ else None
            if k is None:
                raise OutOfSubset('slice prim on an empty concrete list')
            return Sym(k, P.seq_of(ex_, [P.lift(ex_, x, k.elem) for x in s_], k))
        return s_

    def x_pyvc_prims_seq_take(self):
        def f(ex_, a, k):
            s_ = self._seq_arg(ex_, a[0])
            return Sym(s_.kind, z3.SubSeq(s_.t, 0, P.int_t(ex_, a[1])))
        return Builtin('prims.seq_take', f)

    def x_pyvc_prims_seq_drop(self):
        def f(ex_, a, k):
            s_ = self._seq_arg(ex_, a[0])
            n = P.int_t(ex_, a[1])
            return Sym(s_.kind, z3.SubSeq(s_.t, n, z3.Length(s_.t) - n))
        return Builtin('prims.seq_drop', f)

    def x_pyvc_prims_seq_slice(self):
        def f(ex_, a, k):
            s_ = self._seq_arg(ex_, a[0])
            lo, hi = P.int_t(ex_, a[1]), P.int_t(ex_, a[2])
            return Sym(s_.kind, z3.SubSeq(s_.t, lo, hi - lo))
        return Builtin('prims.seq_slice', f)

    def _kind_by_name(self, n):
        if isinstance(n, K.Kind):
            return n
        table = {'Str': K.Str, 'Int': K.Int, 'Bool': K.Bool, 'Dyn': K.Dyn, 'Val': K.U('Val', plain=True), 'Path': K.Path}
        return table[n] if n in table else K.U(n)

    def x_pyvc_prims_empty_map(self):
        return Builtin('prims.empty_map', lambda ex_, a, k: P.empty_map(ex_, K.Map(self._kind_by_name(a[0]), self._kind_by_name(a[1]))))

    def x_pyvc_prims_empty_seq(self):
        return Builtin('prims.empty_seq', lambda ex_, a, k: Sym(K.Seq(self._kind_by_name(a[0])), z3.Empty(K.Seq(self._kind_by_name(a[0])).sort())))

    def _set_sym(self, ex_, v):
        if isinstance(v, Sym) and isinstance(v.kind, K.SetOf):
            return v
        if isinstance(v, Ref):
            c = ex_.run.cell(v)
            if isinstance(c, HSet) and c.sym is not None:
                return c.sym
        raise OutOfSubset(f'symbolic set expected, got {v!r}')

    def _nx_set(self, ex_, name, graph, node):
        ex_.run.assumed.add('A-nx')
        k = K.SetOf(node.kind)
        return Sym(k, P.ufn(f'nx_{name}_{node.kind.name}', [graph.t.sort(), node.t.sort()], k.sort())(graph.t, node.t))

    def x_pyvc_prims_nx_desc(self):
        return Builtin('prims.nx_desc', lambda ex_, a, k: self._nx_set(ex_, 'desc', a[0], a[1]))

    def x_pyvc_prims_nx_anc(self):
        return Builtin('prims.nx_anc', lambda ex_, a, k: self._nx_set(ex_, 'anc', a[0], a[1]))

    def x_pyvc_prims_nx_has_path(self):
        def f(ex_, a, k):
            ex_.run.assumed.add('A-nx')
            return Sym(K.Bool, P.ufn(f'nx_has_path_{a[1].kind.name}', [a[0].t.sort(), a[1].t.sort(), a[2].t.sort()], z3.BoolSort())(a[0].t, a[1].t, a[2].t))
        return Builtin('prims.nx_has_path', f)

    def x_pyvc_prims_set_with(self):
        def f(ex_, a, k):
            s_ = self._set_sym(ex_, a[0])
            return Sym(s_.kind, z3.Store(s_.t, P.lift(ex_, a[1], s_.kind.elem), z3.BoolVal(True)))
        return Builtin('prims.set_with', f)

    def x_pyvc_prims_set_union(self):
        def f(ex_, a, k):
            s1, s2 = self._set_sym(ex_, a[0]), self._set_sym(ex_, a[1])
            return Sym(s1.kind, z3.SetUnion(s1.t, s2.t))
        return Builtin('prims.set_union', f)

    def x_pyvc_prims_empty_set(self):
        def f(ex_, a, k):
            kd = K.SetOf(self._kind_by_name(a[0]))
            return Sym(kd, z3.K(kd.elem.sort(), z3.BoolVal(False)))
        return Builtin('prims.empty_set', f)

    def x_networkx(self):
        return NxModule(self)

    def _c10_uf(self, name, rk):
        def f(ex_, a, k):
            from . import loops
            names = loops.as_seq(ex_, a[1])
            if not isinstance(names, Sym):
                names = P.seq_of(ex_, [P.str_t(ex_, x) for x in names], K.Seq(K.Str)) if False else None
            if names is None or not isinstance(names.kind, K.Seq):
                raise OutOfSubset(f'{name}: a symbolic name sequence expected')
            item = P.str_t(ex_, a[0])
            return Sym(rk, P.ufn(name, [z3.StringSort(), names.t.sort()], rk.sort())(item, names.t))
        return Builtin(f'prims.{name}', f)

    def x_pyvc_prims_c10_resolves(self):
        return self._c10_uf('c10_resolves', K.Bool)

    def x_pyvc_prims_c10_target(self):
        return self._c10_uf('c10_target', K.Str)

    def x_pyvc_prims_same_map(self):
        def f(ex_, a, k):
            from . import loops
            m1, m2 = loops.map_of(ex_, a[0]), loops.map_of(ex_, a[1])
            if m1 is None or m2 is None:
                raise OutOfSubset('same_map on concrete dicts')
            return Sym(K.Bool, m1.t == m2.t)
        return Builtin('prims.same_map', f)

    def x_pyvc_prims_all_of(self):
        def f(ex_, a, k):
            acc = True
            for x in a:
                acc = P.and_(ex_, acc, x if isinstance(x, (bool, Sym)) else ex_.truth(x))
            return acc
        return Builtin('prims.all_of', f)

    def x_pyvc_prims_any_of(self):
        def f(ex_, a, k):
            acc = False
            for x in a:
                acc = P.or_(ex_, acc, x if isinstance(x, (bool, Sym)) else ex_.truth(x))
            return acc
        return Builtin('prims.any_of', f)

    def x_pyvc_prims_lemma(self):
        def lemma(ex_, a, k):
            run = ex_.run
            fact = a[0]
            if isinstance(fact, bool):
                if not fact:
                    run.oblige('lemma', 'lemma', z3.BoolVal(False))
                return True
            ft = P.lift(ex_, fact, K.Bool)
            seen = run.ghost.setdefault('_lemma_ids', set())
            lkey = (ft.get_id(), tuple(h.get_id() for h in run.pc))
            if lkey not in seen:
                seen.add(lkey)
                n = len(run.obligations_sink)
                ob = run.oblige(f'{getattr(ex_, "lemma_prefix", "clause")}.lemma{n}', 'lemma', ft)
                run.obligations_sink.append(ob)
            # once proved under the current hypotheses, the fact may be used wherever those hypotheses hold
            hyp = z3.And(*run.pc) if run.pc else z3.BoolVal(True)
            run.axiom(z3.Implies(hyp, ft))
            return True
        return Builtin('prims.lemma', lemma)

    def x_pyvc_prims_implies(self):
        def imp(ex_, a, k):
            x, y = a
            if isinstance(x, bool):
                return y if x else True
            return P.or_(ex_, P.not_(ex_, x), y)
        return Builtin('prims.implies', imp)


def sha256_hex(ex, text):
    ex.run.assumed.add('A-sha')
    t = P.str_t(ex, text)
    f = P.ufn('sha256_hex', [z3.StringSort()], z3.StringSort())
    ex.run.axiom(z3.Length(f(t)) == 64)
    return Sym(K.Str, f(t))


class SigObj(ExtObj):
    """inspect.signature(f): for an abstract callable the interface says how many parameters it has
    (`__sig_len__`) or gives them as a symbolic sequence (`__sig_params__`: Seq of (name, has_default, default))."""

    def __init__(self, ex, target):
        self.target = target
        # a /repo callable whose signature the contract declares (`signatures={callee key: input name}`)
        fv = target.func if isinstance(target, BoundMethod) else target
        if isinstance(fv, FuncVal):
            c = ex.contracts.current if ex.contracts else None
            nm = (getattr(c, 'signatures', None) or {}).get(fv.fi.key)
            if nm is None:
                raise OutOfSubset(f'inspect.signature of {fv.fi.key}: the contract declares no signature for it')
            self.target = SigDecl(ex.run.ghost['_input_values'][nm])

    def a_parameters(self, ex):
        return SigParams(self.target)


def lib_val(ex, v):
    """z3 term standing for a python value handed to a serialisation library"""
    if isinstance(v, Sym):
        return v.t
    if isinstance(v, Ref):
        cell = ex.run.cell(v)
        if isinstance(cell, HDict) and cell.items is not None:
            # {'key': key, 'value': value}: a tuple of the entries
            f = P.ufn('pydict_' + '_'.join(str(k_) for k_ in cell.items), [lib_val(ex, x).sort() for x in cell.items.values()], K.U('Val').sort())
            return f(*[lib_val(ex, x) for x in cell.items.values()])
        if isinstance(cell, HList):
            k = P.kind_of(ex, v)
            return P.lift(ex, v, k)
    if isinstance(v, (str, int, bool)) or v is None:
        return P.to_dyn(ex, v)
    raise OutOfSubset(f'value {v!r} handed to a serialisation library')


def serializer_raises(ex, what, exc='TypeError'):
    """a serialiser may reject the value (unserialisable / mistyped): fork"""
    if ex.run.choose(2, tag=what, labels=['ret', 'raise']) == 1:
        ex.run.trace.append(Event(what, None, [], 'raise'))
        raise RaiseEx(ExcVal(exc, origin=what, payload=ex.run.fresh(K.U('Exc'), 'exc')))


class OrjsonModule(ExtObj):
    OPTS = {'OPT_SORT_KEYS': 1, 'OPT_SERIALIZE_NUMPY': 2, 'OPT_NON_STR_KEYS': 4, 'OPT_INDENT_2': 8}

    def getattr(self, ex, name):
        if name in self.OPTS:
            return self.OPTS[name]
        return ExtObj.getattr(self, ex, name)

    def m_dumps(self, ex, data, option=0):
        ex.run.assumed.add('A-json')
        serializer_raises(ex, 'orjson.dumps')
        vt = lib_val(ex, data)
        ex.run.trace.append(Event('orjson.dumps', None, [data, option], 'ret'))
        f = P.ufn('orjson_dumps_' + str(vt.sort()), [vt.sort(), z3.IntSort()], z3.StringSort())
        return OrjsonBytes(Sym(K.Str, f(vt, P.int_t(ex, option))))

    def m_loads(self, ex, s):
        ex.run.assumed.add('A-json')
        if isinstance(s, OrjsonBytes):
            s = s.text
        serializer_raises(ex, 'orjson.loads', 'ValueError')
        st = P.str_t(ex, s)
        ex.run.trace.append(Event('orjson.loads', None, [s], 'ret'))
        return Sym(K.U('Val', plain=True), P.ufn('orjson_loads', [z3.StringSort()], K.U('Val').sort())(st))


class JsonStdModule(ExtObj):
    """json.dumps (A-json): with sort_keys=True the text of a mapping is a function of the mapping alone (not of
    its insertion order), injective on JSON-distinguishable mappings; without it, of the ordered mapping."""

    def m_dumps(self, ex, obj, sort_keys=False, **kw):
        from . import loops
        ex.run.assumed.add('A-json')
        m = loops.map_of(ex, obj)
        if m is None:
            vt = lib_val(ex, obj)
            return Sym(K.Str, P.ufn('json_dumps_' + str(vt.sort()) + ('_sorted' if sort_keys is True else ''), [vt.sort()], z3.StringSort())(vt))
        if sort_keys is True:
            arr = m.kind.arr(m.t)
            return Sym(K.Str, P.ufn('json_dumps_sorted_' + m.kind.name, [arr.sort()], z3.StringSort())(arr))
        if sort_keys is False:
            return Sym(K.Str, P.ufn('json_dumps_ordered_' + m.kind.name, [m.kind.sort()], z3.StringSort())(m.t))
        raise OutOfSubset('json.dumps with symbolic sort_keys')


class OrjsonBytes(ExtObj):
    def __init__(self, text):
        self.text = text

    def m_decode(self, ex):
        return self.text


class NumpyModule(ExtObj):
    def getattr(self, ex, name):
        if name == 'ndarray':
            return ClassVal(('ext', 'numpy.ndarray'))
        return ExtObj.getattr(self, ex, name)

    def m_save(self, ex, path, value, **kw):
        from . import fsmodel
        ex.run.assumed.add('A-np')
        vt = lib_val(ex, value)
        ex.run.trace.append(Event('np.save', None, [path, value], 'ret'))
        fsmodel.write_in_place(ex, 'np.save', path, P.ufn('npy_bytes', [vt.sort()], z3.IntSort())(vt))

    def m_load(self, ex, path, **kw):
        from . import fsmodel
        ex.run.assumed.add('A-np')
        p = fsmodel.as_path(ex, path)
        g = fsmodel.fs_of(ex)
        serializer_raises(ex, 'np.load', 'ValueError')
        ex.run.trace.append(Event('np.load', None, [p], 'ret'))
        return Sym(K.U('Val', plain=True), P.ufn('npy_load', [z3.IntSort()], K.U('Val').sort())(z3.Select(g.content, p.t)))


class PandasModule(ExtObj):
    def getattr(self, ex, name):
        if name in ('DataFrame', 'Series'):
            return ClassVal(('ext', f'pandas.{name}'))
        return ExtObj.getattr(self, ex, name)

    def m_read_pickle(self, ex, path):
        from . import fsmodel
        ex.run.assumed.add('A-pd')
        p = fsmodel.as_path(ex, path)
        g = fsmodel.fs_of(ex)
        serializer_raises(ex, 'pd.read_pickle', 'ValueError')
        ex.run.trace.append(Event('pd.read_pickle', None, [p], 'ret'))
        return Sym(K.U('Val', plain=True), P.ufn('pd_load', [z3.IntSort()], K.U('Val').sort())(z3.Select(g.content, p.t)))


class PickleModule(ExtObj):
    def m_dump(self, ex, value, fh):
        ex.run.assumed.add('A-pickle')
        serializer_raises(ex, 'pickle.dump')
        vt = lib_val(ex, value)
        ex.run.trace.append(Event('pickle.dump', None, [value], 'ret'))
        fh.m_write(ex, Sym(K.Str, P.ufn('pickle_text', [vt.sort()], z3.StringSort())(vt)))

    def m_load(self, ex, fh):
        ex.run.assumed.add('A-pickle')
        txt = fh.m_read(ex)
        serializer_raises(ex, 'pickle.load', 'ValueError')
        return Sym(K.U('Val', plain=True), P.ufn('pickle_load', [z3.StringSort()], K.U('Val').sort())(txt.t))


class YamlModule(ExtObj):
    def getattr(self, ex, name):
        if name == 'Loader':
            return ClassVal(('ext', 'yaml.Loader'))
        return ExtObj.getattr(self, ex, name)

    def m_dump(self, ex, value, fh):
        ex.run.assumed.add('A-yaml')
        vt = lib_val(ex, value)
        ex.run.trace.append(Event('yaml.dump', None, [value], 'ret'))
        fh.m_write(ex, Sym(K.Str, P.ufn('yaml_text', [vt.sort()], z3.StringSort())(vt)))

    def m_load(self, ex, fh, *a, **k):
        ex.run.assumed.add('A-yaml')
        txt = fh.m_read(ex)
        return Sym(K.U('Info'), P.ufn('yaml_load', [z3.StringSort()], K.U('Info').sort())(txt.t))


class PltModule(ExtObj):
    def m_close(self, ex, fig):
        ex.run.trace.append(Event('plt.close', None, [fig], 'ret'))


def deepcopy_(ex, v, shallow=False):
    """copy.deepcopy (A-copy): structurally equal, shares no mutable part with the original: every list / dict /
    object cell reachable from v is duplicated; symbolic values are immutable terms (config values of kind Dyn are
    value-copied by construction); the copy is tagged `fresh`."""
    run = ex.run
    memo = {}

    def cp(x, depth=0):
        if isinstance(x, Ref):
            if x.addr in memo:
                return memo[x.addr]
            cell = run.cell(x)
            if isinstance(cell, HObj) and not isinstance(cell.cls, tuple):
                r = cell.cls.lookup('__deepcopy__' if not shallow else '__copy__')
                if r and r[0] == 'method':
                    res = ex.call(BoundMethod(ex.func_of(r[1]), x), [run.alloc(HDict(items={}))] if not shallow else [], {})
                    memo[x.addr] = res
                    return res
            nc = cell.copy()
            nr = run.alloc(nc)
            memo[x.addr] = nr
            nc.ghost['fresh'] = True
            nc.ghost.pop('frozen', None)
            nc.ghost.pop('borrowed', None)
            if shallow and depth >= 0:
                return nr
            if isinstance(nc, (HObj, AbstractObj)):
                nc.fields = {f: cp(y, depth + 1) for f, y in nc.fields.items()}
                if isinstance(nc, HObj) and 'basedict' in nc.ghost:
                    nc.ghost['basedict'] = cp(nc.ghost['basedict'], depth + 1)
            elif isinstance(nc, HList) and nc.items is not None:
                nc.items = [cp(y, depth + 1) for y in nc.items]
            elif isinstance(nc, HDict) and nc.items is not None:
                nc.items = {k_: cp(y, depth + 1) for k_, y in nc.items.items()}
            return nr
        if isinstance(x, tuple):
            return tuple(cp(y, depth + 1) for y in x)
        return x
    run.assumed.add('A-copy')
    return cp(v)


class NxModule(ExtObj):
    """networkx (A-nx): descendants / ancestors / has_path are uninterpreted functions of (graph, node): the
    mathematical notions; graph construction is not modelled here (Chain._build_graph has its own contract)"""

    def __init__(self, models):
        self.models = models

    def m_descendants(self, ex, graph, node):
        return ex.run.alloc(HSet(sym=self.models._nx_set(ex, 'desc', graph, node)))

    def m_ancestors(self, ex, graph, node):
        return ex.run.alloc(HSet(sym=self.models._nx_set(ex, 'anc', graph, node)))

    def m_has_path(self, ex, graph, a, b):
        ex.run.assumed.add('A-nx')
        return Sym(K.Bool, P.ufn(f'nx_has_path_{a.kind.name}', [graph.t.sort(), a.t.sort(), b.t.sort()], z3.BoolSort())(graph.t, a.t, b.t))


class LockObj(ExtObj):
    def enter(self, ex):
        ex.run.trace.append(Event('lock.acquire', None, [], 'ret'))
        return self

    def exit(self, ex):
        ex.run.trace.append(Event('lock.release', None, [], 'ret'))


class LoggerObj(ExtObj):
    def __init__(self, name):
        self.name = name

    def _noop(self, ex, *a, **k):
        return None
    m_debug = m_info = m_warning = m_error = m_exception = m_setLevel = m_addHandler = m_removeHandler = _noop


TimeU = K.U('Time', plain=True)


class GetpassModule(ExtObj):
    def m_getuser(self, ex):
        ex.run.assumed.add('A-time')
        return Sym(K.Str, z3.String('getpass_user'))


class DistributionObj(ExtObj):
    def a_version(self, ex):
        return Sym(K.Str, z3.String('package_version'))


class DatetimeClass(ExtObj):
    """datetime.datetime: now() is an opaque, fresh point in time; timestamp / fromtimestamp / str are uninterpreted"""

    def m_now(self, ex, *a):
        ex.run.assumed.add('A-time')
        return ex.run.fresh(TimeU, 'now')

    def m_timestamp(self, ex, t):
        return Sym(K.Int, P.ufn('time_stamp', [TimeU.sort()], z3.IntSort())(P.lift(ex, t, TimeU)))

    def m_fromtimestamp(self, ex, v, *a):
        return Sym(TimeU, P.ufn('time_from_stamp', [z3.IntSort()], TimeU.sort())(P.int_t(ex, v)))


class RegexObj(ExtObj):
    """re.compile(p): match / fullmatch / search are three different uninterpreted predicates of (pattern, text) (A-re)"""

    def __init__(self, ex, pattern):
        self.p = P.str_t(ex, pattern)

    def _pred(self, ex, name, s):
        ex.run.assumed.add('A-re')
        return Sym(K.Bool, P.ufn(name, [z3.StringSort(), z3.StringSort()], z3.BoolSort())(self.p, P.str_t(ex, s)))

    def m_fullmatch(self, ex, s, *a):
        return self._pred(ex, 're_fullmatch', s)

    def m_match(self, ex, s, *a):
        return self._pred(ex, 're_match', s)

    def m_search(self, ex, s, *a):
        return self._pred(ex, 're_search', s)


class LoggingModule(ExtObj):
    DEBUG, INFO, WARNING = 10, 20, 30

    def getattr(self, ex, name):
        if name in ('DEBUG', 'INFO', 'WARNING', 'ERROR'):
            return {'DEBUG': 10, 'INFO': 20, 'WARNING': 30, 'ERROR': 40}[name]
        return ExtObj.getattr(self, ex, name)

    def m_getLogger(self, ex, name=None):
        return LoggerObj(name)

    def m_warning(self, ex, *a):
        return None

    def m_StreamHandler(self, ex, *a):
        return LoggerObj('handler')


class SigDecl(ExtObj):
    """declared signature: a symbolic sequence of (name, parameter record)"""

    def __init__(self, seq):
        self.seq = seq

    def a___sig_params__(self, ex):
        return self.seq

    def a___sig_len__(self, ex):
        return self.ex_len(ex)


class SigParams(ExtObj):
    def __init__(self, target):
        self.target = target

    def length(self, ex):
        return P.getattr_(ex, self.target, '__sig_len__')

    def m_items(self, ex):
        return P.getattr_(ex, self.target, '__sig_params__')

    def m_keys(self, ex):
        return P.getattr_(ex, self.target, '__sig_names__')


class ShaObj(ExtObj):
    def __init__(self, data):
        self.data = data

    def m_hexdigest(self, ex):
        if not isinstance(self.data, Bytes):
            raise OutOfSubset('sha256 of non-encoded text')
        return sha256_hex(ex, self.data.s)


class Bytes:
    """str.encode(): bytes are only ever hashed; keep the text."""

    def __init__(self, s):
        self.s = s


class DynType:
    """type(x) of a config value: only compared with `is str` / `is list` / `is dict` ..."""

    def __init__(self, v):
        self.v = v


def replace_all(s, a, b):
    f = z3.Function('pyvc_replace_all', z3.StringSort(), z3.StringSort(), z3.StringSort(), z3.StringSort())
    return f(s, a, b)


def split(ex, s_t, sep):
    """s.split(sep) for a constant separator: A-split.
    Facts assumed: at least one part; join(sep, parts) == s; no part contains sep."""
    from . import loops
    ex.run.assumed.add('A-split')
    k = K.Seq(K.Str)
    f = P.ufn(f'split_{_sepname(sep)}', [z3.StringSort()], k.sort())
    parts = f(s_t)
    ex.run.axiom(z3.Length(parts) >= 1)
    j = loops.join_term(ex, z3.StringVal(sep), parts)
    ex.run.axiom(j == s_t)
    i = z3.Int(f'split_i_{_sepname(sep)}')
    ex.run.axiom(P.forall([i], z3.Implies(z3.And(i >= 0, i < z3.Length(parts)),
                                            z3.Not(z3.Contains(parts[i], z3.StringVal(sep)))), patterns=[parts[i]]))
    # a string without the separator is a single part
    ex.run.axiom(z3.Implies(z3.Not(z3.Contains(s_t, z3.StringVal(sep))), parts == z3.Unit(s_t)))
    return Sym(k, parts)


def _sepname(sep):
    return ''.join(f'{ord(c):02x}' for c in sep)


# =============================================================================================
# isinstance / issubclass
# =============================================================================================

def _cls_names(t):
    """Normalise a class-ish value to a set of acceptable names."""
    if isinstance(t, ClassVal):
        return t.ci
    return None


PY_TYPE_OF_KIND = {'Str': 'str', 'Int': 'int', 'Bool': 'bool', 'Path': 'pathlib.Path'}


def isinstance_(ex, v, t):
    if isinstance(t, ModuleVal) and isinstance(t.mi, tuple):
        t = ClassVal(t.mi)      # an external class the models do not know more about
    if isinstance(t, tuple):
        acc = False
        for x in t:
            acc = P.or_(ex, acc, isinstance_(ex, v, x))
        return acc
    if isinstance(t, Ref):
        c = ex.run.cell(t)
        if isinstance(c, (HSet, HList)) and c.items is not None:
            return isinstance_(ex, v, tuple(c.items))
        if isinstance(c, AbstractObj):
            # isinstance(value, <abstract class object>): the interface decides
            return P.abstract_call(ex, t, '__instancecheck__', [v], {})
    if isinstance(t, Sym) and t.kind == K.Cls:
        # isinstance(value, <symbolic class>): decided for the classes the contracts distinguish
        ex.run.assumed.add('A-isinstance-tag')
        acc = z3.BoolVal(False)
        for nm in ('builtins.str', 'builtins.int', 'builtins.float', 'builtins.bool', 'builtins.list', 'builtins.dict', 'pathlib.Path'):
            r = isinstance_(ex, v, ClassVal(('ext', nm)))
            rt = r.t if isinstance(r, Sym) else z3.BoolVal(bool(r))
            acc = z3.If(t.t == z3.StringVal(nm.replace('builtins.', '')), rt, acc)
        known = z3.Or(*[t.t == z3.StringVal(n) for n in ('str', 'int', 'float', 'bool', 'list', 'dict', 'pathlib.Path')])
        vt = P.to_dyn(ex, v) if not (isinstance(v, Sym) and v.kind == K.Path) else K.dyn_sorts()[0].JPath(v.t)
        other = P.ufn('isinstance_tag', [K.Dyn.sort(), z3.StringSort()], z3.BoolSort())(vt, t.t)
        return Sym(K.Bool, z3.If(known, acc, other))
    if isinstance(t, Sym) and isinstance(t.kind, K.Opt) and t.kind.inner == K.Cls:
        if ex.run.decide(t.kind.is_none(t.t)):
            raise RaiseEx(ExcVal('TypeError', origin='isinstance(x, None)'))
        return isinstance_(ex, v, Sym(K.Cls, t.kind.val(t.t)))
    if not isinstance(t, ClassVal):
        if isinstance(t, str):
            return isinstance_name(ex, v, t)
        raise OutOfSubset(f'isinstance second argument {t!r}')
    ci = t.ci
    tname = ci[1].replace('builtins.', '') if isinstance(ci, tuple) else None
    # concrete python constants
    if v is None:
        return tname in ('NoneType', 'object')
    if isinstance(v, bool):
        return tname in ('bool', 'int', 'object')
    if isinstance(v, int):
        return tname in ('int', 'object')
    if isinstance(v, str):
        return tname in ('str', 'object')
    if isinstance(v, float):
        return tname in ('float', 'object')
    if isinstance(v, tuple):
        return tname in ('tuple', 'object', 'collections.abc.Iterable', 'typing.Iterable')
    if isinstance(v, ExcVal):
        return P.exc_isinstance(ex, v, t)
    if isinstance(v, (FuncVal, BoundMethod, Builtin, P.AbstractFn)):
        return tname in ('object', 'collections.abc.Callable', 'typing.Callable')
    if isinstance(v, ClassVal):
        return tname in ('type', 'object')
    if isinstance(v, Ref):
        c = ex.run.cell(v)
        if isinstance(c, HObj):
            if isinstance(c.cls, tuple):
                return c.cls == ci or tname == 'object'
            if isinstance(ci, tuple):
                return c.cls.is_subclass_of(ci) or tname == 'object' or \
                    (tname in ('collections.abc.Iterable', 'typing.Iterable') and
                     (c.cls.is_subclass_of(('ext', 'builtins.dict')) or c.cls.is_subclass_of(('ext', 'builtins.str'))))
            return c.cls.is_subclass_of(ci)
        if isinstance(c, HList):
            return tname in ('list', 'object', 'collections.abc.Iterable', 'typing.Iterable')
        if isinstance(c, HDict):
            return tname in ('dict', 'object', 'collections.abc.Iterable', 'typing.Iterable')
        if isinstance(c, HSet):
            return tname in ('set', 'object', 'collections.abc.Iterable', 'typing.Iterable')
        if isinstance(c, AbstractObj):
            return c.iface.isinstance(ex, v, t)
    if isinstance(v, Sym):
        k = v.kind
        if k.name in PY_TYPE_OF_KIND:
            mine = PY_TYPE_OF_KIND[k.name]
            if tname is None:
                return False
            if mine == 'bool':
                return tname in ('bool', 'int', 'object')
            if mine == 'pathlib.Path':
                return tname in ('pathlib.Path', 'pathlib.PosixPath', 'pathlib.PurePath', 'object')
            if mine == 'str':
                return tname in ('str', 'object', 'collections.abc.Iterable', 'typing.Iterable')
            return tname in (mine, 'object')
        if isinstance(k, K.Seq):
            return tname in ('list', 'object', 'collections.abc.Iterable', 'typing.Iterable')
        if isinstance(k, K.Map):
            return tname in ('dict', 'object', 'collections.abc.Iterable', 'typing.Iterable')
        if isinstance(k, K.Tup):
            return tname in ('tuple', 'object', 'collections.abc.Iterable', 'typing.Iterable')
        if isinstance(k, K.Opt):
            if ex.run.decide(k.is_none(v.t)):
                return isinstance_(ex, None, t)
            return isinstance_(ex, Sym(k.inner, k.val(v.t)), t)
        if isinstance(k, K.Rec):
            if k.cls:
                kc = ex.table.cls(k.cls)
                if isinstance(ci, tuple):
                    return kc.is_subclass_of(ci) or tname == 'object'
                # a record stands for *some subclass* instance only if the contract says so (`subclass_tag`)
                return kc.is_subclass_of(ci)
            return False
        if k == K.Dyn:
            return dyn_isinstance(ex, v, t)
        if isinstance(k, K.U):
            declared = None
            for cm in (ex.contracts.modules.values() if ex.contracts else []):
                declared = declared or getattr(cm.py, 'U_CLASSES', {}).get(k.name)
            if declared is not None:
                dc = ex.table.cls(declared)
                if isinstance(ci, tuple):
                    return dc.is_subclass_of(ci) or tname == 'object'
                return dc.is_subclass_of(ci)
            if k.plain and not isinstance(ci, tuple):
                return False
            return Sym(K.Bool, P.ufn(f'isinstance_{k.name}', [k.sort(), z3.StringSort()], z3.BoolSort())(v.t, z3.StringVal(str(tname or ci.key))))
    raise OutOfSubset(f'isinstance({v!r}, {t!r})')


def isinstance_name(ex, v, name):
    """taskchain.utils.clazz.isinstance(obj, 'builtins.dict') style (name of a class)."""
    short = name.split('.')[-1]
    return isinstance_(ex, v, ClassVal(('ext', f'builtins.{short}')))


def dyn_isinstance(ex, v, t):
    J = K.dyn_sorts()[0]
    ci = t.ci
    ex.run.assumed.add('A-dyn')
    if isinstance(ci, tuple):
        n = ci[1].replace('builtins.', '')
        tbl = {
            'list': J.is_JList(v.t), 'dict': J.is_JDict(v.t),
            'str': z3.Or(J.is_JStr(v.t), J.is_JRStr(v.t)),
            'bool': J.is_JBool(v.t), 'int': z3.Or(J.is_JInt(v.t), J.is_JBool(v.t)),
            'float': J.is_JFloat(v.t), 'NoneType': J.is_JNone(v.t),
            'pathlib.Path': J.is_JPath(v.t), 'pathlib.PosixPath': J.is_JPath(v.t),
            'object': z3.BoolVal(True),
            'set': P.ufn('other_is_set', [z3.IntSort()], z3.BoolSort())(J.jother_id(v.t)) if False else z3.And(J.is_JOther(v.t), P.ufn('other_is_set', [z3.IntSort()], z3.BoolSort())(J.jother_id(v.t))),
            'tuple': z3.And(J.is_JOther(v.t), P.ufn('other_is_tuple', [z3.IntSort()], z3.BoolSort())(J.jother_id(v.t))),
        }
        if n in tbl:
            return Sym(K.Bool, tbl[n])
        if n in ('collections.defaultdict', 'collections.OrderedDict'):
            # dict subclasses: an instance is a mapping
            return Sym(K.Bool, z3.And(J.is_JDict(v.t), P.ufn('dyn_isinstance_ext', [K.Dyn.sort(), z3.StringSort()], z3.BoolSort())(v.t, z3.StringVal(n))))
        if n in ('collections.abc.Iterable', 'typing.Iterable'):
            return Sym(K.Bool, z3.Or(J.is_JList(v.t), J.is_JDict(v.t), J.is_JStr(v.t), J.is_JRStr(v.t)))
        return Sym(K.Bool, P.ufn('dyn_isinstance_ext', [K.Dyn.sort(), z3.StringSort()], z3.BoolSort())(v.t, z3.StringVal(n)))
    if ci.name == 'ReprStr':
        return Sym(K.Bool, J.is_JRStr(v.t))
    if ci.name == 'ParameterObject':
        return Sym(K.Bool, J.is_JObj(v.t))
    if ci.name in ('IgnoreForPersistence', 'ChainObject', 'AutoParameterObject'):
        return Sym(K.Bool, z3.And(J.is_JObj(v.t), P.ufn(f'obj_is_{ci.name}', [z3.IntSort()], z3.BoolSort())(J.jobj_id(v.t))))
    return Sym(K.Bool, P.ufn('dyn_isinstance_repo', [K.Dyn.sort(), z3.StringSort()], z3.BoolSort())(v.t, z3.StringVal(ci.key)))


def issubclass_(ex, c, t):
    if isinstance(t, tuple):
        acc = False
        for x in t:
            acc = P.or_(ex, acc, issubclass_(ex, c, x))
        return acc
    if isinstance(c, ClassVal) and isinstance(t, ClassVal):
        if isinstance(c.ci, tuple):
            if isinstance(t.ci, tuple):
                a, b = c.ci[1].replace('builtins.', ''), t.ci[1].replace('builtins.', '')
                return a == b or b == 'object' or (a == 'bool' and b == 'int')
            return False
        return c.ci.is_subclass_of(t.ci) or (isinstance(t.ci, tuple) and t.ci[1] == 'builtins.object')
    if isinstance(c, Sym) and isinstance(c.kind, K.Rec) and 'is_subclass' in (c.kind.fields or {}):
        pass
    if isinstance(c, Ref):
        cell = ex.run.cell(c)
        if isinstance(cell, AbstractObj):
            return cell.iface.issubclass(ex, c, t)
    if isinstance(c, Sym) and isinstance(c.kind, K.U) and isinstance(t, ClassVal):
        # U_ISSUBCLASS = {kind name: {class key: boolean attribute of the class object}} in a contract module
        tkey = t.ci.key if hasattr(t.ci, 'key') else t.ci[1]
        for cm in (ex.contracts.modules.values() if ex.contracts else []):
            attr = getattr(cm.py, 'U_ISSUBCLASS', {}).get(c.kind.name, {}).get(tkey)
            if attr is not None:
                return P.getattr_(ex, c, attr)
    raise OutOfSubset(f'issubclass({c!r}, {t!r})')
