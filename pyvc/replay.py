"""Replaying a witness (decoded solver model or bounded-search input) on the real code."""
import json
import os
import sys
from . import native, dsl
from . import kinds as K

VERIF = os.path.dirname(os.path.dirname(os.path.abspath(__file__)))


def _registry():
    from .source import SourceTable
    from .contracts import Registry
    import contracts as cpkg
    table = SourceTable()
    return Registry(table, cpkg.MODULES)


def run_decoded(c, decoded, tags=None):
    """decoded: {input name: kinds.decode data}; tags: path tags (which abstract calls raised).
    Returns (run_case output, raw native inputs)."""
    ctx = native.Ctx(decoded.get('__tables__'))
    raw = {}
    gen = native.Gen(0)

    def value(name, kind):
        if not isinstance(kind, K.Kind):
            raise ValueError(f'cannot rebuild {name} from a model')
        if name not in decoded:
            # a value the path never looked at: any value will do
            v = gen.of(kind)
        else:
            v = native.from_decoded(kind, decoded[name], ctx)
        raw[name] = v
        return v
    source = native.FnSource(value, native.outcomes_from_tags(tags or []))
    ni = native.NativeInputs(c, source)
    vals = ni.build_all()
    return native.run_case(c, vals, ni.log, source), raw


def run_witness(c, witness):
    if 'decoded' in witness and witness['decoded'] is not None:
        out, raw = run_decoded(c, witness['decoded'], witness.get('tags'))
        return out
    if 'python' in witness:
        # inputs given as python literals (bounded-search witnesses of simple kinds)
        vals_src = {k_: eval(v, {'__builtins__': {}}, _literal_env()) for k_, v in witness['python'].items()}
        vals = native.NativeInputs(c, lambda name, kind: vals_src[name]).build_all()
        return native.run_case(c, vals)
    raise ValueError('witness has neither decoded model nor python literals')


def _literal_env():
    from pathlib import Path, PosixPath
    from taskchain.utils.data import ReprStr
    return {'Path': Path, 'PosixPath': PosixPath, 'ReprStr': ReprStr, 'DynObj': native.DynObj, 'True': True, 'False': False, 'None': None}


def main(argv):
    path = argv[0]
    if not os.path.isabs(path):
        path = os.path.join(VERIF, path)
    doc = json.load(open(path))
    if doc.get('kind') == 'extra':
        import contracts as cpkg
        fn = cpkg.EXTRA_REPLAY[doc['check']]
        ok = fn(doc)
        print('REPRODUCED' if not ok else 'NOT-REPRODUCED', doc.get('obligation'))
        return 1 if not ok else 0
    reg = _registry()
    c = reg.by_id[doc['contract']]
    w = doc.get('witness')
    if not w:
        print(f'replay {doc["obligation"]}: no concrete input recorded (no-failing-input-found); failed obligations:')
        for o in doc.get('failed_obligations', []):
            print('  ', o['name'], o['verdict'], o.get('detail', '')[:120])
        return 1
    if w.get('decoded') is not None:
        out, raw = run_decoded(c, w['decoded'], w.get('tags'))
    else:
        # bounded-search witness: re-generate from the recorded seed
        g = w.get('regen')
        if g is None:
            print('replay: witness without decoded model; inputs were:', json.dumps(w['inputs'])[:1000])
            return 1
        gen = native.Gen(g)

        sofar = {}

        def source(name, kind, gen=gen):
            cg = getattr(c, 'native_gens', {}).get(name)
            v = cg(gen, sofar) if cg else gen.of(kind, hint='name' if 'name' in name else None)
            sofar[name] = v
            return v
        ni = native.NativeInputs(c, source)
        vals = ni.build_all()
        out = native.run_case(c, vals, ni.log)
    bad = [cn for cn, ok in out.get('clauses', {}).items() if ok is not True]
    print(json.dumps({'outcome': out.get('outcome'), 'result': out.get('result'), 'raised': out.get('raised'),
                      'clauses': out.get('clauses')}, default=str)[:2000])
    if bad and out.get('requires_ok'):
        print(f'REPRODUCED {doc["obligation"]}: clause(s) {bad} false on the real code')
        return 1
    print('NOT-REPRODUCED')
    return 0
